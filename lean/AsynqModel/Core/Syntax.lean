/-
  Core language shared by the Python harness (harness/corerun.py, interpreted on the real asynq) and the Lean
  machine: values, errors, yielded structures, first-order task programs, observable events.
-/
namespace AsynqModel.Core

/-- exception identities: user instance tokens, and the exceptions asynq itself creates -/
inductive Err where
  | u (n : Nat)            -- pre-made user exception instance n
  | typeerr                -- TypeError raised by `unwrap` for a yielded non-future
  | notset                 -- AssertionError "Value of this item wasn't set on batch flush."
  | nonasync               -- AssertionError of NonAsyncContext.pause/resume
  | flushraise (k : Nat)   -- the exception raised by the flush body of batch kind k
  | stackguard             -- RuntimeError "Number of scheduled tasks exceeded maximum threshold."
  | other                  -- anything else (never produced by the model)
  deriving Repr, DecidableEq, Inhabited

/-- values: a free term algebra, so any mis-delivery changes the result -/
inductive Val where
  | none
  | a (n : Nat)
  | tup (l : List Val)
  | lst (l : List Val)
  | dict (ks : List Nat) (vs : List Val)
  | node (tag : Nat) (kids : List Val)
  deriving Repr, Inhabited

mutual
def Val.decEq : (x y : Val) → Decidable (x = y)
  | .none, .none => isTrue rfl
  | .a n, .a m => if h : n = m then isTrue (by rw [h]) else isFalse (by intro h'; injection h'; contradiction)
  | .tup l, .tup m => match Val.decEqList l m with
    | isTrue h => isTrue (by rw [h])
    | isFalse h => isFalse (by intro h'; injection h'; contradiction)
  | .lst l, .lst m => match Val.decEqList l m with
    | isTrue h => isTrue (by rw [h])
    | isFalse h => isFalse (by intro h'; injection h'; contradiction)
  | .dict k l, .dict k' m =>
    if hk : k = k' then
      match Val.decEqList l m with
      | isTrue h => isTrue (by rw [h, hk])
      | isFalse h => isFalse (by intro h'; injection h'; contradiction)
    else isFalse (by intro h'; injection h'; contradiction)
  | .node k l, .node k' m =>
    if hk : k = k' then
      match Val.decEqList l m with
      | isTrue h => isTrue (by rw [h, hk])
      | isFalse h => isFalse (by intro h'; injection h'; contradiction)
    else isFalse (by intro h'; injection h'; contradiction)
  | .none, .a _ | .none, .tup _ | .none, .lst _ | .none, .dict _ _ | .none, .node _ _ => isFalse (by intro h; cases h)
  | .a _, .none | .a _, .tup _ | .a _, .lst _ | .a _, .dict _ _ | .a _, .node _ _ => isFalse (by intro h; cases h)
  | .tup _, .none | .tup _, .a _ | .tup _, .lst _ | .tup _, .dict _ _ | .tup _, .node _ _ => isFalse (by intro h; cases h)
  | .lst _, .none | .lst _, .a _ | .lst _, .tup _ | .lst _, .dict _ _ | .lst _, .node _ _ => isFalse (by intro h; cases h)
  | .dict _ _, .none | .dict _ _, .a _ | .dict _ _, .tup _ | .dict _ _, .lst _ | .dict _ _, .node _ _ => isFalse (by intro h; cases h)
  | .node _ _, .none | .node _ _, .a _ | .node _ _, .tup _ | .node _ _, .lst _ | .node _ _, .dict _ _ => isFalse (by intro h; cases h)
def Val.decEqList : (x y : List Val) → Decidable (x = y)
  | [], [] => isTrue rfl
  | [], _ :: _ => isFalse (by intro h; cases h)
  | _ :: _, [] => isFalse (by intro h; cases h)
  | x :: xs, y :: ys =>
    match Val.decEq x y, Val.decEqList xs ys with
    | isTrue h1, isTrue h2 => isTrue (by rw [h1, h2])
    | isFalse h1, _ => isFalse (by intro h; injection h; contradiction)
    | _, isFalse h2 => isFalse (by intro h; injection h; contradiction)
end
instance : DecidableEq Val := Val.decEq

inductive Outcome where
  | ok (v : Val)
  | err (e : Err)
  deriving Repr, DecidableEq, Inhabited

/-- how a task names a future: the i-th future it created itself, or the j-th handed over by its parent -/
inductive Ref where
  | own (i : Nat)
  | inh (j : Nat)
  deriving Repr, DecidableEq, Inhabited

/-- a yielded structure, with leaves of type α (`Ref` in programs, future ids at run time) -/
inductive YS (α : Type) where
  | none
  | junk                                   -- an object that is neither a future nor None
  | f (r : α)
  | tup (l : List (YS α))
  | lst (l : List (YS α))
  | dict (ks : List Nat) (vs : List (YS α))
  deriving Repr, Inhabited

mutual
def YS.decEq {α : Type} [DecidableEq α] : (x y : YS α) → Decidable (x = y)
  | .none, .none => isTrue rfl
  | .junk, .junk => isTrue rfl
  | .f r, .f r' => if h : r = r' then isTrue (by rw [h]) else isFalse (by intro h'; injection h'; contradiction)
  | .tup l, .tup m => match YS.decEqList l m with
    | isTrue h => isTrue (by rw [h])
    | isFalse h => isFalse (by intro h'; injection h'; contradiction)
  | .lst l, .lst m => match YS.decEqList l m with
    | isTrue h => isTrue (by rw [h])
    | isFalse h => isFalse (by intro h'; injection h'; contradiction)
  | .dict k l, .dict k' m =>
    if hk : k = k' then
      match YS.decEqList l m with
      | isTrue h => isTrue (by rw [h, hk])
      | isFalse h => isFalse (by intro h'; injection h'; contradiction)
    else isFalse (by intro h'; injection h'; contradiction)
  | .none, .junk | .none, .f _ | .none, .tup _ | .none, .lst _ | .none, .dict _ _ => isFalse (by intro h; cases h)
  | .junk, .none | .junk, .f _ | .junk, .tup _ | .junk, .lst _ | .junk, .dict _ _ => isFalse (by intro h; cases h)
  | .f _, .none | .f _, .junk | .f _, .tup _ | .f _, .lst _ | .f _, .dict _ _ => isFalse (by intro h; cases h)
  | .tup _, .none | .tup _, .junk | .tup _, .f _ | .tup _, .lst _ | .tup _, .dict _ _ => isFalse (by intro h; cases h)
  | .lst _, .none | .lst _, .junk | .lst _, .f _ | .lst _, .tup _ | .lst _, .dict _ _ => isFalse (by intro h; cases h)
  | .dict _ _, .none | .dict _ _, .junk | .dict _ _, .f _ | .dict _ _, .tup _ | .dict _ _, .lst _ => isFalse (by intro h; cases h)
def YS.decEqList {α : Type} [DecidableEq α] : (x y : List (YS α)) → Decidable (x = y)
  | [], [] => isTrue rfl
  | [], _ :: _ => isFalse (by intro h; cases h)
  | _ :: _, [] => isFalse (by intro h; cases h)
  | x :: xs, y :: ys =>
    match YS.decEq x y, YS.decEqList xs ys with
    | isTrue h1, isTrue h2 => isTrue (by rw [h1, h2])
    | isFalse h1, _ => isFalse (by intro h; injection h; contradiction)
    | _, isFalse h2 => isFalse (by intro h; injection h; contradiction)
end
instance {α : Type} [DecidableEq α] : DecidableEq (YS α) := YS.decEq

abbrev Y := YS Ref
abbrev RY := YS Nat

inductive ItemMode where
  | ok                 -- the flush sets the item's value
  | err (e : Nat)      -- the flush sets user error e on the item
  | unset              -- the flush skips the item
  deriving Repr, DecidableEq, Inhabited

inductive CtxKind where
  | plain                          -- an AsyncContext that only logs resume/pause
  | override (var val : Nat)       -- AsyncScopedValue.override(val)
  | nonasync                       -- a NonAsyncContext: pause()/resume() raise AssertionError
  deriving Repr, DecidableEq, Inhabited

inductive LazyOut where
  | ok (v : Nat)
  | err (e : Nat)
  deriving Repr, DecidableEq, Inhabited

/-- first-order task programs (see DESIGN.md 3.1 and harness/corerun.py `block`) -/
inductive Body where
  | ret (tag : Nat)                                   -- return node(tag, everything received so far)
  | res (tag : Nat)                                   -- the same through asynq.result()
  | raise (e : Nat)
  | reraise                                           -- re-raise the exception caught last (user error 0 if none)
  | spawn (child : Body) (pass : List Ref) (k : Body)  -- child.asynq(...): a task that has not started
  | item (kind payload : Nat) (mode : ItemMode) (k : Body)
  | const (v : Nat) (k : Body)                        -- ConstFuture
  | errfut (e : Nat) (k : Body)                       -- ErrorFuture
  | lazy (o : LazyOut) (k : Body)                     -- Future(provider)
  | yld (y : Y) (k h : Body)                          -- yield y; value → k, exception → h
  | reyld (k h : Body)                                -- yield once more the very object yielded last
  | sync (child : Body) (pass : List Ref) (k h : Body) -- child.asynq(...).value() inside a step
  | syncfut (r : Ref) (k h : Body)                    -- r.value() inside a step
  | syncret (f : Nat) (k h : Body)                    -- run time only: value() of future f is returning
  | withCtx (c : CtxKind) (b k : Body)                -- with c: b ; then k
  | endwith                                           -- end of the innermost with-block
  | read (var : Nat) (k : Body)                       -- observe a scoped value
  | active (k : Body)                                 -- observe get_active_task()
  deriving Repr, Inhabited

inductive Conv where
  | value   -- fn.asynq(...).value()
  | call    -- fn(...)
  deriving Repr, DecidableEq, Inhabited

inductive NewKind where
  | task (creator : Option Nat)
  | item (kind seq idx payload : Nat) (mode : ItemMode)
  | const (v : Nat)
  | errfut (e : Nat)
  | lazy
  deriving Repr, DecidableEq, Inhabited

inductive Recv where
  | start
  | out (o : Outcome)
  deriving Repr, DecidableEq, Inhabited

/-- a scheduled batch as seen at flush time: kind, seq, number of items, flushed?, priority -/
structure PendingB where
  kind : Nat
  seq : Nat
  n : Nat
  flushed : Bool
  prio : Nat × Nat
  deriving Repr, DecidableEq, Inhabited

/-- the observable vocabulary, identical for the model and the harness -/
inductive Event where
  | top (idx : Nat) (conv : Conv)
  | new (f : Nat) (k : NewKind)
  | run (t i : Nat) (dc : Bool) (recv : Recv)
  | yield (t i : Nat) (y : RY)
  | done (f : Nat) (o : Outcome)
  | bdone (kind seq : Nat) (ok : Bool)
  | flushB (kind seq : Nat) (items : List Nat) (prio : Nat × Nat) (pending : List PendingB)
  | flushI (kind seq : Nat) (items : List Nat)
  | flushE (kind seq : Nat)
  | ctx (resume : Bool) (c : Nat)
  | ctxN (c t : Nat) (k : CtxKind)     -- a context object is created by task t (just before `__enter__`)
  | ctxX (c : Nat)                     -- its `__exit__` has returned
  | active (t : Nat) (seen : Option Nat)
  | read (t var : Nat) (v : Val)
  | syncE (t f : Nat)
  | syncX (t f : Nat) (o : Outcome)
  | ret (o : Outcome)
  | sched (same : Bool) (ntasks nbatches nlive : Nat) (active : Option Nat)
  | svals (l : List (Nat × Val))
  | bad (s : String)     -- an implementation event the vocabulary cannot express (never produced by the model)
  deriving Repr, DecidableEq, Inhabited

end AsynqModel.Core
