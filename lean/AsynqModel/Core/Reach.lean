import AsynqModel.Core.Inv
namespace AsynqModel.Core

/-- every state the machine can be in: any configuration, any list of computations, any flush-choice oracle,
    any number of steps -/
inductive Reach : State → Prop
  | init (cfg : Cfg) (tops : List (Conv × Body)) (choices : List (Nat × Nat)) : Reach (initState cfg tops choices)
  | step {s : State} : Reach s → Reach (step s)

theorem reach_runFuel (cfg tops choices) (n : Nat) : Reach (runFuel n (initState cfg tops choices)) := by
  suffices h : ∀ s, Reach s → Reach (runFuel n s) from h _ (Reach.init cfg tops choices)
  induction n with
  | zero => intro s h; exact h
  | succ n ih =>
    intro s h
    unfold runFuel
    split
    · exact h
    · exact ih _ (Reach.step h)

end AsynqModel.Core
