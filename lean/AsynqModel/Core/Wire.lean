import AsynqModel.Sexp
import AsynqModel.Core.Machine
/-! Wire format of the core language: S-expressions ↔ programs, configurations and events (driver only). -/
namespace AsynqModel.Core.Wire
open AsynqModel AsynqModel.Core

def optNat? : Sexp → Option (Option Nat)
  | .atom "none" => some none
  | .atom "unknown" => some (some 999999)
  | s => s.nat?.map some

def natU? : Sexp → Option Nat
  | .atom "unknown" => some 999999
  | s => s.nat?

def err? : Sexp → Option Err
  | .list [.atom "u", n] => n.nat?.map .u
  | .list [.atom "typeerr"] => some .typeerr
  | .list [.atom "notset"] => some .notset
  | .list [.atom "nonasync"] => some .nonasync
  | .list [.atom "flushraise", k] => k.nat?.map .flushraise
  | .list [.atom "stackguard"] => some .stackguard
  | .list (.atom "other" :: _) => some .other
  | _ => none

partial def val? : Sexp → Option Val
  | .atom "none" => some .none
  | .list [.atom "a", n] => n.nat?.map .a
  | .list (.atom "tup" :: l) => (l.mapM val?).map .tup
  | .list (.atom "lst" :: l) => (l.mapM val?).map .lst
  | .list (.atom "dict" :: l) => do
    let ps ← l.mapM fun
      | .list [k, v] => do some ((← k.nat?), (← val? v))
      | _ => none
    some (.dict (ps.map (·.1)) (ps.map (·.2)))
  | .list (.atom "node" :: t :: l) => do some (.node (← t.nat?) (← l.mapM val?))
  | _ => none

def outcome? : Sexp → Option Outcome
  | .list [.atom "ok", v] => (val? v).map .ok
  | .list [.atom "err", e] => (err? e).map .err
  | _ => none

def ref? : Sexp → Option Ref
  | .list [.atom "own", n] => n.nat?.map .own
  | .list [.atom "inh", n] => n.nat?.map .inh
  | _ => none

partial def y? : Sexp → Option Y
  | .atom "none" => some .none
  | .atom "junk" => some .junk
  | .list [.atom "f", r] => (ref? r).map .f
  | .list (.atom "tup" :: l) => (l.mapM y?).map .tup
  | .list (.atom "lst" :: l) => (l.mapM y?).map .lst
  | .list (.atom "dict" :: l) => do
    let ps ← l.mapM fun
      | .list [k, v] => do some ((← k.nat?), (← y? v))
      | _ => none
    some (.dict (ps.map (·.1)) (ps.map (·.2)))
  | _ => none

partial def ry? : Sexp → Option RY
  | .atom "none" => some .none
  | .atom "junk" => some .junk
  | .list [.atom "f", r] => (natU? r).map .f
  | .list (.atom "tup" :: l) => (l.mapM ry?).map .tup
  | .list (.atom "lst" :: l) => (l.mapM ry?).map .lst
  | .list (.atom "dict" :: l) => do
    let ps ← l.mapM fun
      | .list [k, v] => do some ((← k.nat?), (← ry? v))
      | _ => none
    some (.dict (ps.map (·.1)) (ps.map (·.2)))
  | _ => none

def mode? : Sexp → Option ItemMode
  | .atom "ok" => some .ok
  | .atom "unset" => some .unset
  | .list [.atom "err", e] => e.nat?.map .err
  | _ => none

def ctxKind? : Sexp → Option CtxKind
  | .list [.atom "plain"] => some .plain
  | .list [.atom "override", a, b] => do some (.override (← a.nat?) (← b.nat?))
  | .list [.atom "nonasync"] => some .nonasync
  | _ => none

def refs? : Sexp → Option (List Ref)
  | .list l => l.mapM ref?
  | _ => none

partial def body? : Sexp → Option Body
  | .list [.atom "ret", t] => t.nat?.map .ret
  | .list [.atom "res", t] => t.nat?.map .res
  | .list [.atom "raise", e] => e.nat?.map .raise
  | .list [.atom "reraise"] => some .reraise
  | .list [.atom "spawn", c, p, k] => do some (.spawn (← body? c) (← refs? p) (← body? k))
  | .list [.atom "item", kd, pl, m, k] => do some (.item (← kd.nat?) (← pl.nat?) (← mode? m) (← body? k))
  | .list [.atom "const", v, k] => do some (.const (← v.nat?) (← body? k))
  | .list [.atom "errfut", e, k] => do some (.errfut (← e.nat?) (← body? k))
  | .list [.atom "lazy", .list [.atom "ok", v], k] => do some (.lazy (.ok (← v.nat?)) (← body? k))
  | .list [.atom "lazy", .list [.atom "err", e], k] => do some (.lazy (.err (← e.nat?)) (← body? k))
  | .list [.atom "yld", y, k, h] => do some (.yld (← y? y) (← body? k) (← body? h))
  | .list [.atom "reyld", k, h] => do some (.reyld (← body? k) (← body? h))
  | .list [.atom "sync", c, p, k, h] => do some (.sync (← body? c) (← refs? p) (← body? k) (← body? h))
  | .list [.atom "syncfut", r, k, h] => do some (.syncfut (← ref? r) (← body? k) (← body? h))
  | .list [.atom "with", c, b, k] => do some (.withCtx (← ctxKind? c) (← body? b) (← body? k))
  | .list [.atom "endwith"] => some .endwith
  | .list [.atom "read", v, k] => do some (.read (← v.nat?) (← body? k))
  | .list [.atom "active", k] => do some (.active (← body? k))
  | _ => none

def conv? : Sexp → Option Conv
  | .atom "value" => some .value
  | .atom "call" => some .call
  | _ => none

def prioMode? : Sexp → Option PrioMode
  | .atom "default" => some .dflt
  | .atom "rev" => some .rev
  | .list [.atom "const", p] => p.nat?.map .const
  | _ => none

/-- `(cfg (kinds (K PRIO RAISES)...) (maxStack N) (keepDeps B))` -/
def cfg? : Sexp → Option Cfg
  | .list [.atom "cfg", .list (.atom "kinds" :: ks), .list [.atom "maxStack", m], .list [.atom "keepDeps", kd]] => do
    let kinds ← ks.mapM fun
      | .list [k, p, r] => do some ((← k.nat?), ({ prio := (← prioMode? p), raises := (← r.bool?) } : KindCfg))
      | _ => none
    some { kinds := kinds, maxStack := (← m.nat?), keepDeps := (← kd.bool?) }
  | _ => none

def tops? : Sexp → Option (List (Conv × Body))
  | .list (.atom "tops" :: l) => l.mapM fun
    | .list [c, b] => do some ((← conv? c), (← body? b))
    | _ => none
  | _ => none

def pair? : Sexp → Option (Nat × Nat)
  | .list [a, b] => do some ((← a.nat?), (← b.nat?))
  | _ => none

def pending? : Sexp → Option PendingB
  | .list [k, q, n, fl, p] => do
    some { kind := (← k.nat?), seq := (← q.nat?), n := (← n.nat?), flushed := (← fl.bool?), prio := (← pair? p) }
  | _ => none

def natsU? : Sexp → Option (List Nat)
  | .list l => l.mapM natU?
  | _ => none

def event? (s : Sexp) : Event :=
  let r : Option Event := match s with
    | .list [.atom "top", i, c] => do some (.top (← i.nat?) (← conv? c))
    | .list [.atom "new", n, .atom "task", c] => do some (.new (← n.nat?) (.task (← optNat? c)))
    | .list [.atom "new", n, .atom "item", k, q, i, pl, m] => do
      some (.new (← n.nat?) (.item (← k.nat?) (← q.nat?) (← i.nat?) (← pl.nat?) (← mode? m)))
    | .list [.atom "new", n, .atom "const", v] => do some (.new (← n.nat?) (.const (← v.nat?)))
    | .list [.atom "new", n, .atom "errfut", e] => do some (.new (← n.nat?) (.errfut (← e.nat?)))
    | .list [.atom "new", n, .atom "lazy"] => do some (.new (← n.nat?) .lazy)
    | .list [.atom "run", t, i, dc, .atom "start"] => do some (.run (← natU? t) (← i.nat?) (← dc.bool?) .start)
    | .list [.atom "run", t, i, dc, o] => do some (.run (← natU? t) (← i.nat?) (← dc.bool?) (.out (← outcome? o)))
    | .list [.atom "yield", t, i, y] => do some (.yield (← natU? t) (← i.nat?) (← ry? y))
    | .list [.atom "done", f, o] => do some (.done (← natU? f) (← outcome? o))
    | .list [.atom "bdone", b, ok] => do let (k, q) ← pair? b; some (.bdone k q (← ok.bool?))
    | .list [.atom "flushB", b, its, p, .list pend] => do
      let (k, q) ← pair? b
      some (.flushB k q (← natsU? its) (← pair? p) (← pend.mapM pending?))
    | .list [.atom "flushI", b, its] => do let (k, q) ← pair? b; some (.flushI k q (← natsU? its))
    | .list [.atom "flushE", b] => do let (k, q) ← pair? b; some (.flushE k q)
    | .list [.atom "ctx", .atom "R", c] => do some (.ctx true (← c.nat?))
    | .list [.atom "ctx", .atom "P", c] => do some (.ctx false (← c.nat?))
    | .list [.atom "ctxN", c, t, k] => do some (.ctxN (← c.nat?) (← natU? t) (← ctxKind? k))
    | .list [.atom "ctxX", c] => do some (.ctxX (← c.nat?))
    | .list [.atom "active", t, a] => do some (.active (← natU? t) (← optNat? a))
    | .list [.atom "read", t, v, x] => do some (.read (← natU? t) (← v.nat?) (← val? x))
    | .list [.atom "syncE", t, f] => do some (.syncE (← natU? t) (← natU? f))
    | .list [.atom "syncX", t, f, o] => do some (.syncX (← natU? t) (← natU? f) (← outcome? o))
    | .list [.atom "ret", o] => do some (.ret (← outcome? o))
    | .list [.atom "sched", same, n, m, l, a] => do
      some (.sched (← same.bool?) (← n.nat?) (← m.nat?) (← l.nat?) (← optNat? a))
    | .list (.atom "svals" :: l) => do
      let ps ← l.mapM fun
        | .list [k, v] => do some ((← k.nat?), (← val? v))
        | _ => none
      some (.svals ps)
    | _ => none
  r.getD (.bad s.toStr)

/-! printing (for diagnostics; same shape as the harness's `sx`) -/

def errStr : Err → String
  | .u n => s!"(u {n})" | .typeerr => "(typeerr)" | .notset => "(notset)" | .nonasync => "(nonasync)"
  | .flushraise k => s!"(flushraise {k})" | .stackguard => "(stackguard)" | .other => "(other)"

partial def valStr : Val → String
  | .none => "none"
  | .a n => s!"(a {n})"
  | .tup l => "(" ++ " ".intercalate ("tup" :: l.map valStr) ++ ")"
  | .lst l => "(" ++ " ".intercalate ("lst" :: l.map valStr) ++ ")"
  | .dict ks vs => "(" ++ " ".intercalate ("dict" :: (ks.zip vs).map fun (k, v) => s!"({k} {valStr v})") ++ ")"
  | .node t l => "(" ++ " ".intercalate ("node" :: toString t :: l.map valStr) ++ ")"

def outStr : Outcome → String
  | .ok v => s!"(ok {valStr v})"
  | .err e => s!"(err {errStr e})"

def modeStr : ItemMode → String
  | .ok => "ok" | .unset => "unset" | .err e => s!"(err {e})"
def ctxKindStr : CtxKind → String
  | .plain => "(plain)" | .override a b => s!"(override {a} {b})" | .nonasync => "(nonasync)"
partial def ryStr : RY → String
  | .none => "none"
  | .junk => "junk"
  | .f r => s!"(f {r})"
  | .tup l => "(" ++ " ".intercalate ("tup" :: l.map ryStr) ++ ")"
  | .lst l => "(" ++ " ".intercalate ("lst" :: l.map ryStr) ++ ")"
  | .dict ks vs => "(" ++ " ".intercalate ("dict" :: (ks.zip vs).map fun (k, v) => s!"({k} {ryStr v})") ++ ")"

def natsStr (l : List Nat) : String := "(" ++ " ".intercalate (l.map toString) ++ ")"
def optStr : Option Nat → String
  | none => "none"
  | some n => toString n
def b01 (b : Bool) : String := if b then "1" else "0"

def eventStr : Event → String
  | .top i c => s!"(top {i} {match c with | .value => "value" | .call => "call"})"
  | .new n (.task c) => s!"(new {n} task {optStr c})"
  | .new n (.item k q i pl m) => s!"(new {n} item {k} {q} {i} {pl} {modeStr m})"
  | .new n (.const v) => s!"(new {n} const {v})"
  | .new n (.errfut e) => s!"(new {n} errfut {e})"
  | .new n .lazy => s!"(new {n} lazy)"
  | .run t i dc .start => s!"(run {t} {i} {b01 dc} start)"
  | .run t i dc (.out o) => s!"(run {t} {i} {b01 dc} {outStr o})"
  | .yield t i y => s!"(yield {t} {i} {ryStr y})"
  | .done f o => s!"(done {f} {outStr o})"
  | .bdone k q ok => s!"(bdone ({k} {q}) {b01 ok})"
  | .flushB k q its p pend =>
    let ps := pend.map fun x => s!"({x.kind} {x.seq} {x.n} {b01 x.flushed} ({x.prio.1} {x.prio.2}))"
    s!"(flushB ({k} {q}) {natsStr its} ({p.1} {p.2}) ({" ".intercalate ps}))"
  | .flushI k q its => s!"(flushI ({k} {q}) {natsStr its})"
  | .flushE k q => s!"(flushE ({k} {q}))"
  | .ctx r c => s!"(ctx {if r then "R" else "P"} {c})"
  | .ctxN c t k => s!"(ctxN {c} {t} {ctxKindStr k})"
  | .ctxX c => s!"(ctxX {c})"
  | .active t a => s!"(active {t} {optStr a})"
  | .read t v x => s!"(read {t} {v} {valStr x})"
  | .syncE t f => s!"(syncE {t} {f})"
  | .syncX t f o => s!"(syncX {t} {f} {outStr o})"
  | .ret o => s!"(ret {outStr o})"
  | .sched same n m l a => s!"(sched {b01 same} {n} {m} {l} {optStr a})"
  | .svals l => "(" ++ " ".intercalate ("svals" :: l.map fun (k, v) => s!"({k} {valStr v})") ++ ")"
  | .bad s => s!"(bad {s})"

end AsynqModel.Core.Wire
