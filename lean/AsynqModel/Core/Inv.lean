import AsynqModel.Core.Machine
/-
  Candidate invariants of the machine as executable Boolean functions.  The driver mode `coreinv` evaluates them
  after every step of thousands of generated programs (pre-validation); the files in Proofs/ prove them preserved
  by `step` and derive the property theorems from them.
-/
namespace AsynqModel.Core.Inv
open AsynqModel.Core

def dens (s : State) (ids : List Nat) : List Outcome := ids.map fun i => (s.fut i).den

/-- sequential evaluation of the rest of a task: its current body, then the continuations of its open with-blocks -/
def evalConts (cfg : Cfg) (r : SRes) (inh : List Outcome) : List (Nat × Body) → Outcome
  | [] => r.outcome
  | (_, k) :: rest =>
    match r with
    | .done o => o
    | .fall env own caught pv => evalConts cfg (evalBody cfg k env own inh caught pv) inh rest

/-- what sequential evaluation gives for the rest of task `t` in state `s` -/
def taskDen (s : State) (t : Nat) : Outcome :=
  let ts := s.task t
  let own := dens s ts.own
  let inh := dens s ts.inh
  let r : SRes := match ts.body with
    | .syncret f k h =>
      match (s.fut f).den with
      | .ok v => evalBody s.cfg k (ts.env ++ [v]) own inh ts.caught ts.prevYRef
      | .err e => evalBody s.cfg h ts.env own inh (some e) ts.prevYRef
    | b => evalBody s.cfg b ts.env own inh ts.caught ts.prevYRef
  evalConts s.cfg r inh ts.conts

def noNonAsync (s : State) : Bool := s.ctxs.all fun c => c.kind != .nonasync

def ids (s : State) : List Nat := List.range s.futs.length

/-- Agree: every computed future holds its sequential outcome -/
def agree (s : State) : Bool :=
  (ids s).all fun f => match s.out f with | some o => o == (s.fut f).den | none => true

/-- TaskOK: the rest of every uncomputed task evaluates sequentially to its `den` -/
def taskOK (s : State) : Bool :=
  (ids s).all fun t => (s.fut t).kind != .task || s.computed t || taskDen s t == (s.fut t).den

def gensOf (ctl : List Ctl) : List (Nat × Option Nat) :=
  ctl.filterMap fun | .gen t old => some (t, old) | _ => none

/-- the active task is the innermost running task; each saved value is the next running task outwards -/
def activeChain : Option Nat → List (Nat × Option Nat) → Bool
  | a, [] => a == none
  | a, (t, old) :: rest => a == some t && activeChain old rest

def active (s : State) : Bool := activeChain s.active (gensOf s.ctl)

def gensDistinct (s : State) : Bool := ((gensOf s.ctl).map (·.1)).Nodup

/-- a task whose generator is in the middle of a step (buried gen frame) is not suspended at a yield -/
def buriedNotPending (s : State) : Bool :=
  match s.ctl with
  | [] => true
  | _ :: rest => (gensOf rest).all fun (t, _) => !(s.task t).pending

/-- the running task, if suspended-about-to-resume, has everything it awaits computed; leaves ⊆ deps -/
def ready (s : State) : Bool :=
  (match s.ctl with
   | .gen t _ :: _ =>
     let ts := s.task t
     !(ts.pending && ts.started) || ts.deps.all s.computed
   | _ => true) &&
  (ids s).all fun t =>
    let ts := s.task t
    !(ts.pending && ts.started) || ts.lastY.leaves.all fun f => ts.deps.contains f

def waitBases : List Ctl → List Nat
  | [] => []
  | .waitLoop _ b :: rest => b :: waitBases rest
  | _ :: rest => waitBases rest

def sortedDesc : List Nat → Bool
  | a :: b :: rest => a ≥ b && sortedDesc (b :: rest)
  | _ => true

/-- frame discipline: the stack never goes below the base of the innermost `_execute`; bases are nested -/
def frames (s : State) : Bool :=
  sortedDesc (waitBases s.ctl) &&
  (match waitBases s.ctl with
   | b :: _ => s.stack.length ≥ b
   | [] => true) &&
  (s.ctl != [] || s.stack.isEmpty)

/-- a running task's contexts are active; a registered (non-NonAsync) context is resumed iff its task's contexts are active -/
def ctxFlags (s : State) : Bool :=
  (ids s).all fun t =>
    let ts := s.task t
    ts.ctxs.all fun c =>
      match s.ctxs[c]? with
      | some x => x.kind == .nonasync || x.resumed == ts.ctxActive
      | none => false

def runningCtxActive (s : State) : Bool :=
  (gensOf s.ctl).all fun (t, _) => (s.task t).ctxActive || s.computed t

/-- every id the state mentions exists -/
def heap (s : State) : Bool :=
  let n := s.futs.length
  s.stack.all (· < n) &&
  (ids s).all (fun t =>
    let ts := s.task t
    ts.own.all (· < n) && ts.inh.all (· < n) && ts.deps.all (· < n) && ts.lastY.leaves.all (· < n) &&
    ts.ctxs.all (· < s.ctxs.length) && ts.conts.all (fun p => p.1 < s.ctxs.length)) &&
  s.batches.all (fun b => b.items.all (· < n)) &&
  s.ctl.all fun
    | .waitEnter r => r < n
    | .waitLoop r _ => r < n
    | .gen t _ => t < n

/-- single assignment bookkeeping: a task in a gen frame is uncomputed; the latest batch of a kind is not flushed;
    the items of a flushed batch are computed -/
def lifecycle (s : State) : Bool :=
  ((gensOf s.ctl).all fun (t, _) => !s.computed t || !(s.task t).pending) &&
  (s.batches.all fun b => !b.flushed || b.items.all s.computed)

def all (s : State) : List (String × Bool) :=
  let pure := noNonAsync s && !s.guardFired
  [ ("heap", heap s), ("gensDistinct", gensDistinct s), ("buriedNotPending", buriedNotPending s),
    ("ready", ready s), ("lifecycle", lifecycle s),
    ("frames", s.guardFired || frames s), ("active", s.guardFired || active s),
    ("ctxFlags", ctxFlags s), ("runningCtxActive", runningCtxActive s),
    ("agree", !pure || agree s), ("taskOK", !pure || taskOK s) ]

def firstFailure (s : State) : Option String :=
  ((all s).find? fun p => !p.2).map (·.1)

/-- run with fuel, checking every invariant after every step -/
def runChecked : Nat → Nat → State → Option (Nat × String) × State
  | 0, _, s => (none, s)
  | n + 1, i, s =>
    if s.isDone then (none, s) else
    let s' := step s
    if s'.stuck.isSome then (none, s') else
    match firstFailure s' with
    | some name => (some (i, name), s')
    | none => runChecked n (i + 1) s'

end AsynqModel.Core.Inv
