import AsynqModel.Core.Base
/-
  Reference semantics: plain sequential, depth-first evaluation of a task program.  No scheduler, no stack,
  no batches: the outcome of every future is a pure function of its definition (the `den` of DESIGN.md 3.2).
-/
namespace AsynqModel.Core

/-- what the external service behind a batch answers for one item (independent of batch composition) -/
def itemOutcome (cfg : Cfg) (kind payload : Nat) (mode : ItemMode) : Outcome :=
  match mode with
  | .ok => .ok (itemVal kind payload)
  | .err e => .err (.u e)
  | .unset => if (cfg.kind kind).raises then .err (.flushraise kind) else .err .notset

/-- result of evaluating a block: finished, or fell off an `endwith` with this local state -/
inductive SRes where
  | done (o : Outcome)
  | fall (env : List Val) (own : List Outcome) (caught : Option Err) (prev : Y)
  deriving Repr, Inhabited

def resolveO (own inh : List Outcome) : Ref → Option Outcome
  | .own i => own[i]?
  | .inh j => inh[j]?

def SRes.outcome : SRes → Outcome
  | .done o => o
  | .fall _ _ _ _ => .ok .none     -- falling off the end of a task body returns None

/-- sequential evaluation of a body with what it received so far (`env`), the outcomes of the futures it created
    (`own`) and was handed (`inh`), and the exception caught last -/
def evalBody (cfg : Cfg) : Body → List Val → List Outcome → List Outcome → Option Err → Y → SRes
  | .ret tag, env, _, _, _, _ => .done (.ok (.node tag env))
  | .res tag, env, _, _, _, _ => .done (.ok (.node tag env))
  | .raise e, _, _, _, _, _ => .done (.err (.u e))
  | .reraise, _, _, _, caught, _ => .done (.err (caught.getD (.u 0)))
  | .spawn child pass k, env, own, inh, caught, pv =>
    let o := (evalBody cfg child [] [] (pass.map fun r => (resolveO own inh r).getD (.err .other)) none .none).outcome
    evalBody cfg k env (own ++ [o]) inh caught pv
  | .item kind payload mode k, env, own, inh, caught, pv =>
    evalBody cfg k env (own ++ [itemOutcome cfg kind payload mode]) inh caught pv
  | .const v k, env, own, inh, caught, pv => evalBody cfg k env (own ++ [.ok (.a v)]) inh caught pv
  | .errfut e k, env, own, inh, caught, pv => evalBody cfg k env (own ++ [.err (.u e)]) inh caught pv
  | .lazy o k, env, own, inh, caught, pv => evalBody cfg k env (own ++ [lazyOutcome o]) inh caught pv
  | .yld y k h, env, own, inh, caught, _ =>
    match unwrap (resolveO own inh) y with
    | .ok v => evalBody cfg k (env ++ [v]) own inh caught y
    | .error e => evalBody cfg h env own inh (some e) y
  | .reyld k h, env, own, inh, caught, pv =>
    match unwrap (resolveO own inh) pv with
    | .ok v => evalBody cfg k (env ++ [v]) own inh caught pv
    | .error e => evalBody cfg h env own inh (some e) pv
  | .sync child pass k h, env, own, inh, caught, pv =>
    let o := (evalBody cfg child [] [] (pass.map fun r => (resolveO own inh r).getD (.err .other)) none .none).outcome
    match o with
    | .ok v => evalBody cfg k (env ++ [v]) (own ++ [o]) inh caught pv
    | .err e => evalBody cfg h env (own ++ [o]) inh (some e) pv
  | .syncfut r k h, env, own, inh, caught, pv =>
    match (resolveO own inh r).getD (.err .other) with
    | .ok v => evalBody cfg k (env ++ [v]) own inh caught pv
    | .err e => evalBody cfg h env own inh (some e) pv
  | .syncret _ _ _, _, _, _, _, _ => .done (.err .other)     -- not a source construct
  | .withCtx _ b k, env, own, inh, caught, pv =>
    match evalBody cfg b env own inh caught pv with
    | .done o => .done o
    | .fall env' own' caught' pv' => evalBody cfg k env' own' inh caught' pv'
  | .endwith, env, own, _, caught, pv => .fall env own caught pv
  | .read _ k, env, own, inh, caught, pv => evalBody cfg k env own inh caught pv
  | .active k, env, own, inh, caught, pv => evalBody cfg k env own inh caught pv

/-- the value `fn(args)` / `fn.asynq(args).value()` must produce -/
def evalTop (cfg : Cfg) (body : Body) : Outcome := (evalBody cfg body [] [] [] none .none).outcome

/-! ### flush rounds of a yield-only, tree-shaped, single-kind program (C04: "as many flushes as its longest chain
    of sequentially dependent requests")

`round` = number of flushes that have happened when the task is at this point; a future is described by the round at
which it is complete (`ready`), or for a task that has not started by its body (it starts when first awaited). -/

inductive FutR where
  | ready (r : Nat)          -- complete once `r` flushes have happened
  | unstarted (d : Nat)      -- a task that has not started; once first awaited at round r it is complete at r + d
  deriving Repr, Inhabited

structure RRes where
  round : Nat
  own : List FutR
  fell : Bool
  outs : List Outcome := []
  env : List Val := []
  caught : Option Err := none
  pv : Y := .none
  deriving Repr, Inhabited

/-- await the own futures with the given indices at round `r`: unstarted tasks start now; returns the updated table
    and the round at which all of them are complete -/
def awaitLeaves (r : Nat) (own : List FutR) : List Nat → Nat → List FutR × Nat
  | [], acc => (own, acc)
  | i :: is, acc =>
    match own[i]? with
    | some (.ready q) => awaitLeaves r own is (max acc q)
    | some (.unstarted d) => awaitLeaves r (own.set i (.ready (r + d))) is (max acc (r + d))
    | none => awaitLeaves r own is acc

/-- the round at which the task running `b` from round `r` finishes; `own` are the futures it created.
    A child task started at round r finishes at r + (its own depth from 0): nothing in a tree-shaped program
    depends on absolute rounds. -/
def roundsBody (cfg : Cfg) : Body → Nat → List FutR → List Outcome → List Val → Option Err → Y → RRes
  | .ret _, r, own, _, _, _, pv => { round := r, own := own, fell := false }
  | .res _, r, own, _, _, _, pv => { round := r, own := own, fell := false }
  | .raise _, r, own, _, _, _, pv => { round := r, own := own, fell := false }
  | .reraise, r, own, _, _, _, pv => { round := r, own := own, fell := false }
  | .spawn child _ k, r, own, outs, env, caught, pv =>
    let o := (evalBody cfg child [] [] [] none .none).outcome
    let d := (roundsBody cfg child 0 [] [] [] none .none).round
    roundsBody cfg k r (own ++ [.unstarted d]) (outs ++ [o]) env caught pv
  | .item kind payload mode k, r, own, outs, env, caught, pv =>
    roundsBody cfg k r (own ++ [.ready (r + 1)]) (outs ++ [itemOutcome cfg kind payload mode]) env caught pv
  | .const v k, r, own, outs, env, caught, pv => roundsBody cfg k r (own ++ [.ready 0]) (outs ++ [.ok (.a v)]) env caught pv
  | .errfut e k, r, own, outs, env, caught, pv => roundsBody cfg k r (own ++ [.ready 0]) (outs ++ [.err (.u e)]) env caught pv
  | .lazy o k, r, own, outs, env, caught, pv => roundsBody cfg k r (own ++ [.ready 0]) (outs ++ [lazyOutcome o]) env caught pv
  | .yld y k h, r, own, outs, env, caught, pv =>
    -- every leaf is awaited now: unstarted tasks start at round r
    let p := awaitLeaves r own (y.leaves.filterMap fun | .own i => some i | .inh _ => none) r
    match unwrap (resolveO outs []) y with
    | .ok v => roundsBody cfg k p.2 p.1 outs (env ++ [v]) caught y
    | .error e => roundsBody cfg h p.2 p.1 outs env (some e) y
  | .reyld k h, r, own, outs, env, caught, pv =>
    -- the same object again: everything in it was awaited by the previous yield
    match unwrap (resolveO outs []) pv with
    | .ok v => roundsBody cfg k r own outs (env ++ [v]) caught pv
    | .error e => roundsBody cfg h r own outs env (some e) pv
  | .withCtx _ b k, r, own, outs, env, caught, pv =>
    let x := roundsBody cfg b r own outs env caught pv
    if x.fell then roundsBody cfg k x.round x.own x.outs x.env x.caught x.pv else x
  | .endwith, r, own, outs, env, caught, pv => { round := r, own := own, fell := true, outs := outs, env := env, caught := caught, pv := pv }
  | .read _ k, r, own, outs, env, caught, pv => roundsBody cfg k r own outs env caught pv
  | .active k, r, own, outs, env, caught, pv => roundsBody cfg k r own outs env caught pv
  | .sync _ _ _ _, r, own, _, _, _, pv => { round := r, own := own, fell := false }     -- not yield-only
  | .syncfut _ _ _, r, own, _, _, _, pv => { round := r, own := own, fell := false }
  | .syncret _ _ _, r, own, _, _, _, pv => { round := r, own := own, fell := false }

/-- number of scheduler flushes a yield-only, tree-shaped, single-kind computation performs -/
def roundsTop (cfg : Cfg) (body : Body) : Nat := (roundsBody cfg body 0 [] [] [] none .none).round

end AsynqModel.Core
