import AsynqModel.Core.Syntax
/-
  Definitions shared by the reference semantics (Seq) and the machine: configuration, priorities, the yielded-structure
  functions of asynq/async_task.py (`unwrap`, `extract_futures`) and the values the harness batches answer.
-/
namespace AsynqModel.Core

inductive PrioMode where
  | dflt             -- (0, len(items))
  | rev              -- (0, 100 - len(items))
  | const (p : Nat)  -- (p, 0)
  deriving Repr, DecidableEq, Inhabited

structure KindCfg where
  prio : PrioMode := .dflt
  raises : Bool := false      -- the flush body raises after handling its items
  deriving Repr, DecidableEq, Inhabited

structure Cfg where
  kinds : List (Nat × KindCfg) := []
  maxStack : Nat := 1000000   -- _debug.options.MAX_TASK_STACK_SIZE
  keepDeps : Bool := false    -- _debug.options.KEEP_DEPENDENCIES
  deriving Repr, Inhabited

def Cfg.kind (c : Cfg) (k : Nat) : KindCfg := (c.kinds.lookup k).getD {}

def priority (kc : KindCfg) (n : Nat) : Nat × Nat :=
  match kc.prio with
  | .dflt => (0, n)
  | .rev => (0, 100 - n)
  | .const p => (p, 0)

/-- Python tuple comparison `a < b` -/
def prioLt (a b : Nat × Nat) : Bool := a.1 < b.1 || (a.1 == b.1 && a.2 < b.2)

/-! ### yielded structures: `extract_futures`, leaves, `unwrap` -/

mutual
/-- leaves in written (structure) order -/
def YS.leaves {α : Type} : YS α → List α
  | .none => []
  | .junk => []
  | .f r => [r]
  | .tup l => YS.leavesList l
  | .lst l => YS.leavesList l
  | .dict _ vs => YS.leavesList vs
def YS.leavesList {α : Type} : List (YS α) → List α
  | [] => []
  | y :: ys => YS.leaves y ++ YS.leavesList ys
end

mutual
/-- `extract_futures`: tuples and lists are walked backwards ("tasks are added to a stack, so the last one executes
    first"), dict values forwards -/
def extractFutures : RY → List Nat
  | .none => []
  | .junk => []
  | .f r => [r]
  | .tup l => extractRev l
  | .lst l => extractRev l
  | .dict _ vs => extractFwd vs
/-- elements last to first -/
def extractRev : List RY → List Nat
  | [] => []
  | y :: ys => extractRev ys ++ extractFutures y
def extractFwd : List RY → List Nat
  | [] => []
  | y :: ys => extractFutures y ++ extractFwd ys
end

mutual
def YS.mapLeaves {α β : Type} (g : α → β) : YS α → YS β
  | .none => .none
  | .junk => .junk
  | .f r => .f (g r)
  | .tup l => .tup (YS.mapLeavesList g l)
  | .lst l => .lst (YS.mapLeavesList g l)
  | .dict ks vs => .dict ks (YS.mapLeavesList g vs)
def YS.mapLeavesList {α β : Type} (g : α → β) : List (YS α) → List (YS β)
  | [] => []
  | y :: ys => YS.mapLeaves g y :: YS.mapLeavesList g ys
end

mutual
/-- `unwrap`: every future replaced by its value, same shape; the first failing leaf in structure order raises;
    a non-future raises TypeError.  `look f = none` (uncomputed future) cannot happen when the scheduler is right;
    it is reported as `Err.other`. -/
def unwrap {α : Type} (look : α → Option Outcome) : YS α → Except Err Val
  | .none => .ok .none
  | .junk => .error .typeerr
  | .f r => match look r with
    | some (.ok v) => .ok v
    | some (.err e) => .error e
    | none => .error .other
  | .tup l => match unwrapList look l with
    | .ok vs => .ok (.tup vs)
    | .error e => .error e
  | .lst l => match unwrapList look l with
    | .ok vs => .ok (.lst vs)
    | .error e => .error e
  | .dict ks l => match unwrapList look l with
    | .ok vs => .ok (.dict ks vs)
    | .error e => .error e
def unwrapList {α : Type} (look : α → Option Outcome) : List (YS α) → Except Err (List Val)
  | [] => .ok []
  | y :: ys => match unwrap look y with
    | .error e => .error e
    | .ok v => match unwrapList look ys with
      | .error e => .error e
      | .ok vs => .ok (v :: vs)
end

def itemVal (kind payload : Nat) : Val := .a (1000 * (kind + 1) + payload)

def lazyOutcome : LazyOut → Outcome
  | .ok v => .ok (.a v)
  | .err e => .err (.u e)

end AsynqModel.Core
