import AsynqModel.Core.Seq
/-
  The properties C01-C08 as executable observers over a trace (a list of `Event`s) - no machine state involved.
  The same functions are evaluated by the driver on the trace of the real implementation and on the trace of the
  machine, and each clause has its theorem about the machine in `Theorems/`.

  `Watch` reconstructs from the events seen so far what a property needs; `check* : ... → Watch → Event → Option String`
  names the clause an event violates; `watchEvent` then updates the watch.
-/
namespace AsynqModel.Core.Spec
open AsynqModel.Core

structure CtxW where
  owner : Nat
  kind : CtxKind
  resumed : Bool := false
  isOpen : Bool := true
  closedSusp : Bool := false   -- its block was left while the owning task was suspended (generator closed)
  deriving Repr, Inhabited

structure Watch where
  kinds : List (Nat × NewKind) := []          -- every future created so far
  outs : List (Nat × Outcome) := []           -- outcomes seen (done events, constant futures)
  lastYield : List (Nat × Nat × RY) := []     -- suspended tasks: task ↦ (yield index, structure)
  runs : List (Nat × Nat) := []               -- started tasks: task ↦ index of its last `run`
  doneF : List Nat := []
  awaited : List Nat := []                    -- futures mentioned in some yield / sync call / top-level call
  mentions : List (Nat × Nat) := []           -- (future, awaiting task) pairs, distinct
  orderObl : List (Nat × List Nat) := []      -- (yielding task, fresh tasks it yielded in written order)
  flushedB : List (Nat × Nat) := []           -- batches whose flush body has run
  inFlush : Option (Nat × Nat × List Nat × Bool × Bool) := none  -- scheduler flush: batch, items, body ran, batch done
  curBody : Option (Nat × Nat × List Nat) := none              -- flush body in progress (scheduler or item.value())
  syncStack : List (Nat × Nat) := []          -- open synchronous calls (caller task, awaited future), innermost first
  ctxs : List (Nat × CtxW) := []
  ctxStack : List Nat := []                   -- currently resumed contexts, innermost first
  topRoot : Option Nat := none
  topIdx : Nat := 0
  flushCount : Nat := 0
  expectRoot : Bool := false                  -- a `top` event was seen and the root task has not been created yet
  deriving Repr, Inhabited

def lookupD {β : Type} (l : List (Nat × β)) (k : Nat) (d : β) : β := (l.lookup k).getD d
def insertKV {β : Type} (l : List (Nat × β)) (k : Nat) (v : β) : List (Nat × β) :=
  (k, v) :: l.filter (fun p => p.1 != k)

def Watch.out (w : Watch) (f : Nat) : Option Outcome := w.outs.lookup f
def Watch.isDone (w : Watch) (f : Nat) : Bool := (w.outs.lookup f).isSome
def Watch.isTask (w : Watch) (f : Nat) : Bool :=
  match w.kinds.lookup f with | some (.task _) => true | _ => false
def Watch.started (w : Watch) (t : Nat) : Bool := (w.runs.lookup t).isSome

mutual
/-- leaves whose order of first start is fixed by the statement: written order inside lists and tuples (dict
    subtrees are skipped) -/
def orderedLeaves : RY → List Nat
  | .none => []
  | .junk => []
  | .f r => [r]
  | .tup l => orderedLeavesList l
  | .lst l => orderedLeavesList l
  | .dict _ _ => []
def orderedLeavesList : List RY → List Nat
  | [] => []
  | y :: ys => orderedLeaves y ++ orderedLeavesList ys
end

mutual
/-- leaves that occur somewhere below a dict (their start order is not fixed by the statement) -/
def dictLeaves : RY → List Nat
  | .none => []
  | .junk => []
  | .f _ => []
  | .tup l => dictLeavesList l
  | .lst l => dictLeavesList l
  | .dict _ vs => YS.leavesList vs
def dictLeavesList : List RY → List Nat
  | [] => []
  | y :: ys => dictLeaves y ++ dictLeavesList ys
end

/-- t awaits f directly: f is a leaf of what the suspended task t yielded last, or t is in a synchronous call on f -/
def Watch.awaitsDirect (w : Watch) (t f : Nat) : Bool :=
  (match w.lastYield.lookup t with
   | some (_, y) => y.leaves.contains f
   | none => false) || w.syncStack.contains (t, f)

/-- transitive closure with fuel -/
def Watch.awaitsStar (w : Watch) : Nat → Nat → Nat → Bool
  | 0, _, _ => false
  | fuel + 1, t, u =>
    w.awaitsDirect t u ||
    ((match w.lastYield.lookup t with
      | some (_, y) => y.leaves
      | none => []) ++ (w.syncStack.filterMap fun p => if p.1 == t then some p.2 else none)).any
      fun x => w.isTask x && !w.isDone x && w.awaitsStar fuel x u

def Watch.fuel (w : Watch) : Nat := w.kinds.length + 1

/-- tasks that directly await f -/
def Watch.awaiters (w : Watch) (f : Nat) : List Nat :=
  ((w.lastYield.filterMap fun (t, _, y) => if y.leaves.contains f then some t else none) ++
   (w.syncStack.filterMap fun p => if p.2 == f then some p.1 else none)).eraseDups

/-! ### C04: `Settled` -/

def Watch.batchOf (w : Watch) (f : Nat) : Option (Nat × Nat) :=
  match w.kinds.lookup f with
  | some (.item k q _ _ _) => some (k, q)
  | _ => none

/-- computed; or an uncomputed item whose batch has not been flushed; or a started, suspended, BLOCKED task all of
    whose awaited futures are settled -/
def Watch.settled (w : Watch) : Nat → Nat → Bool
  | 0, _ => false
  | fuel + 1, f =>
    if w.isDone f then true else
    match w.kinds.lookup f with
    | some (.item k q _ _ _) => !w.flushedB.contains (k, q)
    | some (.task _) =>
      match w.lastYield.lookup f with
      | some (_, y) =>
        -- a settled task is BLOCKED: at least one awaited future is uncomputed (otherwise it could run)
        w.started f && (y.leaves.any fun x => !w.isDone x) && y.leaves.all fun x => w.settled fuel x
      | none => false
    | _ => false

/-! ### the checks -/

structure Ctx where
  cfg : Cfg
  tops : List (Conv × Body)
  hasSync : Bool           -- some task calls into asynq synchronously (the yield-only clauses do not apply)
  treeShaped : Bool        -- no future is handed to a child (every task has one awaiter)
  singleKind : Bool
  hasNonAsync : Bool       -- some task uses a NonAsyncContext (its failure depends on the schedule: no sequential oracle)
  deriving Inhabited

def outcomeOfExcept : Except Err Val → Outcome
  | .ok v => .ok v
  | .error e => .err e

/-- C01 / C02: what a task receives at a yield is exactly `unwrap` of what it yielded; the caller receives what
    sequential evaluation gives -/
def checkDelivery (c : Ctx) (w : Watch) : Event → Option String
  | .run t i dc (.out o) =>
    match w.lastYield.lookup t with
    | none => some "resume-without-yield"
    | some (j, y) =>
      if j + 1 != i then some "resume-index"
      else if !dc then some "delivered-before-siblings-finished"
      else if outcomeOfExcept (unwrap w.out y) != o then
        (match o with | .ok _ => some "wrong-value-delivered" | .err _ => some "wrong-exception-delivered")
      else none
  | .ret o =>
    match c.tops[w.topIdx]? with
    | some (_, body) =>
      if !c.hasNonAsync && evalTop c.cfg body != o then some "result-differs-from-sequential" else none
    | none => some "ret-without-top"
  | .bad _ => some "unknown-event"
  | _ => none

/-- C03 -/
def checkC03 (_c : Ctx) (w : Watch) : Event → Option String
  | .run t i dc recv =>
    if w.isDone t then some "runs-after-completion"
    else if !dc then some "resumed-while-awaited-future-uncomputed"
    else match w.runs.lookup t, recv with
      | none, .start =>
        if i != 0 then some "resume-index"
        else if !(w.awaited.contains t) then some "never-awaited-task-started"
        else
          -- start order: every task written before t in a list/tuple it was first yielded in has started,
          -- unless t is also awaited from elsewhere
          let elsewhere := ((w.mentions.filter fun p => p.1 == t).map (·.2)).eraseDups.length > 1
          if elsewhere then none
          else if w.orderObl.any (fun (_, l) =>
            l.contains t && (l.takeWhile (· != t)).any fun a => !w.started a) then some "start-order"
          else none
      | none, .out _ => some "resumed-before-start"
      | some _, .start => some "started-twice"
      | some j, .out _ => if i != j + 1 then some "resumed-not-exactly-once-per-yield" else
          (match w.lastYield.lookup t with
           | some (jy, _) => if jy != j then some "resumed-without-new-yield" else none
           | none => some "resumed-without-new-yield")
  | .yield t i _ =>
    if w.runs.lookup t != some i then some "yield-index" else none
  | .done f _ => if w.isDone f then some "completed-twice" else none
  | .ret _ =>
    if w.runs.any (fun (t, _) => !w.isDone t) then some "awaited-task-left-uncomputed" else none
  | .bad _ => some "unknown-event"
  | _ => none

/-- C04 (yield-only programs) -/
def checkC04 (c : Ctx) (w : Watch) : Event → Option String
  | .flushB k q _ _ _ =>
    if c.hasSync then none else
    match w.topRoot with
    | some r =>
      -- the batch being flushed counts as not flushed yet
      let w' := { w with flushedB := w.flushedB.erase (k, q) }
      if w'.settled w.fuel r then none else some "flush-while-a-task-can-run"
    | none => some "flush-outside-computation"
  | .ret _ =>
    if c.hasSync || !c.treeShaped || !c.singleKind then none else
    match c.tops[w.topIdx]? with
    | some (_, body) => if roundsTop c.cfg body != w.flushCount then some "flush-count-differs-from-longest-chain" else none
    | none => none
  | .bad _ => some "unknown-event"
  | _ => none

/-- C05 -/
def checkC05 (c : Ctx) (w : Watch) : Event → Option String
  | .flushB k q items prio pending =>
    if w.inFlush.isSome then some "flush-events-not-paired"
    else if w.flushedB.contains (k, q) then some "batch-flushed-twice"
    else if items.isEmpty then some "empty-batch-flushed"
    else
      let target := match w.syncStack with
        | (_, f) :: _ => some f
        | [] => w.topRoot
      if (match target with | some f => w.isDone f | none => true) then some "flush-after-computation-complete"
      else if !c.hasSync && pending.any (fun p => !p.flushed && p.n > 0 && prioLt prio p.prio) then
        some "not-highest-priority"
      else none
  | .flushI k q items =>
    if w.flushedB.contains (k, q) then some "flush-body-ran-twice"
    else match w.inFlush with
      | some (k', q', its, ran, _) =>
        if (k', q') == (k, q) then (if ran then some "flush-body-ran-twice" else if its != items then some "flush-items-changed" else none)
        else none   -- a different batch flushed from inside (item.value()); fine
      | none => none
  | .done f o =>
    if w.isDone f then some "completed-twice" else
    match w.kinds.lookup f with
    | some (.item k q _ payload mode) =>
      if (w.curBody.map fun (k', q', _) => (k', q')) != some (k, q) then some "item-completed-outside-its-flush"
      else if o != itemOutcome c.cfg k payload mode then some "item-answer-differs-from-what-flush-set"
      else none
    | _ => none
  | .bdone k q _ =>
    match w.curBody with
    | some (k', q', its) =>
      if (k', q') != (k, q) then some "batch-done-outside-its-flush"
      else if its.any (fun i => !w.isDone i) then some "item-left-pending"
      else none
    | none => some "batch-done-outside-its-flush"
  | .flushE k q =>
    match w.inFlush with
    | some (k', q', _, ran, bdone) =>
      if (k', q') != (k, q) then some "flush-events-not-paired"
      else if !ran then some "flush-body-did-not-run"
      else if !bdone then some "batch-not-completed-by-flush"
      else none
    | none => some "flush-events-not-paired"
  | .ret _ => if w.inFlush.isSome then some "flush-events-not-paired" else none
  | .bad _ => some "unknown-event"
  | _ => none

def Watch.ctx? (w : Watch) (c : Nat) : Option CtxW := w.ctxs.lookup c

/-- C06 -/
def checkC06 (_c : Ctx) (w : Watch) : Event → Option String
  | .ctx true c =>
    match w.ctx? c with
    | some x => if x.resumed then some "resume-twice" else if !x.isOpen then some "resume-after-exit" else none
    | none => some "unknown-context"
  | .ctx false c =>
    match w.ctx? c with
    | some x => if !x.resumed then some "pause-twice" else none
    | none => some "unknown-context"
  | .ctxX c =>
    match w.ctx? c with
    | some x => if x.resumed then some "exit-without-pause" else none
    | none => some "unknown-context"
  | .run u _ _ _ =>
    let callers := w.syncStack.map (·.1)
    w.ctxs.findSome? fun (_, x) =>
      if !x.isOpen then none
      else if x.kind == .nonasync then none
      else if x.owner == u then (if x.resumed then none else some "own-context-paused-while-task-runs")
      else if w.awaitsStar w.fuel x.owner u || callers.contains x.owner ||
              callers.any (fun cl => w.awaitsStar w.fuel x.owner cl) then none   -- may be (and for trees must be) resumed
      else if x.resumed then some "context-active-while-unrelated-task-runs" else none
  | .flushB _ _ _ _ _ =>
    let callers := w.syncStack.map (·.1)
    if callers.isEmpty && (w.ctxs.any fun (_, x) =>
        x.isOpen && x.kind == .nonasync && !w.isDone x.owner && (w.lastYield.lookup x.owner).isSome) then
      some "task-suspended-for-flush-inside-nonasync-context"
    else
    w.ctxs.findSome? fun (_, x) =>
      if !x.isOpen || x.kind == .nonasync then none
      else if callers.contains x.owner then (if x.resumed then none else some "caller-context-paused-during-its-call")
      else if callers.any (fun cl => w.awaitsStar w.fuel x.owner cl) then none
      else if x.resumed then some "context-active-during-flush" else none
  | .done t (.err .nonasync) =>
    -- only a task that is suspended, inside a NonAsyncContext, on something still uncomputed may fail this way
    let inside := w.ctxs.any fun (_, x) => (x.isOpen || x.closedSusp) && x.owner == t && x.kind == .nonasync
    let blocked := match w.lastYield.lookup t with
      | some (_, y) => y.leaves.any fun f => !w.isDone f
      | none => false
    -- (a task that is running when it fails got the error from a future it awaited: ordinary propagation)
    if (w.lastYield.lookup t).isNone || (inside && blocked) then none else some "nonasync-failure-without-suspension"
  | .ret _ =>
    if w.ctxs.any (fun (_, x) => x.resumed) then some "context-left-active" else none
  | .bad _ => some "unknown-event"
  | _ => none

/-- the task chain from t up to the root when every link has exactly one awaiter; none if ambiguous -/
def Watch.chain (w : Watch) : Nat → Nat → Option (List Nat)
  | 0, _ => none
  | fuel + 1, t =>
    match w.awaiters t with
    | [] => some [t]
    | [p] => (w.chain fuel p).map (t :: ·)
    | _ => none

/-- C07 -/
def checkC07 (_c : Ctx) (w : Watch) : Event → Option String
  | .ctx false c =>
    match w.ctxStack with
    | top :: _ => if top != c then some "pause-not-innermost" else none
    | [] => some "pause-without-resume"
  | .read t var v =>
    match w.chain w.fuel t with
    | none => none                       -- shared task: the statement does not fix what it reads
    | some ch =>
      -- innermost open override of `var` along the awaiting chain (nearest task first, latest entered first)
      let cands := ch.filterMap fun u =>
        (w.ctxs.filterMap fun (cid, x) =>
          match x.kind with
          | .override var' val => if x.isOpen && x.owner == u && var' == var then some (cid, val) else none
          | _ => none).foldl (fun (acc : Option (Nat × Nat)) p =>
            match acc with | some a => if p.1 > a.1 then some p else some a | none => some p) none
      let expected := match cands with | (_, val) :: _ => val | [] => 0
      if v != .a expected then some "scoped-read-differs-from-sequential" else none
  | .svals l => if l.any (fun p => p.2 != .a 0) then some "override-not-restored" else none
  | .ret _ => if !w.ctxStack.isEmpty then some "context-left-active" else none
  | .bad _ => some "unknown-event"
  | _ => none

/-- C08 -/
def checkC08 (_c : Ctx) (_w : Watch) : Event → Option String
  | .active t seen => if seen != some t then some "active-task-is-not-the-running-task" else none
  | .sched same n _ live a =>
    if !same then some "scheduler-replaced"
    else if n != 0 then some "scheduler-retains-tasks"
    else if live != 0 then some "scheduler-retains-pending-batch"
    else if a != none then some "active-task-not-cleared"
    else none
  | .bad _ => some "unknown-event"
  | _ => none

/-! ### updating the watch -/

def Watch.mention (w : Watch) (t : Nat) (fs : List Nat) : Watch :=
  { w with awaited := fs ++ w.awaited,
           mentions := (fs.filterMap fun f => if w.mentions.contains (f, t) then none else some (f, t)) ++ w.mentions }

def watchEvent (w : Watch) : Event → Watch
  | .top i _ => { w with topIdx := i, topRoot := none, expectRoot := true, flushCount := 0 }
  | .new f k =>
    let w := { w with kinds := (f, k) :: w.kinds }
    let w := match k with
      | .const v => { w with outs := (f, .ok (.a v)) :: w.outs }
      | .errfut e => { w with outs := (f, .err (.u e)) :: w.outs }
      | _ => w
    match k with
    | .task _ => if w.expectRoot then { w with topRoot := some f, expectRoot := false, awaited := f :: w.awaited } else w
    | _ => w
  | .run t i _ _ => { w with runs := insertKV w.runs t i, lastYield := w.lastYield.filter (fun p => p.1 != t) }
  | .yield t i y =>
    let viaDict := dictLeaves y
    let fresh := (orderedLeaves y).eraseDups.filter fun f =>
      w.isTask f && !w.started f && !w.isDone f && !viaDict.contains f
    let w := { w with lastYield := insertKV w.lastYield t (i, y), orderObl := (t, fresh) :: w.orderObl }
    w.mention t y.leaves
  | .done f o => { w with outs := (f, o) :: w.outs, doneF := f :: w.doneF,
                          lastYield := w.lastYield.filter (fun p => p.1 != f) }
  | .bdone k q _ =>
    { w with curBody := none,
             inFlush := w.inFlush.map fun (k', q', its, ran, bd) => (k', q', its, ran, bd || (k', q') == (k, q)) }
  | .flushB k q items _ _ => { w with inFlush := some (k, q, items, false, false), flushCount := w.flushCount + 1 }
  | .flushI k q items =>
    { w with flushedB := (k, q) :: w.flushedB, curBody := some (k, q, items),
             inFlush := w.inFlush.map fun (k', q', its, ran, bd) => (k', q', its, ran || (k', q') == (k, q), bd) }
  | .flushE _ _ => { w with inFlush := none }
  | .ctxN c t k => { w with ctxs := (c, ({ owner := t, kind := k } : CtxW)) :: w.ctxs }
  | .ctx r c =>
    let w := { w with ctxs := w.ctxs.map fun (p : Nat × CtxW) => if p.1 == c then (p.1, { p.2 with resumed := r }) else p }
    if r then { w with ctxStack := c :: w.ctxStack } else { w with ctxStack := w.ctxStack.erase c }
  | .ctxX c => { w with ctxs := w.ctxs.map fun (p : Nat × CtxW) =>
      if p.1 == c then (p.1, { p.2 with isOpen := false, closedSusp := (w.lastYield.lookup p.2.owner).isSome }) else p }
  | .syncE t f => ({ w with syncStack := (t, f) :: w.syncStack }).mention t [f]
  | .syncX t f _ => { w with syncStack := w.syncStack.erase (t, f) }
  | .ret _ => w
  | _ => w

/-- C01 includes what task code reads from scoped values (contexts are in its quantifier) -/
def checkC01 (c : Ctx) (w : Watch) (e : Event) : Option String :=
  match checkDelivery c w e with
  | some m => some m
  | none => match e with
    | .read .. => checkC07 c w e
    | _ => none

def checkOf (prop : String) : Ctx → Watch → Event → Option String :=
  match prop with
  | "C01" => checkC01
  | "C02" => checkDelivery
  | "C03" => checkC03
  | "C04" => checkC04
  | "C05" => checkC05
  | "C06" => checkC06
  | "C07" => checkC07
  | "C08" => checkC08
  | _ => fun _ _ _ => none

/-- first violated clause, with the index of the offending event -/
def specRun (chk : Ctx → Watch → Event → Option String) (c : Ctx) : Watch → Nat → List Event → Option (Nat × String)
  | _, _, [] => none
  | w, i, e :: es =>
    match chk c w e with
    | some msg => some (i, msg)
    | none => specRun chk c (watchEvent w e) (i + 1) es

def spec (prop : String) (c : Ctx) (tr : List Event) : Option (Nat × String) :=
  specRun (checkOf prop) c {} 0 tr

/-! ### static facts about programs -/

def bodyHasSync : Body → Bool
  | .sync _ _ _ _ => true
  | .syncfut _ _ _ => true
  | .syncret _ _ _ => true
  | .spawn c _ k => bodyHasSync c || bodyHasSync k
  | .item _ _ _ k => bodyHasSync k
  | .const _ k => bodyHasSync k
  | .errfut _ k => bodyHasSync k
  | .lazy _ k => bodyHasSync k
  | .yld _ k h => bodyHasSync k || bodyHasSync h
  | .reyld k h => bodyHasSync k || bodyHasSync h
  | .withCtx _ b k => bodyHasSync b || bodyHasSync k
  | .read _ k => bodyHasSync k
  | .active k => bodyHasSync k
  | _ => false

def bodyShares : Body → Bool
  | .spawn c p k => !p.isEmpty || bodyShares c || bodyShares k
  | .sync c p k h => !p.isEmpty || bodyShares c || bodyShares k || bodyShares h
  | .syncfut _ k h => bodyShares k || bodyShares h
  | .item _ _ _ k => bodyShares k
  | .const _ k => bodyShares k
  | .errfut _ k => bodyShares k
  | .lazy _ k => bodyShares k
  | .yld _ k h => bodyShares k || bodyShares h
  | .reyld k h => bodyShares k || bodyShares h
  | .withCtx _ b k => bodyShares b || bodyShares k
  | .read _ k => bodyShares k
  | .active k => bodyShares k
  | _ => false

def bodyKinds : Body → List Nat
  | .item kd _ _ k => kd :: bodyKinds k
  | .spawn c _ k => bodyKinds c ++ bodyKinds k
  | .sync c _ k h => bodyKinds c ++ bodyKinds k ++ bodyKinds h
  | .syncfut _ k h => bodyKinds k ++ bodyKinds h
  | .const _ k => bodyKinds k
  | .errfut _ k => bodyKinds k
  | .lazy _ k => bodyKinds k
  | .yld _ k h => bodyKinds k ++ bodyKinds h
  | .reyld k h => bodyKinds k ++ bodyKinds h
  | .withCtx _ b k => bodyKinds b ++ bodyKinds k
  | .read _ k => bodyKinds k
  | .active k => bodyKinds k
  | _ => []

def bodyHasNonAsync : Body → Bool
  | .withCtx c b k => c == .nonasync || bodyHasNonAsync b || bodyHasNonAsync k
  | .spawn c _ k => bodyHasNonAsync c || bodyHasNonAsync k
  | .sync c _ k h => bodyHasNonAsync c || bodyHasNonAsync k || bodyHasNonAsync h
  | .syncfut _ k h => bodyHasNonAsync k || bodyHasNonAsync h
  | .item _ _ _ k => bodyHasNonAsync k
  | .const _ k => bodyHasNonAsync k
  | .errfut _ k => bodyHasNonAsync k
  | .lazy _ k => bodyHasNonAsync k
  | .yld _ k h => bodyHasNonAsync k || bodyHasNonAsync h
  | .reyld k h => bodyHasNonAsync k || bodyHasNonAsync h
  | .read _ k => bodyHasNonAsync k
  | .active k => bodyHasNonAsync k
  | _ => false

def mkCtx (cfg : Cfg) (tops : List (Conv × Body)) : Ctx :=
  { cfg := cfg, tops := tops,
    hasNonAsync := tops.any fun p => bodyHasNonAsync p.2,
    hasSync := tops.any fun p => bodyHasSync p.2,
    treeShaped := !(tops.any fun p => bodyShares p.2),
    singleKind := ((tops.map fun p => bodyKinds p.2).flatten.eraseDups.length ≤ 1) }

end AsynqModel.Core.Spec
