import AsynqModel.Sexp
import AsynqModel.Lib.BatchServices
import AsynqModel.Drv.Batching
/-! driver glue for mode `batchingm` (property C11): interleaved histories of several services, free-standing batches,
    KEEP_DEPENDENCIES switched in mid-flight (sub-mode `hist`, judged by the model `runM` and the observer `specM`), and
    the family `sched` (DebugBatch items awaited by tasks, the batches flushed by the scheduler), which is judged by a
    direct expectation written here - no theorem speaks about it. -/
namespace AsynqModel.Drv.BatchServices
open AsynqModel AsynqModel.Batching AsynqModel.Drv.Batching

/-- `(svc <kind> (scripts ...))` -/
def svc? : Sexp → Option (Kind × List Script)
  | .list [.atom "svc", k, .list (.atom "scripts" :: ss)] => do some ((← kind? k), (← ss.mapM script?))
  | _ => none

/-- one body line; `keep` = the setting of KEEP_DEPENDENCIES at that point of the history (it is not part of the
    snapshot the harness prints, the driver carries it along) -/
def mobs? (kinds : List Kind) (keep : Bool) : Sexp → Option MObs
  | .list [.atom "obs", v, op, r, .list evs, st] => do
    let v ← v.nat?
    let k ← kinds[v]?
    some (.op v { op := (← op? op), res := (← res? r), evs := (← evs.mapM ev?), post := (← st? k keep st) })
  | .list [.atom "nb", v, .list evs, st] => do
    let v ← v.nat?
    let k ← kinds[v]?
    some (.newBatch v (← evs.mapM ev?) (← st? k keep st))
  | .list [.atom "setKeep", k] => k.bool?.map .setKeep
  | .list [.atom "inv"] => some .invalid
  | _ => none

def parseBody (kinds : List Kind) : Bool → List Sexp → Option (List MObs)
  | _, [] => some []
  | keep, l :: ls =>
    match mobs? kinds keep l with
    | none => none
    | some (.setKeep k) => (parseBody kinds k ls).map (MObs.setKeep k :: ·)
    | some o => (parseBody kinds keep ls).map (o :: ·)

def mname : MObs → String
  | .op v ob => s!"svc {v} {ob.op.name}"
  | .newBatch v _ _ => s!"svc {v} newBatch"
  | .setKeep k => s!"setKeep {k}"
  | .invalid => "invalid"

def diffM (m i : MObs) : String :=
  match m, i with
  | .op v a, .op w b => if v == w then diffObs a b else s!"service model={v} impl={w}"
  | .newBatch _ _ p, .newBatch _ e q => s!"newBatch events impl={repr e} active model={p.active} impl={q.active} batches model={p.batches.length} impl={q.batches.length}"
  | a, b => s!"model={mname a} impl={mname b}"

def firstDiffM (a b : List MObs) (i : Nat := 0) : Option (Nat × String) :=
  match a, b with
  | [], [] => none
  | x :: xs, y :: ys => if x == y then firstDiffM xs ys (i+1) else some (i, s!"{mname x}: {diffM x y}")
  | x :: _, [] => some (i, s!"model={mname x} impl=<missing>")
  | [], y :: _ => some (i, s!"model=<missing> impl={mname y}")

/-- `(pre v ok)`: what the harness found after it had brought the slot of DebugBatch service v into existence with a
    throw-away request that it flushed, cancelled or asked for its value (what an earlier computation on the thread
    leaves behind): ok = 1 iff the slot now holds a pending, empty batch.  This is C11 for that request (the finished
    batch has been replaced by a fresh one); it is judged directly here, the history proper starts after it. -/
def isPreLine : Sexp → Bool
  | .list (.atom "pre" :: _) => true
  | _ => false

def preFailed : Sexp → Bool
  | .list [.atom "pre", _, ok] => ok.bool? != some true
  | _ => false

def handleHist (id : Nat) (hdr : List Sexp) (body0 : List Sexp) : String :=
  let body := body0.filter (fun l => !isPreLine l)
  if body0.any preFailed then
    s!"R {id} CORR=diff SPEC=fail:fresh-batch@pre SPECM=ok | after a throw-away request was finished the slot of its name does not hold a pending, empty batch"
  else
  match hdr with
  | .list [.atom "keep", kp] :: svcs =>
    match kp.bool?, svcs.mapM svc? with
    | some keep, some ss =>
      let kinds := ss.map (·.1)
      let scriptss := ss.map (·.2)
      match parseBody kinds keep body with
      | some impl =>
        let model := runM scriptss (initM kinds keep) (impl.map MObs.toMOp)
        let corr := firstDiffM model impl
        let spec := specMClause kinds keep impl
        let specm := specMClause kinds keep model
        let c := match corr with | none => "ok" | some _ => "diff"
        let d := match corr with | none => "" | some (i, s) => ((s!"obs {i}: {s}".replace "\n" " ").replace "  " " ")
        let f (s : String) := if s == "ok" then "ok" else "fail:" ++ s
        s!"R {id} CORR={c} SPEC={f spec} SPECM={f specm} | {d}"
      | none => s!"R {id} CORR=diff SPEC=ok SPECM=ok | unparsable observation"
    | _, _ => s!"R {id} CORR=diff SPEC=ok SPECM=ok | unparsable case header"
  | _ => s!"R {id} CORR=diff SPEC=ok SPECM=ok | unparsable case header"

/-! ### family `sched`: DebugBatch items awaited by tasks, the scheduler flushes

`rounds` times every task of service j (`k_j` tasks; a service = one DebugBatch name, any dictionary key) awaits a
fresh `DebugBatchItem(name_j, payload)`.  The model of C11 has no scheduler, so NO theorem speaks about these cases;
they are judged by this direct expectation.  Consequences of C11: every task gets its payloads back (a request made
after a flush joins a fresh, pending batch - never the finished one); every batch that got items was announced exactly
once, with no item pending, when it was no longer the active batch, and ended flushed (not cancelled); afterwards the
active batch of the name is pending, empty and a new object.  NOT C11 but the scheduler's batching behaviour (C04's
subject), kept as a regression expectation of today's code: per service exactly `rounds` batches got items
(`sched-batches-N-for-R-rounds`), each of them `k_j` (`sched-batch-size`). -/

structure SB where
  svc : Nat
  items : Nat
  pending : Nat
  announced : Nat
  final : String
  activeAtAnnounce : Bool

def sb? : Sexp → Option SB
  | .list [.atom "batch", j, n, p, a, .atom f, act] => do
    some { svc := (← j.nat?), items := (← n.nat?), pending := (← p.nat?), announced := (← a.nat?), final := f,
           activeAtAnnounce := (← act.bool?) }
  | _ => none

def isBatchLine : Sexp → Bool
  | .list (.atom "batch" :: _) => true
  | _ => false

def isAfterLine : Sexp → Bool
  | .list (.atom "after" :: _) => true
  | _ => false

def handleSched (id : Nat) (hdr : List Sexp) (body : List Sexp) : String :=
  match hdr with
  | [.list [.atom "rounds", r], .list (.atom "svcs" :: ks)] =>
    match r.nat?, ks.mapM Sexp.nat?, (body.filter isBatchLine).mapM sb? with
    | some rounds, some ks, some bs =>
      let result : Option String :=
        match body.head? with
        | some (.list [.atom "result", .atom "ok", .atom "values-ok"]) => none
        | some (.list [.atom "result", .atom st, .atom v]) => some s!"sched-result-{st}-{v}"
        | _ => some "sched-result-missing"
      let perSvc : Option String := (List.range ks.length).findSome? fun j =>
        let mine := bs.filter fun b => b.svc == j && b.items > 0
        let k := ks.getD j 0
        if mine.length != rounds then some s!"sched-batches-{mine.length}-for-{rounds}-rounds"
        else if mine.any (fun b => b.items != k) then some "sched-batch-size"
        else if mine.any (fun b => b.pending != 0) then some "items-before-announce@sched"
        else if mine.any (fun b => b.announced != 1) then some "announce-once@sched"
        else if mine.any (fun b => b.activeAtAnnounce) then some "active-at-announce@sched"
        else if mine.any (fun b => b.final != "flushed") then some "sched-batch-not-flushed"
        else none
      let stray : Option String :=
        if bs.any (fun b => b.items == 0 && b.final != "pending") then some "sched-empty-batch-finished" else none
      let after : Option String := (body.filter isAfterLine).findSome? fun l =>
        match l with
        | .list [.atom "after", _, p, e, f] =>
          if p.bool? == some true && e.bool? == some true && f.bool? == some true then none
          else some "fresh-batch@sched"
        | _ => some "fresh-batch@sched"
      let nAfter := (body.filter isAfterLine).length
      let verdict := match result with
        | some c => c
        | none => match perSvc with
          | some c => c
          | none => match stray with
            | some c => c
            | none => match after with
              | some c => c
              | none => if nAfter != ks.length then "sched-after-missing" else "ok"
      if verdict == "ok" then s!"R {id} CORR=ok SPEC=ok SPECM=ok | "
      else s!"R {id} CORR=diff SPEC=fail:{verdict} SPECM=ok | {Sexp.list body}"
    | _, _, _ => s!"R {id} CORR=diff SPEC=ok SPECM=ok | unparsable sched case"
  | _ => s!"R {id} CORR=diff SPEC=ok SPECM=ok | unparsable sched case header"

def handle (id : Nat) (hdr : List Sexp) (body : List Sexp) : String :=
  match hdr with
  | .atom "hist" :: rest => handleHist id rest body
  | .atom "sched" :: rest => handleSched id rest body
  | _ => s!"R {id} CORR=diff SPEC=ok SPECM=ok | unparsable batchingm header"

end AsynqModel.Drv.BatchServices
