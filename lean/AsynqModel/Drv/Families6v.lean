/-
  Round-5 families of the core checks (harness/checks/corefam6v.py): behaviour outside the machine's language, judged by a
  DIRECT EXPECTATION - the property's statement for that family, computed here from the case description in the header;
  the implementation's observations are in the body.  No theorem speaks about these families (DESIGN.md 10.8); only the
  driver uses this file.
-/
import AsynqModel.Sexp
import AsynqModel.Drv.Families4
import AsynqModel.Drv.Families5
namespace AsynqModel.Drv.Families6v
open AsynqModel AsynqModel.Drv.Families4

private def a (s : String) : Sexp := Sexp.atom s

/-! ### valuekinds (C01): an object that the library would know how to run - a generator, a future, a task, a batch item, a
coroutine, ... - given to an async function as an ARGUMENT or handed back as its VALUE travels as it is: the caller gets the
very same object, the function body ran exactly once and saw that object, and nothing has touched it (its state before the
call, inside the function and after the call is the same); used afterwards it still produces everything. -/

/-- what using the object AFTER the call must give (its whole content, and the side effects of producing it - once) -/
def vkUse (vk : String) : Option (List String) :=
  match vk with
  | "genobj" => some ["0", "1", "2", "g-start", "g-end"]
  | "genexp" => some ["0", "1", "4", "9"]
  | "gen-nones" => some ["none", "none", "p0", "p1"]
  | "gen-tasks" => some ["1", "2", "leaf1", "leaf2"]
  | "gen-started" => some ["1", "2", "g-start", "g-end"]
  | "coro" => some ["9", "co-start"]
  | "iter" => some ["1", "2", "3"]
  | "callable" => some ["4", "called"]
  | "constfut" => some ["5"]
  | "errfut" => some ["raised-same"]
  | "task" => some ["7", "leaf7"]
  | "task-done" => some ["7", "leaf7"]
  | "item" => some ["8", "valdb"]
  | "futlist" | "futdict" | "futtuple" => some ["1", "2", "3", "leaf2"]
  | _ => none

/-- the state of the object before the call (not consumed, not started, not computed, not flushed) -/
def vkFresh (vk : String) : Option (List String) :=
  match vk with
  | "genobj" | "gen-nones" | "gen-tasks" => some ["GEN_CREATED", "0"]
  | "genexp" => some ["GEN_CREATED"]
  | "gen-started" => some ["GEN_SUSPENDED", "1"]
  | "coro" => some ["CORO_CREATED", "0"]
  | "iter" => some ["3"]
  | "callable" => some ["0"]
  | "constfut" => some ["1", "5"]
  | "errfut" => some ["1", "1"]
  | "task" => some ["0", "0", "0"]
  | "task-done" => some ["1", "7", "1", "1"]
  | "item" => some ["0", "0", "1", "0"]
  | "futlist" | "futdict" | "futtuple" => some ["3", "1", "0", "0", "0", "0"]
  | _ => none

def valuekinds (id : Nat) (hdr body : List Sexp) : String :=
  if hdr.length != body.length then bad id "valuekinds-results-missing" s!"{hdr.length} calls, {body.length} results"
  else
    let checkOne (p : Sexp × Sexp) : List (Bool × String × String) :=
      match p with
      | (.list [.atom "call", .atom vk, .atom src, .atom mode, .atom conv], r) =>
        let what := s!"{vk}-from-{src}"
        let how := s!"{vk} {src} {mode} {conv}"
        match vkUse vk, vkFresh vk, r with
        | some use, some fresh, .list [.atom "result", .atom out, same, .list (.atom "inside" :: ins), .list (.atom "before" :: bef),
            .list (.atom "after" :: aft), .list (.atom "use" :: used)] =>
          let freshS := fresh.map a
          [ (bef == freshS, s!"valuekinds-harness-object-not-fresh-{vk}", s!"{how}: before the call {Sexp.list bef}"),
            (out == "ok", s!"value-passed-through-async-function-{out}-{what}", s!"{how}: the call {out}"),
            (same.nat? == some 1, s!"value-of-async-function-is-not-the-object-returned-{what}",
              s!"{how}: the caller did not get the object the function returned (sequential evaluation returns that very object)"),
            (ins == [Sexp.list [a "1", Sexp.list freshS]], s!"function-body-did-not-run-once-on-the-untouched-argument-{what}",
              s!"{how}: (is-the-object, its state) at each run of the body: {Sexp.list ins}, expected once (1 {Sexp.list freshS})"),
            (aft == freshS, s!"value-touched-by-being-passed-through-an-async-function-{what}",
              s!"{how}: state of the object after the call {Sexp.list aft}, before it {Sexp.list freshS} (consumed / started / computed / flushed)"),
            (used == use.map a, s!"value-unusable-after-passing-through-an-async-function-{what}",
              s!"{how}: using the object afterwards gave {Sexp.list used}, expected {use}") ]
        | _, _, _ => [(false, "valuekinds-unreadable-result", s!"{how}: {r}")]
      | (c, _) => [(false, "valuekinds-unreadable-call", toString c)]
    firstBad id ((hdr.zip body).flatMap checkOne)

/-! ### equalreceivers (C01): a method call sees ITS receiver, whatever __eq__ / __hash__ of the receivers say and however
bindings and calls on different receivers interleave.  Receiver r has state 10 + r, its class (one subclass per receiver)
100 + r, static methods answer 7; every method answers (state, argument, twin) where twin = s for the sync_fn of a pair
(which is what obj.m(a) runs, by definition of sync_fn=) and a for the async body. -/
def erState (decl : String) (r : Nat) : Nat :=
  match decl with
  | "pair-class" | "class" => 100 + r
  | "pair-static" | "static" => 7
  | _ => 10 + r

def erTwin (decl conv : String) : String :=
  if conv == "call" && (decl == "pair" || decl == "pair-plain" || decl == "pair-proxy" || decl == "pair-class" || decl == "pair-static")
  then "s" else "a"

def equalreceivers (id : Nat) (hdr body : List Sexp) : String :=
  match hdr with
  | .atom eq :: .atom decl :: nS :: ops =>
    let n := natOf nS
    let results := body.filter fun r => match r with | .list (.atom "result" :: _) => true | _ => false
    let done := body.find? fun r => match r with | .list (.atom "done" :: _) => true | _ => false
    let tag := s!"{eq}-receivers-{decl}"
    let triple (st arg : Nat) (tw : String) : Sexp := Sexp.list [a (toString st), a (toString arg), a tw]
    -- walk the operations, remembering which receiver each slot was bound on
    let step (acc : List (Nat × Nat) × Nat × List (Bool × String × String)) (op : Sexp) :=
      let (slots, i, checks) := acc
      let res := results.find? fun r => match r with | .list (.atom "result" :: j :: _) => j.nat? == some i | _ => false
      let callChecks (r : Nat) (conv : String) (arg : Nat) : List (Bool × String × String) :=
        let expected := [triple (erState decl r) arg (erTwin decl conv)] ++
          (if conv == "list" then [triple (erState decl ((r + 1) % n)) (arg + 10) "a"] else [])
        match res with
        | some (.list (.atom "result" :: _ :: .atom out :: vals)) =>
          let states := vals.map fun v => match v with | .list (s :: _) => s | _ => a "?"
          [ (out == "ok", s!"method-call-{out}-on-{tag}", s!"operation {i} {op}: {out}"),
            (states == expected.map (fun v => match v with | .list (s :: _) => s | _ => a "?"), s!"method-ran-on-another-receiver-{tag}",
              s!"operation {i} {op} (receiver {r}): got {Sexp.list vals}, expected {Sexp.list expected} = (state of ITS receiver, argument, twin)"),
            (vals == expected, s!"method-call-wrong-argument-or-twin-{tag}-{conv}", s!"operation {i} {op}: got {Sexp.list vals}, expected {Sexp.list expected}") ]
        | _ => [(false, s!"method-call-no-result-{tag}", s!"operation {i} {op}")]
      match op with
      | .list [.atom "op", .atom "bind", r, s] =>
        let ok := match res with | some (.list [.atom "result", _, .atom "bound"]) => true | _ => false
        let out := match res with | some (.list (.atom "result" :: _ :: .atom o :: _)) => o | _ => "missing"
        ((natOf s, natOf r) :: slots, i + 1, checks ++ [(ok, s!"method-access-{out}-on-{tag}", s!"operation {i} {op}: {out}")])
      | .list [.atom "op", .atom "use", s, .atom conv, arg] =>
        match slots.find? (fun p => p.1 == natOf s) with
        | some (_, r) => (slots, i + 1, checks ++ callChecks r conv (natOf arg))
        | none => (slots, i + 1, checks ++ [(false, "equalreceivers-unbound-slot-in-case", toString op)])
      | .list [.atom "op", .atom "direct", r, .atom conv, arg] => (slots, i + 1, checks ++ callChecks (natOf r) conv (natOf arg))
      | _ => (slots, i + 1, checks ++ [(false, "equalreceivers-unreadable-operation", toString op)])
    let (_, _, checks) := ops.foldl step ([], 0, [])
    let doneCheck : List (Bool × String × String) := match done with
      | some (.list [_, .atom out]) => [(out == "ok", s!"computation-around-method-calls-{out}-{tag}", "")]
      | _ => [(false, "equalreceivers-no-outcome", "")]
    firstBad id (checks ++ doneCheck)
  | _ => unparsable id "equalreceivers"

end AsynqModel.Drv.Families6v
