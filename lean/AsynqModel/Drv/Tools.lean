import AsynqModel.Sexp
import AsynqModel.Lib.Tools
import AsynqModel.Lib.ToolsX
/-! driver glue for mode `tools` (property C14): elements are identity tokens (Nat), the async functions are
    tables indexed by token -/
namespace AsynqModel.Drv.Tools
open AsynqModel AsynqModel.Tools

structure Attr where
  key : Int
  pred : Bool
  truthy : Bool
  ord : Option Int
  blocks : Bool
  fails : Option Nat := none     -- class of the exception the per-element call raises for this element
  delay : Nat := 0               -- asyncio mode: event-loop round trips of the per-element call
  deriving Inhabited

def attr? : Sexp → Option Attr
  | .list [k, p, t, o, b] => do
    let ord ← (match o with
      | .atom "none" => some none
      | x => x.int?.map some)
    some { key := (← k.int?), pred := (← p.bool?), truthy := (← t.bool?), ord := ord, blocks := (← b.bool?) }
  | .list [k, p, t, o, b, f, d] => do
    let ord ← (match o with
      | .atom "none" => some none
      | x => x.int?.map some)
    let fails ← (match f with
      | .atom "none" => some none
      | x => x.nat?.map some)
    some { key := (← k.int?), pred := (← p.bool?), truthy := (← t.bool?), ord := ord, blocks := (← b.bool?),
           fails := fails, delay := (← d.nat?) }
  | _ => none

def envOf (u : Array Attr) : Env Nat :=
  { key := fun t => (u[t]?.map (·.key)).getD 0
    pred := fun t => (u[t]?.map (·.pred)).getD false
    truthy := fun t => (u[t]?.map (·.truthy)).getD false
    ord := fun t => (u[t]?.bind (·.ord))
    blocks := fun t => (u[t]?.map (·.blocks)).getD false }

def mode? : Sexp → Option Mode
  | .atom "asynq" => some .asynq
  | .atom "asyncio" => some .asyncio
  | _ => none

/-- `(ext <mode> <eager> <fnAuto>)`: engine, eager function, attribute-happy function object; absent = the plain case -/
def ext? (u : Array Attr) : Sexp → Option (Ext Nat)
  | .list [.atom "ext", m, e, a] => do
    some { fails := fun t => (u[t]?.bind (·.fails)), delay := fun t => (u[t]?.map (·.delay)).getD 0,
           mode := (← mode? m), eager := (← e.bool?), fnAuto := (← a.bool?) }
  | _ => none

def extOf (u : Array Attr) (body : List Sexp) : Ext Nat :=
  let rec go : List Sexp → Option (Ext Nat)
    | [] => none
    | x :: xs => match ext? u x with
      | some e => some e
      | none => go xs
  (go body).getD { fails := fun t => (u[t]?.bind (·.fails)), delay := fun t => (u[t]?.map (·.delay)).getD 0,
                   mode := .asynq, eager := false, fnAuto := false }

def kind? : Sexp → Option IterKind
  | .atom "list" => some .list
  | .atom "tuple" => some .tuple
  | .atom "iterator" => some .iterator
  | .atom "reiter" => some .reiter
  | .atom "nonIter" => some .nonIter
  | _ => none

def src? : Sexp → Option (Src Nat)
  | .list [.atom "src", k, items] => do some { kind := (← kind? k), items := (← items.natList?) }
  | _ => none

/-- the key / predicate argument: `none` or `(fn <bool(f)> <f == None>)` -/
def fnObj? : Sexp → Option FnObj
  | .atom "none" => some .none
  | .list [.atom "fn", t, e] => do some (.fn (← t.bool?) (← e.bool?))
  | _ => none

def bodyKind? : Sexp → Option BodyKind
  | .atom "lazy" => some .lazy
  | .atom "eager" => some .eager
  | _ => none

/-- keyword arguments of amax / amin besides `key=`: 0 none, 1 one that nobody knows, 2 `default=` -/
def extraKw? : Sexp → Option ExtraKw
  | .atom "0" => some .none
  | .atom "1" => some .unknown
  | .atom "2" => some .dflt
  | _ => none

def attempt? : Sexp → Option Attempt
  | .list [.atom "ret", v] => v.int?.map .ret
  | .list [.atom "raise", c] => c.nat?.map .raise
  | _ => none

def call? : Sexp → Option (Call Nat)
  | .list [.atom "call", .atom "amap", s] => (src? s).map .amap
  | .list [.atom "call", .atom "afilter", n, s] => do some (.afilter (← fnObj? n) (← src? s))
  | .list [.atom "call", .atom "afilterfalse", s] => (src? s).map .afilterfalse
  | .list [.atom "call", .atom "asorted", kn, rev, s] => do some (.asorted (← fnObj? kn) (← rev.bool?) (← src? s))
  | .list [.atom "call", .atom "amaxmin", isMin, kw, kn, .list [.atom "one", s]] => do
    some (.amaxmin (← isMin.bool?) (← extraKw? kw) (← fnObj? kn) (.one (← src? s)))
  | .list [.atom "call", .atom "amaxmin", isMin, kw, kn, .list [.atom "elems", xs]] => do
    some (.amaxmin (← isMin.bool?) (← extraKw? kw) (← fnObj? kn) (.elems (← xs.natList?)))
  | .list [.atom "call", .atom "asift", s] => (src? s).map .asift
  | .list [.atom "call", .atom "aretry", m, l, .list (.atom "script" :: sc), b, k] => do
    some (.aretry (← m.nat?) (← l.natList?) (← sc.mapM attempt?) (← b.bool?) (← bodyKind? k))
  | _ => none

def intList? : Sexp → Option (List Int)
  | .list l => l.mapM Sexp.int?
  | _ => none

/-- `(3 none 4)`: amap's result with None where a per-element task was ended by GeneratorExit -/
def optIntList? : Sexp → Option (List (Option Int))
  | .list l => l.mapM fun
    | .atom "none" => some none
    | x => x.int?.map some
  | _ => none

def res? : Sexp → Option (Res Nat)
  | .list [.atom "ok", .atom "vals", l] => (intList? l).map fun l => .ok (.vals l)
  | .list [.atom "ok", .atom "ovals", l] => (optIntList? l).map fun l => .ok (.optVals l)
  | .list [.atom "ok", .atom "elems", l] => l.natList?.map fun l => .ok (.elems l)
  | .list [.atom "ok", .atom "elem", x] => x.nat?.map fun x => .ok (.elem x)
  | .list [.atom "ok", .atom "pair", y, n] => do some (.ok (.pair (← y.natList?) (← n.natList?)))
  | .list [.atom "ok", .atom "val", v] => v.int?.map fun v => .ok (.val v)
  | .list [.atom "ok", .atom "none"] => some (.ok .none)
  | .list [.atom "ok", .atom "dflt"] => some (.ok .dflt)
  | .list [.atom "raised", .atom "typeError"] => some (.raised .typeError)
  | .list [.atom "raised", .atom "valueError"] => some (.raised .valueError)
  | .list [.atom "raised", .atom "assertionError"] => some (.raised .assertionError)
  | .list [.atom "raised", .atom "user", c, i] => do some (.raised (.user (← c.nat?) (← i.nat?)))
  | .list (.atom "raised" :: _) => some (.raised .other)
  | _ => none

def obs? : Sexp → Option (Obs Nat)
  | .list [.atom "obs", r, .list (.atom "flushes" :: fl), runs, sleeps] => do
    some { res := (← res? r), flushes := (← fl.mapM Sexp.nat?), runs := (← runs.nat?), sleeps := (← sleeps.nat?) }
  | _ => none

def findMap {β : Type} (f : Sexp → Option β) : List Sexp → Option β
  | [] => none
  | x :: xs => match f x with
    | some b => some b
    | none => findMap f xs

def univ? : Sexp → Option (Array Attr)
  | .list (.atom "univ" :: l) => (l.mapM attr?).map List.toArray
  | _ => none

def builtin? : Sexp → Option (Res Nat)
  | .list [.atom "builtin", r] => res? r
  | _ => none

def short (s : String) : String := if s.length > 400 then (s.take 400).toString ++ "..." else s

def describe (m i : Obs Nat) : String :=
  if m.res != i.res then short s!"result: model={repr m.res} impl={repr i.res}"
  else if m.runs != i.runs then s!"calls: model={m.runs} impl={i.runs}"
  else if m.flushes != i.flushes then short s!"flushes: model={m.flushes} impl={i.flushes}"
  else s!"sleeps: model={m.sleeps} impl={i.sleeps}"

/-- `body` = (univ ..) (call ..) [(ext ..)] (obs ..) [(builtin ..)]; judged in the second layer (Lib/ToolsX.lean), which
    is the first one for a case without `(ext ..)` and without failing keys (`C14x_plain`) -/
def handle (id : Nat) (_hdr : List Sexp) (body : List Sexp) : String :=
  match findMap univ? body, findMap call? body, findMap obs? body with
  | some u, some c, some impl =>
    let env := envOf u
    let x := extOf u body
    let model := observeX env x c
    let want := expectedX env x c
    -- the Python built-in, run by the harness on the same input, must be what the Lean reference says
    -- (inside the class domain only: with a StopIteration `list(map(..))` / `filter` silently stop at the bad element,
    -- which is not what `firstBad` says - one more reason why these classes are outside the statement)
    let refOk := match findMap builtin? body with
      | some b => b == want.res || !x.ordinary c
      | none => true
    let corr := model == impl && refOk
    let d :=
      if !refOk then short s!"python built-in disagrees with the Lean reference: reference={repr want.res}"
      else if model == impl then
        -- a call with `default=` / with a generator-protocol exception class is judged like any other (SPEC and SPECM
        -- fail: `C14_default_kw_outside_statement`, `C14_stopIteration_outside_statement`, ..); the generator only
        -- produces such calls when told that they belong to the statement
        (if !c.inStatement then "call outside the statement of C14 (amax/amin with default=)"
         else if !x.ordinary c then "call outside the statement of C14 (StopIteration / GeneratorExit class)"
         else "")
      else describe model impl
    let spec := specClauseX env x c impl
    let specm := specClauseX env x c model
    let f (s : String) := if s == "ok" then "ok" else "fail:" ++ s
    let cs := if corr then "ok" else "diff"
    s!"R {id} CORR={cs} SPEC={f spec} SPECM={f specm} | {d.replace "\n" " "}"
  | _, _, _ => s!"R {id} CORR=diff SPEC=ok SPECM=ok | unparsable case"

end AsynqModel.Drv.Tools
