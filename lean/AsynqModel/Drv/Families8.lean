/-
  Round-6 families of the core checks (harness/checks/corefam8.py, optprogs8.py): behaviour outside the machine's language,
  judged by a DIRECT EXPECTATION - the property's statement for that family, computed here from the case description in the
  header; the implementation's observations are in the body.  No theorem speaks about these families (DESIGN.md 10.8); only
  the driver uses this file.
-/
import AsynqModel.Sexp
import AsynqModel.Drv.Families4
import AsynqModel.Drv.Families5
namespace AsynqModel.Drv.Families8
open AsynqModel AsynqModel.Drv.Families4

/-! ### selfcancel (C02 / C05): a flush that completes its own batch through the public API, then returns or raises -/

/-- the outcome of item i = the FIRST outcome it is given (FutureBase: a computed future never changes): what the flush set
    for it; else the batch's first outcome (its own cancel / set_error: that error for every unanswered item; its own
    set_value: the library's "value wasn't set" AssertionError); else, when the flush did not complete the batch itself, the
    exception the flush raised, or the AssertionError when it returned (batching.py `_compute` / `_computed`) -/
def itemToken (pre : String) (i : Nat) (self_ end_ : String) : String :=
  if pre == "val" then "val"
  else if pre == "err" then s!"E{i}"
  else match self_ with
    | "cancel" => "Cancelled"
    | "cancel-err" => "X"
    | "set-error" => "X"
    | "set-value" => "Unset"
    | _ => if end_ == "raise" then "Y" else if end_ == "raise-same" then "X" else "Unset"

def selfcancel (id : Nat) (hdr body : List Sexp) : String :=
  match hdr, body with
  | [.list (.atom "pre" :: pre), .atom self_, .atom end_, .list (.atom "handler" :: handler), .list (.atom "how" :: how), .atom _pid],
    [.list [.atom "result", .list (.atom "out" :: out), .list (.atom "got" :: got), .list (.atom "items" :: itemSt), clean, activeNone,
      .atom canary, clean2, .list [.atom "events", hookBad, hookNone], .list notOnce]] =>
    let toks := (pre.zipIdx).map fun (p, i) => itemToken (atomStr p) i self_ end_
    let hs := handler.map natOf
    -- C02: the error is raised inside the task at the yield, where it can be caught and the task can continue; uncaught it
    -- becomes the task's failure; the first failing reader in structure order gives value()'s exception
    let readers := (toks.zip hs).map fun (t, h) => if t == "val" then ("v", true) else if h == 1 then ("f", true) else (t, false)
    let expOut : List Sexp := match readers.find? (fun r => !r.2) with
      | some (t, _) => [.atom "raised", .atom t]
      | none => (.atom "ok" :: readers.map fun r => Sexp.atom r.1) ++ [.atom "u"]
    let expGot := toks.map Sexp.atom
    let tag := s!"{self_}-then-{end_}"
    firstBad id [
      (got == expGot, s!"selfcancel-{tag}-task-did-not-receive-the-items-first-outcome-at-its-read",
        s!"expected {Sexp.list expGot}, got {Sexp.list got}; value() {Sexp.list out}"),
      (out == expOut, s!"selfcancel-{tag}-wrong-outcome-of-value", s!"expected {Sexp.list expOut}, got {Sexp.list out}"),
      (itemSt == expGot, s!"selfcancel-{tag}-item-not-completed-with-its-first-outcome", s!"expected {Sexp.list expGot}, got {Sexp.list itemSt}"),
      -- C05: before / after events exactly once around each SCHEDULER flush (a batch flushed by item.value() called from a
      -- task's code is flushed by the item itself: no events; only possible when some reader reads synchronously)
      (hookBad.nat? == some 0 && (hookNone.nat? == some 0 || how.contains (.atom "sync")), s!"selfcancel-{tag}-flush-events-not-once-around-each-flush",
        s!"{hookBad} batches with other events than before, after; {hookNone} flushed without events"),
      (notOnce.isEmpty, s!"selfcancel-{tag}-batch-not-flushed-exactly-once", s!"(kind, items, flushes) {Sexp.list notOnce}"),
      (Drv.Families5.schedClean clean && activeNone.nat? == some 1, s!"selfcancel-{tag}-scheduler-not-clean", s!"{clean} active-none {activeNone}"),
      (canary == "ok", s!"selfcancel-{tag}-next-computation-{canary}", ""),
      (Drv.Families5.schedClean clean2, s!"selfcancel-{tag}-scheduler-not-clean-after-next-computation", s!"{clean2}")]
  | _, _ => unparsable id "selfcancel"

/-! ### deepfail (C03 / C02): a chain of n+1 tasks in which level k fails, with or without a handler at level j -/
def deepfail (id : Nat) (hdr body : List Sexp) : String :=
  match hdr, body with
  | [nS, kS, jS, rr, .atom _created, .atom src, .atom _pid],
    [.list [.atom "result", .list (.atom "out" :: out), uncomputed, nstart, badStart, nres, badRes, early, clean, same, nfl,
      .list [.atom "limit", lim]]] =>
    let n := natOf nS
    let k := natOf kS
    let j := jS.nat?
    let reraise := natOf rr == 1
    -- C02: uncaught, the failure of level k is the failure of every level above it and finally the exception raised by
    -- value() (that instance); caught at level j, that task continues and the levels above get values
    let expOut : List Sexp := match j with
      | none => [.atom "raised", .atom "Boom-same"]
      | some j => [.atom "ok", .atom (toString (1000 + (n - j)))]
    -- levels 1..n are each resumed exactly once, after their child is computed; the harness can count a resume only where
    -- the body has code at that point: on the value path (levels <= k, levels above the handler) and in except blocks
    let expRes := match j with
      | none => k + (if reraise then n - k else 0)
      | some j => k + (n - j) + (if reraise then j - k else if j > k then 1 else 0)
    let depth := if n < natOf lim then "below" else "beyond"
    let tag := s!"{depth}-the-recursion-limit"
    firstBad id [
      (out == expOut, s!"deepfail-{tag}-wrong-outcome-of-value-{match out with | [.atom "raised", .atom e] => e | _ => "value"}",
        s!"depth {n}, level {k} fails ({src}), handler {jS}: expected {Sexp.list expOut}, got {Sexp.list out}"),
      (uncomputed.nat? == some 0, s!"deepfail-{tag}-task-left-uncomputed", s!"{uncomputed} of {n + 1} tasks"),
      (nstart.nat? == some (n + 1) && badStart.nat? == some 0, s!"deepfail-{tag}-body-not-started-exactly-once", s!"{nstart} of {n + 1} started, {badStart} not once"),
      (nres.nat? == some expRes && badRes.nat? == some 0, s!"deepfail-{tag}-yield-not-answered-exactly-once", s!"{nres} of {expRes} resumed, {badRes} not once"),
      (early.nat? == some 0, s!"deepfail-{tag}-task-resumed-before-its-child-is-computed", s!"{early}"),
      (nfl.nat? == some (if src == "item" then 1 else 0), s!"deepfail-{tag}-wrong-number-of-flushes", s!"{nfl}"),
      (same.nat? == some 1, s!"deepfail-{tag}-asking-again-differs-or-runs-code", ""),
      (Drv.Families5.schedClean clean, s!"deepfail-{tag}-scheduler-not-clean", s!"{clean}")]
  | _, _ => unparsable id "deepfail"

/-! ### flushabort (C08 / C05): a flush that fails before (or right after) the batch is executed, then an unrelated computation -/
def flushabort (id : Nat) (hdr body : List Sexp) : String :=
  match hdr, body with
  | [.atom how, _n1, .atom nest, n2, retry, _side, .atom _pid],
    [.list [.atom "result", .atom out1, clean1, .list (.atom "stale" :: stale1), none1, nfirst1, .atom out2, .list (.atom "flushes" :: fl2), .list (.atom "hooks" :: hk2), touched,
      clean2, none2, .atom out3, nfirst, clean3, activeBad]] =>
    let a := Sexp.atom
    let executed := how == "after-hook"
    -- the flush's exception is the outcome of the call that issued the flush: value() at top level, the synchronous call
    -- inside the task otherwise (its caller catches it and goes on, or fails with it)
    let expOut1 := if nest == "sync-caught" then "ok" else "raised-Refused-same"
    let expFl2 : List Sexp := [.list [a "second", n2]]
    let expHk2 : List Sexp := [.list [a "before", a "second"], .list [a "after", a "second"]]
    let doRetry := natOf retry == 1
    firstBad id [
      (out1 == expOut1, s!"flushabort-{how}-{nest}-first-computation-{out1}", s!"expected {expOut1}"),
      (nfirst1.nat? == some (if executed then 1 else 0), s!"flushabort-{how}-{nest}-refused-batch-executed-{nfirst1}-times", ""),
      -- C08: after a computation ended with an Exception from a batch flush the scheduler retains nothing of it ...
      -- (first the batch whose flush failed, then every other batch computation 1 had pending: `stale` = the kinds of the live
      -- batches still scheduled)
      (!stale1.contains (a "first") && Drv.Families5.tasksClean clean1 && none1.nat? == some 1, s!"flushabort-{how}-scheduler-retains-the-batch-whose-flush-failed",
        s!"after computation 1 ({nest}): {clean1} still scheduled {Sexp.list stale1} active-none {none1}"),
      (stale1.isEmpty && Drv.Families5.schedClean clean1, "flushabort-other-pending-batch-stays-scheduled-after-a-failed-flush",
        s!"after computation 1 ({how}, {nest}): {clean1} still scheduled {Sexp.list stale1}"),
      -- ... and the next computation on the thread behaves as on a fresh scheduler: flushes its own batch only
      (fl2 == expFl2, s!"flushabort-{how}-next-computation-flushes-a-batch-of-the-failed-one", s!"({nest}) expected {Sexp.list expFl2}, got {Sexp.list fl2}"),
      (hk2 == expHk2, s!"flushabort-{how}-flush-events-of-next-computation-differ", s!"({nest}) expected {Sexp.list expHk2}, got {Sexp.list hk2}"),
      (touched.nat? == some 0, s!"flushabort-{how}-next-computation-touches-items-of-the-failed-one", s!"{touched} items"),
      (out2 == "ok", s!"flushabort-{how}-next-computation-{out2}", ""),
      (Drv.Families5.schedClean clean2 && none2.nat? == some 1, s!"flushabort-{how}-scheduler-not-clean-after-next-computation", s!"{clean2}"),
      (activeBad.nat? == some 0, s!"flushabort-{how}-active-task-is-not-the-running-task", s!"{activeBad}"),
      -- C03 / C05: the unfinished first computation awaited again completes, its batch flushed exactly once overall
      (out3 == (if doRetry then "ok" else "not-run"), s!"flushabort-{how}-first-computation-awaited-again-{out3}", ""),
      (nfirst.nat? == some (if doRetry || executed then 1 else 0), s!"flushabort-{how}-refused-batch-flushed-{nfirst}-times-overall", ""),
      (Drv.Families5.schedClean clean3, s!"flushabort-{how}-scheduler-not-clean-at-the-end", s!"{clean3}")]
  | _, _ => unparsable id "flushabort"

/-! ### deepdump (C20): deep suspended chains / wide fans under DUMP_SCHEDULER_STATE with a clock that crosses the dump threshold -/
def deepdump (id : Nat) (hdr body : List Sexp) : String :=
  match hdr with
  | [.atom shape, nS, everyS, _tick] =>
    let n := natOf nS
    let every := natOf everyS
    -- the value of the program (optprogs8.py): an item of the harness service answers 10 * key, every chain level adds 1
    let expected : Nat := match shape with
      | "chain" => (70 + n) + 1 + 83 + 130
      | "fan" => 5 * n * (n - 1)
      | _ => (if every == 0 then 1 else every) * (70 + n)
    let sep := Sexp.list [.atom "sep"]
    let a := body.takeWhile (· != sep)
    let b := (body.dropWhile (· != sep)).drop 1
    let outOf (l : List Sexp) : String := match l.find? (fun e => match e with | .list (.atom "out" :: .atom "main" :: _) => true | _ => false) with
      | some (.list [_, _, .atom "ok", v]) => s!"value-{v}"
      | some (.list [_, _, .atom "err", .atom cls]) => s!"raised-{cls}"
      | _ => "missing"
    let clean (l : List Sexp) : Bool := l.contains (.list [.atom "sched", .atom "0", .atom "none", .atom "0", .atom "0"])
    let i := ((a.zip b).takeWhile fun (x, y) => x == y).length
    firstBad id [
      (body.contains sep && !a.isEmpty, "deepdump-program-produced-no-observation", ""),
      (outOf a == s!"value-{expected}", s!"deepdump-{shape}-wrong-outcome-without-options-{outOf a}", s!"expected value {expected}"),
      (clean a, s!"deepdump-{shape}-scheduler-not-clean-without-options", ""),
      (outOf b == outOf a, s!"deepdump-{shape}-options-change-the-outcome-{outOf b}", s!"depth {n}: without options {outOf a}, with options {outOf b}"),
      (a == b, s!"deepdump-{shape}-options-change-behaviour-of-program", s!"first difference at event {i}: {a[i]?.map toString} vs {b[i]?.map toString}")]
  | _ => unparsable id "deepdump"

end AsynqModel.Drv.Families8
