/-
  Third-audit family of the core checks (harness/checks/corefam7.py): `sharedread` - a task SHARED by several awaiters that
  hold different overrides of one scoped variable, the SAME program run under every permutation of the priorities of its
  batch kinds (audit/AUDIT3-core.md item 1).  Judged by a DIRECT EXPECTATION - the statements of C07 and C01 for this family,
  computed here from the case description in the header; the implementation's observations (one `run` line per permutation)
  are in the body.  Only the driver uses this file.  The machine-level theorems about the same situation are in
  Theorems/C07d.lean (`C07_read_value_dag`: a read = the first override along the scheduler's spine;
  `C07_shared_read_depends_on_scheduler`: the witness program) and Theorems/C07e.lean (`C07_read_from_somewhere`: a read is
  0 or the value of an open override of a live task on the stack - the model-level form of clause `shared-read-from-nowhere`).
-/
import AsynqModel.Sexp
import AsynqModel.Drv.Families4
import AsynqModel.Drv.Families5
namespace AsynqModel.Drv.Families7
open AsynqModel AsynqModel.Drv.Families4

/-- one token of the shared task's program -/
inductive XOp where
  | read | yld | enter (v : Nat) | exit

def parseOp : Sexp → Option XOp
  | .atom "r" => some .read
  | .atom "y" => some .yld
  | .atom "x" => some .exit
  | .list [.atom "e", v] => v.nat?.map .enter
  | _ => none

/-- for every read of the shared task, in program order: (its own innermost open override if any, number of its own
    suspensions before the read) -/
def readSites : List XOp → List Nat → Nat → List (Option Nat × Nat)
  | [], _, _ => []
  | .read :: r, st, y => (st.head?, y) :: readSites r st y
  | .yld :: r, st, y => readSites r st (y + 1)
  | .enter v :: r, st, y => readSites r (v :: st) y
  | .exit :: r, st, y => readSites r st.tail y

/-- an awaiter: reaches the shared task directly / through an intermediate task (`hop`), inside the overrides `ovs`
    (outermost first) -/
structure Aw where
  hop : Nat
  ovs : List Nat

def parseAw : Sexp → Option Aw
  | .list (.atom "aw" :: hop :: ovs) => (ovs.mapM Sexp.nat?).map fun l => { hop := natOf hop, ovs := l }
  | _ => none

/-- what sequential code reads at a point awaited through this chain and not inside an override of the reader's own: the
    innermost override of the awaiter, else the root's, else the default 0 (`root = 0`: the root holds none) -/
def chainVal (root : Nat) (a : Aw) : Nat := a.ovs.getLast?.getD root

def isPerm (k : Nat) (p : List Nat) : Bool :=
  p.length == k && (List.range k).all fun i => p.contains (i + 1)

def fact : Nat → Nat
  | 0 => 1
  | n + 1 => (n + 1) * fact n

structure Run where
  perm : List Nat
  out : String
  reads : List Sexp
  value : List Sexp
  after : Sexp
  clean : Sexp
  byReads : List Sexp

def parseRun : Sexp → Option Run
  | .list [.atom "run", .list (.atom "perm" :: p), .atom out, .list (.atom "reads" :: rs), .list (.atom "value" :: v), after,
      .list (.atom "flushes" :: _), clean, .list (.atom "by" :: b)] =>
    some { perm := p.map natOf, out := out, reads := rs, value := v, after := after, clean := clean, byReads := b }
  | _ => none

def natAtom (n : Nat) : Sexp := .atom (toString n)

/-- index of the greatest element among the first `n` entries of a permutation -/
def argmaxFirst (p : List Nat) (n : Nat) : Nat :=
  (List.range n).foldl (fun b i => if p.getD b 0 < p.getD i 0 then i else b) 0

def sharedread (id : Nat) (hdr body : List Sexp) : String :=
  match hdr with
  | [.atom pid, .atom _var, .list (.atom "x" :: xs), .list (.atom "aws" :: aws), .list [.atom "root", root], .list [.atom "by", by_]] =>
    match xs.mapM parseOp, aws.mapM parseAw, body.mapM parseRun with
    | some ops, some awl, some runs =>
      let rootv := natOf root
      let sites := readSites ops [] 0
      let k := awl.length + 1
      let chains := awl.map (chainVal rootv)
      let perms := runs.map (·.perm)
      -- what may be read at a site: the reader's own innermost override decides when one is open; otherwise the value
      -- established by SOME chain of tasks awaiting the shared task (innermost override of the awaiter, else of the root, else 0)
      let allowed (site : Option Nat × Nat) : List Nat := match site.1 with
        | some v => [v]
        | none => chains
      let readOk (r : Run) : Bool :=
        r.reads.length == sites.length && (r.reads.zip sites).all fun (x, site) => match x.nat? with
          | some n => (allowed site).contains n
          | none => false
      -- a read before the shared task's first suspension (and outside its own overrides) is that of the chain that STARTED
      -- it: every awaiter waits for a batch of its own kind first, so that is the awaiter whose kind has the greatest priority
      let startOk (r : Run) : Bool :=
        let starter := chains.getD (argmaxFirst r.perm awl.length) 0
        (r.reads.zip sites).all fun (x, site) => site.1.isSome || site.2 != 0 || x.nat? == some starter
      -- root() = the list of the awaiters' values [the awaiter's own read after the shared task returned, the shared
      -- task's value = the list of its reads]
      let valueOk (r : Run) : Bool :=
        r.value == (chains.map fun c => Sexp.list [natAtom c, .list r.reads])
      let byOk (r : Run) : Bool :=
        if natOf by_ == 1 then r.byReads == [natAtom 99, natAtom 99] else r.byReads.isEmpty
      let bad (f : Run → Bool) : List Run := runs.filter fun r => !f r
      let show_ (rs : List Run) : String :=
        " ".intercalate (rs.map fun r => s!"[priorities {r.perm}: reads {Sexp.list r.reads} value {Sexp.list r.value}]")
      let readVectors := (runs.map (·.reads)).eraseDups
      let values := (runs.map (·.value)).eraseDups
      let orderReads : Bool × String × String :=
        (readVectors.length ≤ 1, "scoped-read-of-shared-task-depends-on-flush-order",
          s!"awaiting chains establish {chains}; {readVectors.length} different read vectors of the shared task over {runs.length} priority permutations: {show_ runs}")
      let orderValue : Bool × String × String :=
        (values.length ≤ 1, "result-depends-on-flush-order",
          s!"{values.length} different values of root() over {runs.length} priority permutations of the same program: {show_ runs}")
      firstBad id ([
        (runs.length == fact k && perms.all (isPerm k) && perms.eraseDups.length == perms.length, "sharedread-not-every-permutation-run",
          s!"expected one run per permutation of the priorities of {k} kinds, got {perms}"),
        ((bad fun r => r.out == "ok").isEmpty, s!"sharedread-outcome-{((bad fun r => r.out == "ok").head?.map (·.out)).getD "ok"}", ""),
        -- judged strictly (they hold on the library as it is)
        ((bad readOk).isEmpty, "shared-read-from-nowhere",
          s!"read sites (own override, suspensions before) {sites.map fun s => (s.1, s.2)}, awaiting chains establish {chains}; offending runs: {show_ (bad readOk)}"),
        ((bad startOk).isEmpty, "shared-read-before-first-suspension-not-from-the-starting-chain",
          s!"awaiting chains establish {chains}; offending runs: {show_ (bad startOk)}"),
        ((bad valueOk).isEmpty, "shared-result-not-the-awaited-values",
          s!"expected [[own read of awaiter i = {chains}[i], reads of the shared task] ...]; offending runs: {show_ (bad valueOk)}"),
        ((bad byOk).isEmpty, "shared-bystander-read-wrong", s!"{(bad byOk).map fun r => Sexp.list r.byReads}"),
        ((bad fun r => r.after.nat? == some 0).isEmpty, "shared-override-not-restored",
          s!"value after the computation: {(bad fun r => r.after.nat? == some 0).map fun r => (r.perm, r.after)}"),
        ((bad fun r => Drv.Families5.schedClean r.clean).isEmpty, "sharedread-scheduler-not-clean", "")] ++
        -- the two order-dependence clauses (FAIL on the library as it is whenever two awaiting chains establish different
        -- values and a read lies outside the shared task's own overrides: open known finding); each check leads with the
        -- clause of its own property
        (if pid == "C01" then [orderValue, orderReads] else [orderReads, orderValue]))
    | _, _, _ => unparsable id "sharedread"
  | _ => unparsable id "sharedread"

end AsynqModel.Drv.Families7
