import AsynqModel.Sexp
import AsynqModel.Lib.Contexts
import AsynqModel.Lib.ContextsWith
import AsynqModel.Lib.ContextsHooks
/-! driver glue for mode `ctxhist` (histories of context operations on one task; properties C06 / C07) -/
namespace AsynqModel.Drv.Contexts
open AsynqModel AsynqModel.Contexts

def kind? : Sexp → Option Kind
  | .list [.atom "plain", rr, pr] => do some (.plain (← rr.natList?) (← pr.natList?))
  | .list [.atom "ov", x, v] => do some (.ov (← x.nat?) (← v.nat?))
  | .list [.atom "na"] => some .na
  | _ => none

def exc? : Sexp → Option Exc
  | .list [.atom "hookR", c] => c.nat?.map .hookR
  | .list [.atom "hookP", c] => c.nat?.map .hookP
  | .atom "assertion" => some .assertion
  | .atom "attrError" => some .attrError
  | .atom "keyError" => some .keyError
  | .atom "taskError" => some .taskError
  | .atom _ => some .other
  | _ => none

def esc? : Sexp → Option Esc
  | .atom "none" => some .none
  | .atom "skip" => some .skip
  | x => (exc? x).map .exc

def status? : Sexp → Option Status
  | .atom "none" => some .none
  | .atom "ok" => some .ok
  | .list [.atom "err", e] => (exc? e).map .err
  | _ => none

def op? : Sexp → Option Op
  | .list [.atom "enter", c] => c.nat?.map .enter
  | .list [.atom "exit", c] => c.nat?.map .exit
  | .list [.atom "suspend"] => some .suspend
  | .list [.atom "continue"] => some .continue_
  | .list [.atom "finish", b] => b.bool?.map .finish
  | _ => none

def call? : Sexp → Option Call
  | .list [.atom "R", c, f] => do some ⟨true, (← c.nat?), (← f.bool?)⟩
  | .list [.atom "P", c, f] => do some ⟨false, (← c.nat?), (← f.bool?)⟩
  | _ => none

def obs? : Sexp → Option Obs
  | .list [.atom "obs", op, .list (.atom "calls" :: cls), .list [.atom "exc", e], .list (.atom "vals" :: vs),
      .list [.atom "status", st]] => do
    some { op := (← op? op), calls := (← cls.mapM call?), esc := (← esc? e), vals := (← vs.mapM Sexp.nat?), status := (← status? st) }
  | _ => none

structure Hdr where
  typed : Bool
  defs : List Kind
  nvars : Nat

def hdr? : List Sexp → Option Hdr
  | [.list [.atom "typed", t], .list (.atom "ctxs" :: cs), .list [.atom "vars", n]] => do
    some { typed := (← t.bool?), defs := (← cs.mapM kind?), nvars := (← n.nat?) }
  | _ => none

def firstDiff (a b : List Obs) (i : Nat := 0) : Option (Nat × String) :=
  match a, b with
  | [], [] => none
  | x :: xs, y :: ys => if x == y then firstDiff xs ys (i+1) else some (i, s!"model={repr x} impl={repr y}")
  | x :: _, [] => some (i, s!"model={repr x} impl=<missing>")
  | [], y :: _ => some (i, s!"model=<missing> impl={repr y}")

/-- the line after the history: nothing but the task's own error escapes from computing the task, the scheduler is
    clean, the next computation on the thread works (direct expectation, as in mode `ctxraise`) -/
def finalOk (last : Status) : Sexp → Bool
  | .list [.atom "final", .list [.atom "status", st], .list [.atom "escaped", .atom esc], .list [.atom "clean", c],
      .list [.atom "next", n]] =>
    status? st == some last && c.nat? == some 1 && n.nat? == some 1 &&
      esc == (match last with | .err _ => "task-error" | _ => "none")
  | _ => false

/-- naming only (the verdict is `spec`'s): did a suspension / continuation call a hook of a context whose last
    `__enter__` let a resume() exception escape (so that its block was never entered)? -/
def afterFailedEnter : List Obs → List Nat → Bool
  | [], _ => false
  | ob :: rest, failed =>
    match ob.op, ob.esc with
    | .enter c, .exc (.hookR _) => afterFailedEnter rest (c :: failed)
    | .enter c, _ => afterFailedEnter rest (failed.filter (· != c))
    | .exit c, _ => afterFailedEnter rest (failed.filter (· != c))
    | .suspend, _ | .continue_, _ => ob.calls.any (fun cl => failed.contains cl.c) || afterFailedEnter rest failed
    | _, _ => afterFailedEnter rest failed

/-- a resume() exception escaped from some `__enter__` of the history -/
def anyFailedEnter (obs : List Obs) : Bool :=
  obs.any fun ob => match ob.op, ob.esc with
    | .enter _, .exc (.hookR _) => true
    | _, _ => false

/-- the two faces of ONE defect get one recognisable suffix: a context whose `__enter__` failed stays registered, so it
    (a) gets hook calls although its block is not open, and (b) keeps its OLD place when the block is entered later -/
def nameClause (obs : List Obs) (clause : String) : String :=
  if clause.startsWith "call-on-context-that-is-not-open" && afterFailedEnter obs [] then clause ++ "/after-failed-enter"
  else if (clause.startsWith "suspend-pauses-in-reverse-entry-order" || clause.startsWith "continue-resumes-in-entry-order")
      && anyFailedEnter obs then clause ++ "/after-failed-enter"
  else clause

/-- `hdr` = `(typed b) (ctxs ...) (vars n)`; `body` = one `(obs ...)` line per executed operation, then `(final ...)` -/
def handlePlain (id : Nat) (hdr : List Sexp) (body : List Sexp) : String :=
  match hdr? hdr, (body.dropLast).mapM obs?, body.getLast? with
  | some h, some impl, some fin =>
    let ops := impl.map (·.op)
    let model := run (codeCfg h.typed) h.defs (init h.defs h.nvars) ops
    let corr := firstDiff model impl
    let last := (model.getLast?.map (·.status)).getD .none
    let fok := finalOk last fin
    let spec0 := nameClause impl (specClause h.defs h.nvars impl)
    let spec := if spec0 == "ok" && !fok then "nothing-else-escapes" else spec0
    let specm := nameClause model (specClause h.defs h.nvars model)
    let c := match corr with | none => (if fok then "ok" else "diff") | some _ => "diff"
    let d := match corr with
      | none => if fok then "" else s!"final line {fin}, model status {repr last}"
      | some (i, s) => (s!"obs {i}: {s}".replace "\n" " ")
    let f (s : String) := if s == "ok" then "ok" else "fail:" ++ s
    s!"R {id} CORR={c} SPEC={f spec} SPECM={f specm} | {d}"
  | _, _, _ => s!"R {id} CORR=diff SPEC=ok SPECM=ok | unparsable ctxhist case"

/-! ### mode `ctxwith`: histories whose first `nb` contexts are REAL with-blocks of the task's generator
    (Lib/ContextsWith.lean: `generator.close()` and `return`/exceptions of the body run their `__exit__`s) -/

def excTok : Exc → String
  | .hookR c => s!"(hookR {c})" | .hookP c => s!"(hookP {c})" | .assertion => "assertion" | .attrError => "attrError"
  | .keyError => "keyError" | .taskError => "taskError" | .other => "other"

/-- the exception that left the scheduler loop first (a suspend / continue observation with an escaping exception) -/
def firstEscape (obs : List Obs) : Option Exc :=
  match obs.find? escapes with
  | some ob => (match ob.esc with | .exc e => some e | _ => none)
  | none => none

/-- the line after the history, read as an OBSERVATION: (status, what value() raised, clean, next computation ok) -/
def final? : Sexp → Option (Option Status × String × Nat × Nat × Nat × Nat)
  | .list [.atom "final", .list [.atom "status", st], .list [.atom "escaped", esc], .list [.atom "clean", c],
      .list [.atom "batches", b, lb], .list [.atom "next", n]] => do
    some (status? st, toString esc, (← c.nat?), (← b.nat?), (← lb.nat?), (← n.nat?))
  | _ => none

/-- an optional header field `(name 0|1)` after `(blocks nb)`; absent = false -/
def flagOpt (name : String) (opts : List Sexp) : Bool :=
  opts.any fun x => match x with
    | .list [.atom n, b] => n == name && b.nat? == some 1
    | _ => false

/-- `hdr` = `(typed b) (ctxs ...) (vars n) (blocks nb)` and optionally `(gxs b)` (the body ignores GeneratorExit at its
    suspension points) and `(afterfix b)` (tools/ctxwith_afterfix.py: the library under test carries
    proposed-fixes/C08-close-raise.diff, the expectation is the model with `closeSwallows := true`) -/
def handleW (id : Nat) (hdr : List Sexp) (body : List Sexp) : String :=
  match hdr, (body.dropLast).mapM obs?, body.getLast?.bind final? with
  | t :: c :: v :: .list [.atom "blocks", nbS] :: opts, some impl, some (fst, fesc, fclean, fb, flb, fnext) =>
    match hdr? [t, c, v], nbS.nat? with
    | some h, some nb =>
      let ops := impl.map (·.op)
      let w0 : StW := { initW h.defs h.nvars nb with swallowsGX := flagOpt "gxs" opts, closeSwallows := flagOpt "afterfix" opts }
      let model := runW (codeCfg h.typed) h.defs w0 ops
      let wf := finalStateW (codeCfg h.typed) h.defs w0 ops
      let corr := firstDiff model impl
      -- what the model predicts for the final line: the task's outcome; value() raises the exception that left the
      -- scheduler loop, else the task's own error; the task stack is dirty exactly when an exception left the loop
      let expEsc := match firstEscape model with
        | some e => excTok e
        | none => (match wf.s.status with | .err _ => "task-error" | _ => "none")
      let expB := if wf.stale then 1 else 0
      let finCorr := fst == some wf.s.status && (fesc == expEsc || (expEsc == "other" && fesc.startsWith "other")) &&
        fclean == (if wf.dirty then 0 else 1) && fnext == 1 &&
        fb == expB && flb == expB
      -- the property on the implementation's observations alone
      let spec0 := specClauseW impl
      let finSpec := fclean == 1 && fnext == 1 && (fesc == "none" || fesc == "task-error")
      let spec := if spec0 != "ok" then spec0 else if !finSpec then "nothing-else-escapes"
        else if fb != 0 || flb != 0 then "scheduler-retains-pending-batch" else "ok"
      let specm := if specClauseW model != "ok" then specClauseW model else if wf.dirty then "nothing-else-escapes"
        else if wf.stale then "scheduler-retains-pending-batch" else "ok"
      let cstr := match corr with | none => (if finCorr then "ok" else "diff") | some _ => "diff"
      let d := match corr with
        | none => if finCorr then "" else s!"final line: model status {repr wf.s.status} escaped {expEsc} dirty {wf.dirty} stale {wf.stale}"
        | some (i, s) => (s!"obs {i}: {s}".replace "\n" " ")
      let f (s : String) := if s == "ok" then "ok" else "fail:" ++ s
      s!"R {id} CORR={cstr} SPEC={f spec} SPECM={f specm} | {d}"
    | _, _ => s!"R {id} CORR=diff SPEC=ok SPECM=ok | unparsable ctxwith header"
  | _, _, _ => s!"R {id} CORR=diff SPEC=ok SPECM=ok | unparsable ctxwith case"

/-! ### mode `ctxhist` with a 4th header field `(hooks ...)`: histories over contexts whose hooks enter / leave member
    contexts, and with `revisit` operations (Lib/ContextsHooks.lean) -/

def hact? : Sexp → Option HAct
  | .list [.atom "enter", m] => m.nat?.map .enter
  | .list [.atom "exit", m] => m.nat?.map .exit
  | _ => none

def hdef? : Sexp → Option HDef
  | .list [.list r, .list p] => do some { onR := (← r.mapM hact?), onP := (← p.mapM hact?) }
  | _ => none

def hop? : Sexp → Option HOp
  | .list [.atom "revisit"] => some .revisit
  | x => (op? x).map .base

def obsH? : Sexp → Option ObsH
  | .list [.atom "obs", op, .list (.atom "calls" :: cls), .list [.atom "exc", e], .list (.atom "vals" :: vs),
      .list [.atom "status", st]] => do
    some { op := (← hop? op), calls := (← cls.mapM call?), esc := (← esc? e), vals := (← vs.mapM Sexp.nat?), status := (← status? st) }
  | _ => none

def firstDiffH (a b : List ObsH) (i : Nat := 0) : Option (Nat × String) :=
  match a, b with
  | [], [] => none
  | x :: xs, y :: ys => if x == y then firstDiffH xs ys (i+1) else some (i, s!"model={repr x} impl={repr y}")
  | x :: _, [] => some (i, s!"model={repr x} impl=<missing>")
  | [], y :: _ => some (i, s!"model=<missing> impl={repr y}")

def firstEscapeH (obs : List ObsH) : Option Exc :=
  match obs.find? escapesH with
  | some ob => (match ob.esc with | .exc e => some e | _ => none)
  | none => none

/-- the line after the history, as an observation: (status, what value() raised, clean, next computation ok) -/
def finalH? : Sexp → Option (Option Status × String × Nat × Nat)
  | .list [.atom "final", .list [.atom "status", st], .list [.atom "escaped", esc], .list [.atom "clean", c],
      .list [.atom "next", n]] => do
    some (status? st, toString esc, (← c.nat?), (← n.nat?))
  | _ => none

/-- the plain observer on the part of a history with hooks it can judge: histories WITHOUT hook actions and revisits are
    judged by `spec`; with them only the scheduler part (`specH`) and the final line are -/
def handleH (id : Nat) (hdr : List Sexp) (body : List Sexp) : String :=
  match hdr, (body.dropLast).mapM obsH?, body.getLast?.bind finalH? with
  | [t, c, v, .list (.atom "hooks" :: hs)], some impl, some (fst, fesc, fclean, fnext) =>
    match hdr? [t, c, v], hs.mapM hdef? with
    | some h, some hd =>
      if !wfH h.defs hd then s!"R {id} CORR=diff SPEC=ok SPECM=ok | ctxhist hooks: a member has hook actions of its own" else
      let ops := impl.map (·.op)
      let s0 := init h.defs h.nvars
      let model := runH (codeCfg h.typed) h.defs hd s0 ops
      let sf := finalStateH (codeCfg h.typed) h.defs hd s0 ops
      let corr := firstDiffH model impl
      let crashed := (firstEscapeH model).isSome
      let expEsc := match firstEscapeH model with
        | some e => excTok e
        | none => (match sf.status with | .err _ => "task-error" | _ => "none")
      let finCorr := fst == some sf.status && (fesc == expEsc || (expEsc == "other" && fesc.startsWith "other")) &&
        fclean == (if crashed then 0 else 1) && fnext == 1
      let spec0 := specClauseH impl
      let finSpec := fclean == 1 && fnext == 1 && (fesc == "none" || fesc == "task-error")
      let spec := if spec0 != "ok" then spec0 else if !finSpec then "nothing-else-escapes" else "ok"
      let specm := if specClauseH model != "ok" then specClauseH model else if crashed then "nothing-else-escapes" else "ok"
      let cstr := match corr with | none => (if finCorr then "ok" else "diff") | some _ => "diff"
      let d := match corr with
        | none => if finCorr then "" else s!"final line: model status {repr sf.status} escaped {expEsc} crashed {crashed}"
        | some (i, s) => (s!"obs {i}: {s}".replace "\n" " ")
      let f (s : String) := if s == "ok" then "ok" else "fail:" ++ s
      s!"R {id} CORR={cstr} SPEC={f spec} SPECM={f specm} | {d}"
    | _, _ => s!"R {id} CORR=diff SPEC=ok SPECM=ok | unparsable ctxhist hooks header"
  | _, _, _ => s!"R {id} CORR=diff SPEC=ok SPECM=ok | unparsable ctxhist hooks case"

def handle (id : Nat) (hdr : List Sexp) (body : List Sexp) : String :=
  if hdr.length == 4 then handleH id hdr body else handlePlain id hdr body

end AsynqModel.Drv.Contexts
