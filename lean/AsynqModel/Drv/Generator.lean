import AsynqModel.Sexp
import AsynqModel.Lib.Generator
/-! driver glue for mode `generator` (property C17) -/
namespace AsynqModel.Drv.Generator
open AsynqModel AsynqModel.Generator

def step? : Sexp → Option Step
  | .list [.atom "a", b] => b.bool?.map .await
  | .list [.atom "v", n] => n.nat?.map .value
  | .list [.atom "ve"] => some .valueEnd          -- yield Value(END_OF_GENERATOR)
  | _ => none

def adv? : Sexp → Option Adv
  | .list [.atom "next"] => some .next
  | .list [.atom "take", n] => n.nat?.map .take
  | .list [.atom "list"] => some .list
  | _ => none

def op? : Sexp → Option Op
  | .list [.atom "par", k, a] => do some (.par (← k.nat?) (← adv? a))
  | .list [.atom "next"] => some .next
  | .list [.atom "send"] => some .send
  | .list [.atom "compute", k] => k.nat?.map .compute
  | .list [.atom "take", n] => n.nat?.map .take
  | .list [.atom "list"] => some .list
  | _ => none

def annot? : Sexp → Option (Nat × Op)
  | .list [j, a] => do some ((← j.nat?), (← op? a))
  | _ => none

/-- header: `(body <step>...) (nest k)`, optionally followed by `(reent (j <advance>)...)`: the re-entrant advances
    the body attempts (before its j-th item) -/
def header? : List Sexp → Option (Body × Nat × List (Nat × Op))
  | [.list (.atom "body" :: steps), .list [.atom "nest", k]] => do some ((← steps.mapM step?), (← k.nat?), [])
  | [.list (.atom "body" :: steps), .list [.atom "nest", k], .list (.atom "reent" :: an)] => do
    some ((← steps.mapM step?), (← k.nat?), (← an.mapM annot?))
  | _ => none

def item? : Sexp → Option Item
  | .atom "end" => some .endMarker
  | n => n.nat?.map .val

def res? : Sexp → Option Res
  | .list [.atom "fut", .atom "none"] => some (.fut none)
  | .list [.atom "fut", x] => (item? x).map (fun v => .fut (some v))
  | .list [.atom "item", x] => (item? x).map .item
  | .list (.atom "lst" :: xs) => (xs.mapM item?).map .lst
  | .list [.atom "raised", .atom "StopIteration"] => some (.raised .stopIteration)
  | .list [.atom "raised", .atom "RuntimeError"] => some (.raised .runtimeError)
  | .list [.atom "raised", .atom "other", .atom "TypeError"] => some (.raised .typeError)
  | .list [.atom "raised", .atom "other", .atom "ValueError"] => some (.raised .valueError)
  | .list (.atom "raised" :: _) => some (.raised .other)
  | _ => none

def sib? : Sexp → Option (Option (Bool × Res))
  | .atom "-" => some none
  | .list [.atom "sib", d, r] => do some (some ((← d.bool?), (← res? r)))
  | _ => none

def obs? : Sexp → Option Obs
  | .list (.atom "obs" :: op :: r :: sib :: pos :: fin :: bad :: _) => do
    some { op := (← op? op), res := (← res? r), sib := (← sib? sib), pos := (← pos.nat?), fin := (← fin.bool?),
           bad := (← bad.nat?) }
  | _ => none

def reEvent? : Sexp → Option ReEvent
  | .list [j, a, r] => do some { j := (← j.nat?), a := (← op? a), res := (← res? r) }
  | _ => none

/-- optional extra fields of an observation (after `bad`), in any order:
    `(re p0 f0 (j <advance> <result>)...)` = items the underlying generator of the BODY has yielded / whether it ran off
    its end after the operation, and the re-entrant attempts made during it;
    `(inner p f p f ...)` = nested cases: items yielded / ran-off-its-end of every level BELOW the outermost generator,
    from level nest-1 down to the body (level 0) -/
def extras : Sexp → List Sexp
  | .list (.atom "obs" :: _ :: _ :: _ :: _ :: _ :: _ :: ex) => ex
  | _ => []

def reLog? (x : Sexp) : Option (Nat × Bool × List ReEvent) :=
  match (extras x).filter (fun e => match e with | .list (.atom "re" :: _) => true | _ => false), x with
  | [.list (.atom "re" :: p0 :: f0 :: evs)], _ => do some ((← p0.nat?), (← f0.bool?), (← evs.mapM reEvent?))
  | [], .list (.atom "obs" :: _ :: _ :: _ :: pos :: fin :: _) => do some ((← pos.nat?), (← fin.bool?), [])
  | _, _ => none

def pairs? : List Sexp → Option (List (Nat × Bool))
  | [] => some []
  | p :: f :: r => do some (((← p.nat?), (← f.bool?)) :: (← pairs? r))
  | _ => none

/-- `none` inside = the harness recorded no inner levels for this observation -/
def innerLog? (x : Sexp) : Option (Option (List (Nat × Bool))) :=
  match (extras x).filter (fun e => match e with | .list (.atom "inner" :: _) => true | _ => false) with
  | [.list (.atom "inner" :: r)] => (pairs? r).map some
  | [] => some none
  | _ => none

/-- nested generators: how far every level below the outermost one was advanced, against `innerLevels` evaluated at
    the outermost position `pos`/`fin` of the observation at the same index in `ref` (CORR: the model's run; SPEC: the
    implementation's own observations).  First failing observation. -/
def innerCheck (b0 : Body) (k : Nat) : List Obs → List (Option (List (Nat × Bool))) → Nat → Option (Nat × String)
  | o :: os, some l :: ls, i =>
    let e := innerLevels b0 k o.pos o.fin
    if l == e then innerCheck b0 k os ls (i + 1)
    else some (i, s!"levels below the outermost (pulled, finished), from level {k - 1} down to the body: expected {repr e} observed {repr l}")
  | _ :: os, none :: ls, i => innerCheck b0 k os ls (i + 1)
  | _, _, _ => none

def firstDiff (a b : List Obs) (i : Nat := 0) : Option (Nat × String) :=
  match a, b with
  | [], [] => none
  | x :: xs, y :: ys => if x == y then firstDiff xs ys (i+1) else some (i, s!"model={repr x} impl={repr y}")
  | x :: _, [] => some (i, s!"model={repr x} impl=<missing>")
  | [], y :: _ => some (i, s!"model=<missing> impl={repr y}")

def handle (id : Nat) (hdr : List Sexp) (body : List Sexp) : String :=
  match header? hdr, body.mapM obs?, body.mapM reLog?, body.mapM innerLog? with
  | some (b0, k, annot), some impl, some relog, some inner =>
    let b := wrapN k b0
    let ops := impl.map (·.op)
    let model := run (init b) ops
    let corr := firstDiff model impl
    -- a body with a Value(END_OF_GENERATOR) item is outside the statement of C17 (Theorems/C17.lean,
    -- `C17_marker_payload_unsatisfiable`): the correspondence is judged in full, the property only by the clauses
    -- that still make sense there (`outsideClause`)
    let judged := noMarker b0
    let spec0 := if judged then specClause b impl else outsideClause impl
    let specm := if judged then specClause b model else outsideClause model
    -- re-entrant advances attempted by the body: direct expectation (Lib/Generator.lean, `reenterExpected`); the
    -- model has no finer grain than the operation, so the same expectation serves for CORR and SPEC
    let noRe := annot.isEmpty && relog.all (fun x => x.2.2.isEmpty)
    let reCorr := if noRe then none else reenterRun true b0 annot 0 false relog     -- the code as it exists
    let reSpec := if noRe then none else reenterRun false b0 annot 0 false relog    -- what C17 demands
    -- nested generators: "without consuming more of the generator than needed" also for the INNER generators: the
    -- documented loop run over the model of the inner generator (`outerResume`, the machine `C17_nested_loop` is about)
    -- says how far every level below has been advanced (`innerLevels`; direct evaluation, no theorem)
    let inCorr := if k == 0 then none else innerCheck b0 k model inner 0
    let inSpec := if k == 0 then none else innerCheck b0 k impl inner 0
    let spec := if spec0 != "ok" then spec0 else
      (match reSpec with
        | some c => c
        | none => (match inSpec with
          | none => "ok"
          | some (i, _) => "nested-inner-consumed@" ++ (match impl[i]? with | some o => o.op.name | none => "?")))
    let c := match corr, reCorr, inCorr with | none, none, none => "ok" | _, _, _ => "diff"
    let d := (match corr with | none => "" | some (i, s) => (s!"obs {i}: {s}".replace "\n" " ")) ++
      (match reCorr with
        | none => ""
        | some c => s!" re-entrant advance from the body: {c} (log {repr (relog.map (·.2.2))})".replace "\n" " ") ++
      (match inCorr, inSpec with
        | some (i, s), _ => s!" nested, obs {i}: {s}".replace "\n" " "
        | none, some (i, s) => s!" nested (own position), obs {i}: {s}".replace "\n" " "
        | none, none => "") ++
      (if judged then "" else " [marker payload: outside C17, judged by correspondence + end-marker/await-result]")
    let f (s : String) := if s == "ok" then "ok" else "fail:" ++ s
    s!"R {id} CORR={c} SPEC={f spec} SPECM={f specm} | {d}"
  | _, _, _, _ => s!"R {id} CORR=diff SPEC=ok SPECM=ok | unparsable case"

end AsynqModel.Drv.Generator
