import AsynqModel.Sexp
import AsynqModel.Lib.Generator
/-! driver glue for mode `generator` (property C17) -/
namespace AsynqModel.Drv.Generator
open AsynqModel AsynqModel.Generator

def step? : Sexp → Option Step
  | .list [.atom "a", b] => b.bool?.map .await
  | .list [.atom "v", n] => n.nat?.map .value
  | .list [.atom "ve"] => some .valueEnd          -- yield Value(END_OF_GENERATOR)
  | _ => none

/-- header: `(body <step>...) (nest k)` -/
def header? : List Sexp → Option (Body × Nat)
  | [.list (.atom "body" :: steps), .list [.atom "nest", k]] => do some ((← steps.mapM step?), (← k.nat?))
  | _ => none

def adv? : Sexp → Option Adv
  | .list [.atom "next"] => some .next
  | .list [.atom "take", n] => n.nat?.map .take
  | .list [.atom "list"] => some .list
  | _ => none

def op? : Sexp → Option Op
  | .list [.atom "par", k, a] => do some (.par (← k.nat?) (← adv? a))
  | .list [.atom "next"] => some .next
  | .list [.atom "compute", k] => k.nat?.map .compute
  | .list [.atom "take", n] => n.nat?.map .take
  | .list [.atom "list"] => some .list
  | _ => none

def item? : Sexp → Option Item
  | .atom "end" => some .endMarker
  | n => n.nat?.map .val

def res? : Sexp → Option Res
  | .list [.atom "fut", .atom "none"] => some (.fut none)
  | .list [.atom "fut", x] => (item? x).map (fun v => .fut (some v))
  | .list [.atom "item", x] => (item? x).map .item
  | .list (.atom "lst" :: xs) => (xs.mapM item?).map .lst
  | .list [.atom "raised", .atom "StopIteration"] => some (.raised .stopIteration)
  | .list [.atom "raised", .atom "RuntimeError"] => some (.raised .runtimeError)
  | .list (.atom "raised" :: _) => some (.raised .other)
  | _ => none

def sib? : Sexp → Option (Option (Bool × Res))
  | .atom "-" => some none
  | .list [.atom "sib", d, r] => do some (some ((← d.bool?), (← res? r)))
  | _ => none

def obs? : Sexp → Option Obs
  | .list [.atom "obs", op, r, sib, pos, fin, bad] => do
    some { op := (← op? op), res := (← res? r), sib := (← sib? sib), pos := (← pos.nat?), fin := (← fin.bool?),
           bad := (← bad.nat?) }
  | _ => none

def firstDiff (a b : List Obs) (i : Nat := 0) : Option (Nat × String) :=
  match a, b with
  | [], [] => none
  | x :: xs, y :: ys => if x == y then firstDiff xs ys (i+1) else some (i, s!"model={repr x} impl={repr y}")
  | x :: _, [] => some (i, s!"model={repr x} impl=<missing>")
  | [], y :: _ => some (i, s!"model=<missing> impl={repr y}")

def handle (id : Nat) (hdr : List Sexp) (body : List Sexp) : String :=
  match header? hdr, body.mapM obs? with
  | some (b0, k), some impl =>
    let b := wrapN k b0
    let ops := impl.map (·.op)
    let model := run (init b) ops
    let corr := firstDiff model impl
    -- a body with a Value(END_OF_GENERATOR) item is outside the statement of C17 (Theorems/C17.lean,
    -- `C17_marker_payload_unsatisfiable`): the correspondence is judged in full, the property only by the clauses
    -- that still make sense there (`outsideClause`)
    let judged := noMarker b0
    let spec := if judged then specClause b impl else outsideClause impl
    let specm := if judged then specClause b model else outsideClause model
    let c := match corr with | none => "ok" | some _ => "diff"
    let d := (match corr with | none => "" | some (i, s) => (s!"obs {i}: {s}".replace "\n" " ")) ++
      (if judged then "" else " [marker payload: outside C17, judged by correspondence + end-marker/await-result]")
    let f (s : String) := if s == "ok" then "ok" else "fail:" ++ s
    s!"R {id} CORR={c} SPEC={f spec} SPECM={f specm} | {d}"
  | _, _ => s!"R {id} CORR=diff SPEC=ok SPECM=ok | unparsable case"

end AsynqModel.Drv.Generator
