import AsynqModel.Sexp
import AsynqModel.Lib.Mock
/-! driver glue for mode `mock` (property C19) -/
namespace AsynqModel.Drv.Mock
open AsynqModel AsynqModel.Mock

def desc? : Sexp → Option Desc
  | .atom "func" => some .func
  | .atom "cm" => some .cm
  | .atom "sm" => some .sm
  | _ => none

def tspec? : Sexp → Option TSpec
  | .list [.atom "tgt", k, h, v] => do
    let kind ← match k with
      | .atom "attr" => some TKind.attr
      | d => (desc? d).map TKind.asyncFn
    let host ← match h with
      | .atom "loc" => some Host.loc
      | .atom "inherited" => some Host.inherited
      | .atom "absent" => some Host.absent
      | _ => none
    let via ← match v with
      | .atom "plain" => some Via.plain
      | .atom "cls" => some Via.cls
      | .atom "inst" => some Via.inst
      | _ => none
    some { kind := kind, host := host, via := via }
  | _ => none

def env? : List Sexp → Option Env
  | [.list (.atom "targets" :: ts), .list [.atom "defaults", a, b]] => do
    some { targets := (← ts.mapM tspec?),
           defaults := { patchAutospecNone := (← a.bool?), objectAutospecNone := (← b.bool?) } }
  | _ => none

def repl? : Sexp → Option Repl
  | .atom "default" => some .default
  | .atom "func" => some .func
  | .atom "cmobj" => some .cmobj
  | .atom "smobj" => some .smobj
  | .atom "bound" => some .bound
  | .atom "callobj" => some .callobj
  | .atom "sealed" => some .sealed
  | .atom "value" => some .value
  | .list [.atom "newCallable", b] => b.bool?.map .newCallable
  | .list [.atom "asyncFn", d] => (desc? d).map .asyncFn
  | _ => none

def rkind? : Sexp → Option RKind
  | .atom "plain" => some .plain
  | .atom "none" => some .none
  | .atom "falsy" => some .falsy
  | .atom "constFuture" => some .constFuture
  | .atom "lazyFuture" => some .lazyFuture
  | .atom "errorFuture" => some .errorFuture
  | .atom "task" => some .task
  | .atom "excInstance" => some .excInstance
  | .atom "exotic" => some .exotic
  | .atom "container" => some .container
  | _ => none

def ekind? : Sexp → Option EKind
  | .atom "exception" => some .exception
  | .atom "baseOnly" => some .baseOnly
  | .atom "falsy" => some .falsy
  | .atom "builtinSub" => some .builtinSub
  | _ => none

def behav? : Sexp → Option Behav
  | .list [.atom "ret", n] => n.nat?.map (Behav.ret · .plain)
  | .list [.atom "ret", n, k] => do some (.ret (← n.nat?) (← rkind? k))
  | .list [.atom "raise", n] => n.nat?.map (Behav.raise · .exception)
  | .list [.atom "raise", n, k] => do some (.raise (← n.nat?) (← ekind? k))
  | .list [.atom "sync", n] => n.nat?.map Behav.syncCall
  | _ => none

def kw? : Sexp → Option (List (Nat × Nat))
  | .list l => l.mapM fun
    | .list [k, v] => do some ((← k.nat?), (← v.nat?))
    | _ => none
  | _ => none

def op? : Sexp → Option Op
  | .list [.atom "construct", p, t, r, c, a, o, b] => do
    some (.construct (← p.nat?) { target := (← t.nat?), repl := (← repl? r), create := (← c.bool?),
                                  autospecNone := (← a.bool?), viaObject := (← o.bool?), behav := (← behav? b) })
  | .list [.atom "construct", p, t, r, c, a, o, b, .list [.atom "share", q]] => do
    some (.construct (← p.nat?) { target := (← t.nat?), repl := (← repl? r), create := (← c.bool?),
                                  autospecNone := (← a.bool?), viaObject := (← o.bool?), behav := (← behav? b),
                                  share := some (← q.nat?) })
  | .list [.atom "enter", p] => p.nat?.map .enter
  | .list [.atom "exit", p, e] => do some (.exit (← p.nat?) (← e.bool?))
  | .list [.atom "start", p] => p.nat?.map .start
  | .list [.atom "stop", p] => p.nat?.map .stop
  | .list [.atom "stopall"] => some .stopall
  | .list [.atom "call", t, a, k] => do some (.call (← t.nat?) (← a.natList?) (← kw? k))
  | .list [.atom "peek"] => some .peek
  | .list [.atom "rebind", s, t] => do some (.rebind (← s.nat?) (← t.nat?))
  | _ => none

def objId? : Sexp → Option ObjId
  | .list [.atom "orig", t] => t.nat?.map .orig
  | .list [.atom "given", p] => p.nat?.map .given
  | .list (.atom "made" :: p :: n :: _) => do some (.made (← p.nat?) (← n.nat?))
  | .list [.atom "unknown"] => some .unknown
  | _ => none

def tag? : Sexp → Option Tag
  | .atom "mock" => some .mock
  | .atom "pair" => some .pair
  | .atom "wrapper" => some .wrapper
  | .atom "fresh" => some .fresh
  | _ => none

def tok? : Sexp → Option Tok
  | .list [.atom "orig", t] => t.nat?.map fun t => { id := .orig t, tag := .orig }
  | .list [.atom "given", p] => p.nat?.map fun p => { id := .given p, tag := .asis }
  | .list [.atom "made", p, n, g] => do some { id := .made (← p.nat?) (← n.nat?), tag := (← tag? g) }
  | .list [.atom "unknown"] => some { id := .unknown, tag := .asis }
  | _ => none

def peek? : Sexp → Option (Option Tok)
  | .atom "none" => some none
  | s => (tok? s).map some

def exc? : List Sexp → Exc
  | [.atom "user", n] => match n.nat? with | some e => .user e .exception | none => .other
  | [.atom "user", n, k] => match n.nat?, ekind? k with | some e, some k => .user e k | _, _ => .other
  | [.atom "typeError"] => .typeError
  | [.atom "attributeError"] => .attributeError
  | [.atom "valueError"] => .valueError
  | [.atom "runtimeError"] => .runtimeError
  | _ => .other

def out? : Sexp → Option Out
  | .list [.atom "ok", r] => r.nat?.map (Out.ok · .plain)
  | .list [.atom "ok", r, k] => do some (.ok (← r.nat?) (← rkind? k))
  | .list (.atom "raised" :: x) => some (.raised (exc? x))
  | _ => none

def callRec? : Sexp → Option CallRec
  | .list [c, a, k] => do some { callee := (← objId? c), args := (← a.natList?), kw := (← kw? k) }
  | _ => none

def convRes? : Sexp → Option ConvRes
  | .list [o, .list cs] => do some { out := (← out? o), calls := (← cs.mapM callRec?) }
  | _ => none

def res? : Sexp → Option Res
  | .list [.atom "made"] => some .made
  | .list [.atom "entered", o] => (tok? o).map .entered
  | .list (.atom "raised" :: x) => some (.raised (exc? x))
  | .list [.atom "exited", b] => b.bool?.map .exited
  | .list [.atom "stopped"] => some .stopped
  | .list [.atom "notActive"] => some .notActive
  | .list [.atom "unit"] => some .unit
  | .list [.atom "skipped"] => some .skipped
  | .list [.atom "noPatcher"] => some .noPatcher
  | .list (.atom "called" :: rs) => (rs.mapM convRes?).map .called
  | _ => none

def obs? : Sexp → Option Obs
  | .list [.atom "obs", op, r, .list ps] => do
    some { op := (← op? op), res := (← res? r), peeks := (← ps.mapM peek?) }
  | _ => none

def firstDiff (a b : List Obs) (i : Nat := 0) : Option (Nat × String) :=
  match a, b with
  | [], [] => none
  | x :: xs, y :: ys => if x == y then firstDiff xs ys (i+1) else some (i, s!"model={repr x} impl={repr y}")
  | x :: _, [] => some (i, s!"model={repr x} impl=<missing>")
  | [], y :: _ => some (i, s!"model=<missing> impl={repr y}")

def handle (id : Nat) (hdr : List Sexp) (body : List Sexp) : String :=
  match env? hdr, body.mapM obs? with
  | some env, some impl =>
    let ops := impl.map (·.op)
    let model := run env ops
    let corr := firstDiff model impl
    let spec := specClause env impl
    let specm := specClause env model
    let c := match corr with | none => "ok" | some _ => "diff"
    let d := match corr with | none => "" | some (i, s) => (s!"obs {i}: {s}".replace "\n" " ")
    let f (s : String) := if s == "ok" then "ok" else "fail:" ++ s
    s!"R {id} CORR={c} SPEC={f spec} SPECM={f specm} | {d}"
  | _, _ => s!"R {id} CORR=diff SPEC=ok SPECM=ok | unparsable case"

/-! mode `mockfail` (family `enterfail`): a new_callable product that `__enter__` cannot decorate; judged by the small
    model `AsynqModel.Mock.EnterFail` -/
open AsynqModel.Mock.EnterFail in
def handleFail (id : Nat) (hdr : List Sexp) (body : List Sexp) : String :=
  let prod? : Option Product := match hdr with
    | .atom "accepting" :: _ :: _ => some .accepting
    | .atom "rejecting" :: _ :: _ => some .rejecting
    | .atom "noncallable" :: _ :: _ => some .noncallable
    | _ => none
  let style? : Option Style := match hdr with
    | _ :: .atom "with" :: _ => some .withBlock
    | _ :: .atom "deco" :: _ => some .deco
    | _ :: .atom "classdeco" :: _ => some .classDeco
    | _ :: .atom "start-stop" :: _ => some .startStop
    | _ :: .atom "start-stopall" :: _ => some .startStopall
    | _ => none
  -- round 5: the class of the exception the product's `__setattr__` raises (third header field; absent = AttributeError)
  let exc? : Option ExcClass := match hdr with
    | [_, _] => some .attributeError
    | _ :: _ :: .atom "attributeError" :: _ => some .attributeError
    | _ :: _ :: .atom "typeError" :: _ => some .typeError
    | _ :: _ :: .atom "attrSub" :: _ => some .attrSub
    | _ :: _ :: .atom "valueError" :: _ => some .valueError
    | _ :: _ :: .atom "lookupSub" :: _ => some .lookupSub
    | _ :: _ :: .atom "runtimeError" :: _ => some .runtimeError
    | _ :: _ :: .atom "falsyExc" :: _ => some .falsyExc
    | _ :: _ :: .atom "baseOnly" :: _ => some .baseOnly
    | _ => none
  let held? : Sexp → Option Held := fun
    | .atom "orig" => some .orig
    | .atom "product" => some .product
    | .atom "other" => some .other
    | _ => none
  let obs? : Option EnterFail.Obs := match body with
    | [.list [.atom "obs", e, d, a]] => do
      let during ← match d with
        | .atom "none" => some none
        | x => (held? x).map some
      some { entered := (← e.bool?), during := during, after := (← held? a) }
    | _ => none
  match prod?, style?, obs?, exc? with
  | some prod, some style, some impl, some exc =>
    -- the code as it is: `__enter__` undoes the patch when attaching fails, whatever the exception (`except BaseException`)
    let model := EnterFail.runWith EnterFail.catchAll prod exc style
    let c := if model == impl then "ok" else "diff"
    let d := if model == impl then "" else (s!"model={repr model} impl={repr impl}".replace "\n" " ")
    let f (s : String) := if s == "ok" then "ok" else "fail:" ++ s
    s!"R {id} CORR={c} SPEC={f (EnterFail.specClause impl)} SPECM={f (EnterFail.specClause model)} | {d}"
  | _, _, _, _ => s!"R {id} CORR=diff SPEC=ok SPECM=ok | unparsable mockfail case"

end AsynqModel.Drv.Mock
