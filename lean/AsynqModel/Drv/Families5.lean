/-
  Direct-expectation families of the core checks, as repaired after the SECOND audit of the core (audit/AUDIT2-core.md items
  3, 4, 6, 7): the verdict is computed HERE from the case description in the header and the raw observations in the body -
  "scheduler clean" includes `TaskScheduler._batches`, the context family judges the hook calls (C06), resetbetween /
  longloop / chain judge identities, outcomes, values and the recursion limit in force, optpair refuses empty or unparsable
  observations.  No theorem speaks about these families (DESIGN.md 10.8); only the driver uses this file.
-/
import AsynqModel.Sexp
import AsynqModel.Drv.Families4
namespace AsynqModel.Drv.Families5
open AsynqModel AsynqModel.Drv.Families4

/-- `(clean c nb live)`: no task on the stack and no active task (c = 1), no entry in `_batches`, no live (unflushed,
    non-empty) batch -/
def schedClean : Sexp → Bool
  | .list [.atom "clean", c, nb, live] => c.nat? == some 1 && nb.nat? == some 0 && live.nat? == some 0
  | _ => false

/-- the same without the batches (for the one family in which a retained batch is a RECORDED finding with a clause of its own) -/
def tasksClean : Sexp → Bool
  | .list [.atom "clean", c, _, _] => c.nat? == some 1
  | _ => false

def noBatches : Sexp → Bool
  | .list [.atom "clean", _, nb, live] => nb.nat? == some 0 && live.nat? == some 0
  | _ => false

def a (s : String) : Sexp := .atom s

/-! ### chain (C03): n tasks each awaiting the next, run under the interpreter's DEFAULT recursion limit -/
def chain (id : Nat) (hdr body : List Sexp) : String :=
  match hdr, body with
  | [n, .atom kind], [.list [.atom "result", .atom st, v, fl, clean, .list [.atom "limit", lim]]] =>
    firstBad id [
      (st == "ok" && v.nat? == n.nat? && fl.nat? == some (if kind == "item" then 1 else 0), s!"deep-chain-{st}",
        s!"chain of {n} tasks: {st}, value {v}, {fl} flushes"),
      (schedClean clean, "deep-chain-scheduler-not-clean", s!"{clean}"),
      ((lim.nat?.getD 0) ≤ 1000 && (lim.nat?.getD 0) > 0, "deep-chain-not-run-under-the-default-recursion-limit", s!"limit {lim}")]
  | _, _ => unparsable id "chain"

/-! ### ctxraise (C08 / C06): a context hook raises while its task is suspended / continued -/

/-- the calls the well-behaved context next to the raising one must have got, and the (resume, pause) counts of the raising
    one, as a function of the case: `when = pause`: entered (R), paused for the suspension (P; the raising pause fails the
    task; the blocks are left by generator.close() WITHOUT a second pause); `when = resume`: R P, resumed for the
    continuation (R; the raising resume fails the task), paused once more when generator.close() leaves the blocks (P) -/
def ctxraiseCalls (when_ : String) (nest : Nat) : List Sexp × Nat × Nat :=
  let log := if nest == 0 then [] else if when_ == "pause" then [a "R", a "P"] else [a "R", a "P", a "R", a "P"]
  if when_ == "pause" then (log, 1, 1) else (log, 2, 2)

/-- resume and pause strictly alternate, starting with a resume, ending with a pause (each pause once) -/
def alternating : List Sexp → Bool
  | [] => true
  | .atom "R" :: .atom "P" :: rest => alternating rest
  | _ => false

def ctxraise (id : Nat) (hdr body : List Sexp) : String :=
  match hdr, body with
  | [.atom when_, nest, .atom h, _, _second, .atom pid],
    [.list [.atom "result", .atom out, clean, .list [.atom "batches", nb, live], nxt, .list (.atom "plain" :: log),
      .list [.atom "raising", rr, rp]]] =>
    let expected := if h == "1" then "handled" else "raised-boom"
    let (expLog, expR, expP) := ctxraiseCalls when_ (natOf nest)
    firstBad id [
      -- the error of a SECOND hook (pause() of the well-behaved context, raised while generator.close() leaves the blocks
      -- of the task the raising resume() has just failed) left the scheduler instead of the task's own failure
      (out != "raised-boom2" && out != "handled-boom2", "hook-error-escapes-scheduler@continue",
        s!"outcome {out}, expected {expected}; tasks/active clean {clean}, next computation {nxt}"),
      (out == expected && clean.nat? == some 1 && nxt.nat? == some 1, s!"context-hook-error-{out}-clean{clean}-next{nxt}",
        s!"expected {expected}, clean scheduler, next computation ok"),
      (alternating log, "context-hook-calls-do-not-alternate", s!"well-behaved context got {Sexp.list log}"),
      (log == expLog && rr.nat? == some expR && rp.nat? == some expP, "context-hook-calls-differ",
        s!"well-behaved context got {Sexp.list log}, expected {Sexp.list expLog}; raising context resume/pause counts {rr}/{rp}, expected {expR}/{expP}"),
      -- (the scheduler's state after the outcome is C08's business; the C06 check judges the hook calls)
      (pid != "C08" || (nb.nat? == some 0 && live.nat? == some 0), "scheduler-retains-pending-batch", s!"{nb} batches scheduled, {live} live")]
  | _, _ => unparsable id "ctxraise"

/-! ### resetbetween (C08): asynq.scheduler.reset() between creating a task and computing it -/
def resetbetween (id : Nat) (hdr body : List Sexp) : String :=
  match hdr, body with
  | [_resets, sync], [.list [.atom "result", .atom out, .list (.atom "seen" :: seen), v, clean]] =>
    -- T = the task under test, I = the task it awaited, new = the task of the synchronous call: inside the code of each
    -- of them get_active_task() is that task, and it is T again after the await and after the nested call
    let expSeen := [a "T", a "I", a "T"] ++ (if sync.nat? == some 1 then [a "new", a "after-sync", a "T"] else [])
    firstBad id [
      (out == "returned" && v.nat? == some 1, s!"active-task-after-scheduler-reset-{out}", s!"value {v}"),
      (seen == expSeen, "active-task-after-scheduler-reset-wrong-active-task", s!"expected {Sexp.list expSeen}, got {Sexp.list seen}"),
      (schedClean clean, "active-task-after-scheduler-reset-scheduler-not-clean", s!"{clean}")]
  | _, _ => unparsable id "resetbetween"

/-! ### longloop (C03): one task yielding n computed futures in a row, a chain of n tasks; default recursion limit -/
def longloop (id : Nat) (hdr body : List Sexp) : String :=
  match hdr, body with
  | [n], [.list [.atom "result", .atom out, .list [.atom "values", va, vb, vc], .list [.atom "resumed", r1, r2],
      .list [.atom "limit", lim], .list [.atom "depth", d1, d2]]] =>
    let nn := n.nat?
    firstBad id [
      (out == "returned", s!"long-loop-does-not-terminate-normally-{out}", s!"{n} yields under recursion limit {lim}"),
      (va.nat? == nn && vb.nat? == nn && vc.nat? == nn, "long-loop-wrong-values", s!"({va} {vb} {vc}), expected {n} each"),
      (r1.nat? == nn && r2.nat? == nn, "long-loop-not-resumed-once-per-yield", s!"resumed {r1} and {r2} times for {n} yields"),
      ((lim.nat?.getD 0) ≤ 1000 && (lim.nat?.getD 0) > 0,
        "long-loop-not-run-under-the-default-recursion-limit", s!"limit {lim}, n {n}"),
      -- the interpreter stack at a resumption / at the start of a task of the chain does not grow with the computation
      ((d1.nat?.getD 0) ≤ 150 && (d2.nat?.getD 0) ≤ 150, "long-loop-interpreter-stack-grows-with-the-computation",
        s!"deepest stack {d1} frames at a resumption of the loop, {d2} at a start in the chain")]
  | _, _ => unparsable id "longloop"

/-! ### optpair (C20 with a public flush hook): the run under options equals the run without, event for event -/
def isBadLine : Sexp → Bool
  | .list (.atom "bad" :: _) | .list [.atom "unparsable"] => true
  | .atom _ => true
  | _ => false

def optpair (id : Nat) (body : List Sexp) : String :=
  let sep := Sexp.list [.atom "sep"]
  let x := body.takeWhile (· != sep)
  let y := (body.dropWhile (· != sep)).drop 1
  if x.isEmpty || !body.contains sep then bad id "options-pair-produced-no-observation" ""
  else if (x ++ y).any isBadLine then bad id "options-pair-unreadable-observation" s!"{(x ++ y).find? isBadLine}"
  else if x == y then good id
  else
    let i := ((x.zip y).takeWhile fun (p, q) => p == q).length
    bad id "options-change-behaviour-with-flush-hooks" s!"first difference at event {i}: {x[i]?.map toString} vs {y[i]?.map toString}"

end AsynqModel.Drv.Families5
