import AsynqModel.Sexp
import AsynqModel.Core.Machine
import AsynqModel.Core.Wire
import AsynqModel.Core.Spec
/-! driver glue for mode `core` (properties C01-C08): replay a program in the machine with the implementation's
    flush choices, diff the traces event by event (projected to the events the property reads), evaluate the
    property's Spec observer on the implementation trace and on the model trace -/
namespace AsynqModel.Drv.Core
open AsynqModel AsynqModel.Core AsynqModel.Core.Wire

/-- the events a property's statement talks about (a disagreement elsewhere is not charged to it) -/
def project (prop : String) (e : Event) : Option Event :=
  let core : Option Event := match e with
    | .top .. | .new .. | .run .. | .yield .. | .ret .. | .syncE .. | .syncX .. | .bad .. => some e
    | .done .. => some e
    | _ => none
  match prop with
  | "C01" => (match e with
    | .read .. | .ctxN .. | .ctxX .. => some e
    | _ => core)
  | "C02" | "C03" => core
  | "C04" => (match e with
    | .flushB k q its _ _ => some (.flushB k q its (0, 0) [])
    | .flushI .. => some e
    | _ => core)
  | "C05" => (match e with
    | .flushB .. | .flushI .. | .flushE .. | .bdone .. | .done .. | .new .. | .top .. | .ret .. | .syncE .. | .syncX .. | .bad .. => some e
    | _ => none)
  | "C06" => (match e with
    | .ctx .. | .ctxN .. | .ctxX .. | .run .. | .yield .. | .syncE .. | .syncX .. | .top .. | .ret .. | .bad .. => some e
    | .flushB k q its _ _ => some (.flushB k q its (0, 0) [])
    | _ => none)
  | "C07" => (match e with
    | .ctx .. | .ctxN .. | .ctxX .. | .read .. | .svals .. | .run .. | .top .. | .ret .. | .bad .. => some e
    | _ => none)
  | "C08" => (match e with
    | .active .. | .sched .. | .top .. | .ret .. | .new .. | .syncE .. | .syncX .. | .bad .. => some e
    | _ => none)
  | _ => some e

def firstDiff (m i : List Event) (n : Nat := 0) : Option (Nat × String) :=
  match m, i with
  | [], [] => none
  | x :: xs, y :: ys => if x == y then firstDiff xs ys (n+1) else some (n, s!"model={eventStr x} impl={eventStr y}")
  | x :: _, [] => some (n, s!"model={eventStr x} impl=<end of trace>")
  | [], y :: _ => some (n, s!"model=<end of trace> impl={eventStr y}")

def choicesOf (tr : List Event) : List (Nat × Nat) :=
  tr.filterMap fun | .flushB k q _ _ _ => some (k, q) | _ => none

def handle (id : Nat) (hdr : List Sexp) (body : List Sexp) : String :=
  match hdr with
  | [.atom prop, c, t] =>
    match cfg? c, tops? t with
    | some cfg, some tops =>
      let impl := body.map event?
      let s0 := initState cfg tops (choicesOf impl)
      let s := runFuel (200 * impl.length + 100000) s0
      let model := s.trace.reverse
      let stuck := match s.stuck with | some m => s!" model-stuck: {m}" | none => (if s.isDone then "" else " model-out-of-fuel")
      let corr := firstDiff (model.filterMap (project prop)) (impl.filterMap (project prop))
      let cx := Spec.mkCtx cfg tops
      let c := match corr with | none => (if stuck.isEmpty then "ok" else "diff") | some _ => "diff"
      let d := match corr with | none => stuck | some (i, msg) => s!"projected event {i}: {msg}{stuck}"
      let sp := match Spec.spec prop cx impl with
        | none => ("ok", "")
        | some (i, msg) => (s!"fail:{msg}", s!" spec: event {i} {(impl[i]?.map eventStr).getD ""}")
      let spm := match Spec.spec prop cx model with
        | none => "ok"
        | some (_, msg) => s!"fail:{msg}"
      s!"R {id} CORR={c} SPEC={sp.1} SPECM={spm} | {d}{sp.2}"
    | _, _ => s!"R {id} CORR=diff SPEC=ok SPECM=ok | unparsable cfg/tops"
  | _ => s!"R {id} CORR=diff SPEC=ok SPECM=ok | unparsable header"

end AsynqModel.Drv.Core
