import AsynqModel.Sexp
import AsynqModel.Core.Machine
import AsynqModel.Core.Wire
/-! driver glue for mode `core` (properties C01-C08, C20): replay a program in the machine with the implementation's
    flush choices, diff the traces event by event, evaluate the property's Spec predicate on the implementation trace -/
namespace AsynqModel.Drv.Core
open AsynqModel AsynqModel.Core AsynqModel.Core.Wire

def firstDiff (m i : List Event) (n : Nat := 0) : Option (Nat × String) :=
  match m, i with
  | [], [] => none
  | x :: xs, y :: ys => if x == y then firstDiff xs ys (n+1) else some (n, s!"model={eventStr x} impl={eventStr y}")
  | x :: _, [] => some (n, s!"model={eventStr x} impl=<end of trace>")
  | [], y :: _ => some (n, s!"model=<end of trace> impl={eventStr y}")

def choicesOf (tr : List Event) : List (Nat × Nat) :=
  tr.filterMap fun | .flushB k q _ _ _ => some (k, q) | _ => none

def handle (id : Nat) (hdr : List Sexp) (body : List Sexp) : String :=
  match hdr with
  | [.atom _prop, c, t] =>
    match cfg? c, tops? t with
    | some cfg, some tops =>
      let impl := body.map event?
      let s0 := initState cfg tops (choicesOf impl)
      let s := runFuel (200 * impl.length + 100000) s0
      let model := s.trace.reverse
      let stuck := match s.stuck with | some m => s!" model-stuck: {m}" | none => (if s.isDone then "" else " model-out-of-fuel")
      let corr := firstDiff model impl
      let c := match corr with | none => (if stuck.isEmpty then "ok" else "diff") | some _ => "diff"
      let d := match corr with | none => stuck | some (i, msg) => s!"event {i}: {msg}{stuck}"
      s!"R {id} CORR={c} SPEC=ok SPECM=ok | {d}"
    | _, _ => s!"R {id} CORR=diff SPEC=ok SPECM=ok | unparsable cfg/tops"
  | _ => s!"R {id} CORR=diff SPEC=ok SPECM=ok | unparsable header"

end AsynqModel.Drv.Core
