import AsynqModel.Sexp
import AsynqModel.Core.Machine
import AsynqModel.Core.Wire
import AsynqModel.Core.Spec
import AsynqModel.Core.Inv
import AsynqModel.Proofs.P26Strict
/-! driver glue for mode `core` (properties C01-C08): replay a program in the machine with the implementation's
    flush choices, diff the traces event by event (projected to the events the property reads), evaluate the
    property's Spec observer on the implementation trace and on the model trace -/
namespace AsynqModel.Drv.Core
open AsynqModel AsynqModel.Core AsynqModel.Core.Wire

/-- the events a property's statement talks about (a disagreement elsewhere is not charged to it) -/
def project (prop : String) (e : Event) : Option Event :=
  let core : Option Event := match e with
    | .top .. | .new .. | .run .. | .yield .. | .ret .. | .syncE .. | .syncX .. | .bad .. => some e
    | .done .. => some e
    | _ => none
  match prop with
  | "C01" => (match e with
    | .read .. | .ctxN .. | .ctxX .. => some e
    | _ => core)
  | "C02" | "C03" => core
  | "C04" => (match e with
    | .flushB k q its _ _ => some (.flushB k q its (0, 0) [])
    | .flushI .. => some e
    | _ => core)
  | "C05" => (match e with
    | .flushB .. | .flushI .. | .flushE .. | .bdone .. | .done .. | .new .. | .top .. | .ret .. | .syncE .. | .syncX .. | .bad .. => some e
    | _ => none)
  | "C06" => (match e with
    | .ctx .. | .ctxN .. | .ctxX .. | .run .. | .yield .. | .syncE .. | .syncX .. | .top .. | .ret .. | .bad .. => some e
    | .flushB k q its _ _ => some (.flushB k q its (0, 0) [])
    | _ => none)
  | "C07" => (match e with
    | .ctx .. | .ctxN .. | .ctxX .. | .read .. | .svals .. | .run .. | .top .. | .ret .. | .bad .. => some e
    | _ => none)
  | "C08" => (match e with
    | .active .. | .sched .. | .top .. | .ret .. | .new .. | .syncE .. | .syncX .. | .bad .. => some e
    | _ => none)
  | _ => some e

def firstDiff (m i : List Event) (n : Nat := 0) : Option (Nat × String) :=
  match m, i with
  | [], [] => none
  | x :: xs, y :: ys => if x == y then firstDiff xs ys (n+1) else some (n, s!"model={eventStr x} impl={eventStr y}")
  | x :: _, [] => some (n, s!"model={eventStr x} impl=<end of trace>")
  | [], y :: _ => some (n, s!"model=<end of trace> impl={eventStr y}")

def choicesOf (tr : List Event) : List (Nat × Nat) :=
  tr.filterMap fun | .flushB k q _ _ _ => some (k, q) | _ => none

/-- The flush-count clause of C04 is a theorem (`C04_flush_count`) for NonAsync-free programs while the stack guard has
    not fired; the machine-checked counterexamples `C04b_nonasync_counterexample` / `C04b_guard_counterexample` show that
    the count legitimately differs otherwise, so the clause is not evaluated on such runs. -/
def specFor (prop : String) (cx : Spec.Ctx) (guard : Bool) (tr : List Event) : Option (Nat × String) :=
  -- C06 is judged by the STRICT observer (P26.checkC06strict: for tree-shaped programs an open context of a task that awaits the
  -- running task must be resumed; Spec_C06strict_accepts proves it accepts every machine trace, checkC06strict_of_checkC06 that
  -- it rejects whatever Spec.checkC06 rejects)
  match (if prop == "C06" then Spec.specRun P26.checkC06strict cx {} 0 tr else Spec.spec prop cx tr) with
  | some (i, msg) =>
    if msg == "flush-count-differs-from-longest-chain" && (cx.hasNonAsync || guard) then none else some (i, msg)
  | none => none

/-- did the MAX_TASK_STACK_SIZE guard reset the scheduler in this run, and where?  Read off the IMPLEMENTATION's observations:
    the index of the first event that carries the outcome `(err (stackguard))`.  The markers put into the verdict's detail
    (`[guard-reset]`: the guard fired; `[spec-after-reset]`: the event the observer rejects is that event or a later one) are what
    the harness turns into the signature suffix `/after-MAX_TASK_STACK_SIZE-reset` (corecommon.signature_for). -/
def isGuardEvent : Event → Bool
  | .ret (.err .stackguard) | .syncX _ _ (.err .stackguard) | .done _ (.err .stackguard)
  | .run _ _ _ (.out (.err .stackguard)) => true
  | _ => false

def guardIndex (tr : List Event) : Option Nat :=
  let n := (tr.takeWhile fun e => !isGuardEvent e).length
  if n < tr.length then some n else none

def guardMark (tr : List Event) (failAt : Option Nat) : String :=
  match guardIndex tr, failAt with
  | some g, some i => if i ≥ g then " [guard-reset] [spec-after-reset]" else " [guard-reset]"
  | some _, none => " [guard-reset]"
  | none, _ => ""

def handle (id : Nat) (hdr : List Sexp) (body : List Sexp) : String :=
  match hdr with
  | [.atom prop, c, t] =>
    match cfg? c, tops? t with
    | some cfg, some tops =>
      let impl := body.map event?
      let s0 := initState cfg tops (choicesOf impl)
      let s := runFuel (200 * impl.length + 100000) s0
      let model := s.trace.reverse
      let stuck := match s.stuck with | some m => s!" model-stuck: {m}" | none => (if s.isDone then "" else " model-out-of-fuel")
      let corr := firstDiff (model.filterMap (project prop)) (impl.filterMap (project prop))
      let cx := Spec.mkCtx cfg tops
      let c := match corr with | none => (if stuck.isEmpty then "ok" else "diff") | some _ => "diff"
      let d := match corr with | none => stuck | some (i, msg) => s!"projected event {i}: {msg}{stuck}"
      let spf := specFor prop cx s.guardFired impl
      let sp := match spf with
        | none => ("ok", "")
        | some (i, msg) => (s!"fail:{msg}", s!" spec: event {i} {(impl[i]?.map eventStr).getD ""}")
      let spm := match specFor prop cx s.guardFired model with
        | none => "ok"
        | some (_, msg) => s!"fail:{msg}"
      s!"R {id} CORR={c} SPEC={sp.1} SPECM={spm} | {d}{sp.2}{guardMark impl (spf.map (·.1))}"
    | _, _ => s!"R {id} CORR=diff SPEC=ok SPECM=ok | unparsable cfg/tops"
  | _ => s!"R {id} CORR=diff SPEC=ok SPECM=ok | unparsable header"

/-- split the body of a `core20` case at `(sep)` -/
def splitSep (l : List Sexp) (acc : List Sexp := []) : List Sexp × List Sexp :=
  match l with
  | [] => (acc.reverse, [])
  | .list [.atom "sep"] :: rest => (acc.reverse, rest)
  | x :: rest => splitSep rest (x :: acc)

/-- mode `core20` (C20): trace under default options, `(sep)`, trace under debug options -/
def handle20 (id : Nat) (hdr : List Sexp) (body : List Sexp) : String :=
  match hdr with
  | [.atom _, c, t] =>
    match cfg? c, tops? t with
    | some cfg, some tops =>
      let (b0, b1) := splitSep body
      let impl0 := b0.map event?
      let impl1 := b1.map event?
      -- the model under the options' configuration (KEEP_DEPENDENCIES) and under the default configuration
      let s1 := runFuel (200 * impl1.length + 100000) (initState cfg tops (choicesOf impl1))
      let s0 := runFuel (200 * impl0.length + 100000) (initState { cfg with keepDeps := false } tops (choicesOf impl0))
      let m1 := s1.trace.reverse
      let m0 := s0.trace.reverse
      -- KEEP_DEPENDENCIES keeps the items of flushed batches: the item counts of flushed batches in the pending
      -- snapshot are diagnostic residue, not behaviour
      let norm (e : Event) : Event := match e with
        | .flushB k q its p pend => .flushB k q its p ((pend.filter fun x => !x.flushed))
        | .sched same n _ live a => .sched same n 0 live a
        | e => e
      let stuck := match s1.stuck with | some m => s!" model-stuck: {m}" | none => (if s1.isDone then "" else " model-out-of-fuel")
      let corr := firstDiff (m1.map norm) (impl1.map norm)
      let cstr := match corr with | none => (if stuck.isEmpty then "ok" else "diff") | some _ => "diff"
      let d := match corr with | none => stuck | some (i, msg) => s!"event {i}: {msg}{stuck}"
      let spf := firstDiff (impl0.map norm) (impl1.map norm)
      -- (a difference at or after the first guard event of EITHER run counts as "after the reset")
      let failAt : Option Nat := spf.map fun (x : Nat × String) => x.1
      let gmark := match guardIndex impl0, guardIndex impl1 with
        | some g0, some g1 => guardMark (if g0 ≤ g1 then impl0 else impl1) failAt
        | some _, none => guardMark impl0 failAt
        | none, _ => guardMark impl1 failAt
      let sp := match spf with
        | none => ("ok", "")
        | some (i, msg) => ("fail:behaviour-changes-under-debug-options", s!" spec: event {i}: default(model=)/options(impl=): {msg}")
      let spm := match firstDiff (m0.map norm) (m1.map norm) with
        | none => "ok"
        | some _ => "fail:behaviour-changes-under-debug-options"
      s!"R {id} CORR={cstr} SPEC={sp.1} SPECM={spm} | {d}{sp.2}{gmark}"
    | _, _ => s!"R {id} CORR=diff SPEC=ok SPECM=ok | unparsable cfg/tops"
  | _ => s!"R {id} CORR=diff SPEC=ok SPECM=ok | unparsable header"

/-- mode `coredump` (debugging aid): print the model's trace for the implementation's flush choices -/
def handleDump (id : Nat) (hdr : List Sexp) (body : List Sexp) : String :=
  match hdr with
  | [.atom _, c, t] =>
    match cfg? c, tops? t with
    | some cfg, some tops =>
      let impl := body.map event?
      let s := runFuel (200 * impl.length + 100000) (initState cfg tops (choicesOf impl))
      "\n".intercalate ((s.trace.reverse.map eventStr) ++ [s!"R {id} CORR=ok SPEC=ok SPECM=ok | stuck={s.stuck}"])
    | _, _ => s!"R {id} CORR=diff SPEC=ok SPECM=ok | unparsable"
  | _ => s!"R {id} CORR=diff SPEC=ok SPECM=ok | unparsable"

/-- mode `coreinv`: model only; every candidate invariant after every step (default flush choices) -/
def handleInv (id : Nat) (hdr : List Sexp) (_body : List Sexp) : String :=
  match hdr with
  | [.atom _, c, t] =>
    match cfg? c, tops? t with
    | some cfg, some tops =>
      let (r, s) := Inv.runChecked 400000 0 (initState cfg tops [])
      match r, s.stuck with
      | some (i, name), _ => s!"R {id} CORR=ok SPEC=ok SPECM=fail:invariant-{name} | violated after step {i}"
      | none, some m => s!"R {id} CORR=ok SPEC=ok SPECM=fail:model-stuck | {m}"
      | none, none => s!"R {id} CORR=ok SPEC=ok SPECM=ok | "
    | _, _ => s!"R {id} CORR=diff SPEC=ok SPECM=ok | unparsable cfg/tops"
  | _ => s!"R {id} CORR=diff SPEC=ok SPECM=ok | unparsable header"

end AsynqModel.Drv.Core
