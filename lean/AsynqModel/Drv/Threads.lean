import AsynqModel.Sexp
import AsynqModel.Lib.Threads
/-! driver glue for mode `threads` (property C16)

  (case threads <id> inv 0 0 0)            followed by (inv <module> <name> <kind>) lines (the AST inventory) and
                                           (probe <module> <name>) lines (the carriers the run-time probes exercise)
  (case threads <id> hist|prog <K> <perf> <reps>)
     (alien <t> <i>)          thread t was NOT created through threading.Thread; i = its OS thread ident (class number)
     (mode <t> <b>)           thread t was started with a copy of a context whose asyncio-mode flag was b
     (a <t> <op> <obs>)       records of thread t running alone, in order
     (c <r> <t> <op> <obs>)   records of concurrent repetition r, in global order (= the schedule)
  A record that mentions the token 999999 (the harness met an object the thread did not create) has observation `foreign`.
  `(foreign <obs>)` = the same, with what the thread was handed spelled out in the numbering of the thread that created
  it: the property sees `foreign`, the correspondence compares <obs> with the model (which mirrors the code).
-/
namespace AsynqModel.Drv.Threads
open AsynqModel AsynqModel.Threads

def op? : Sexp → Option Op
  | .list [.atom "getSched"] => some .getSched
  | .list [.atom "resetSched"] => some .resetSched
  | .list [.atom "snap"] => some .snap
  | .list [.atom "getActive"] => some .getActive
  | .list [.atom "push", n] => n.nat?.map .push
  | .list [.atom "pop"] => some .pop
  | .list [.atom "taskStart", n] => n.nat?.map .taskStart
  | .list [.atom "taskStop"] => some .taskStop
  | .list [.atom "taskDone", n] => n.nat?.map .taskDone
  | .list [.atom "newTask"] => some .newTask
  | .list [.atom "mkItem", a, b] => do some (.mkItem (← a.nat?) (← b.nat?))
  | .list [.atom "schedBatch", n] => n.nat?.map .schedBatch
  | .list [.atom "schedFlush", n] => n.nat?.map .schedFlush
  | .list [.atom "directFlush", n] => n.nat?.map .directFlush
  | .list [.atom "profAppend", n] => n.nat?.map .profAppend
  | .list [.atom "profIncr"] => some .profIncr
  | .list [.atom "profFlush"] => some .profFlush
  | .list [.atom "profReset"] => some .profReset
  | .list [.atom "dedupCall", a, b] => do some (.dedupCall (← a.nat?) (← b.nat?))
  | .list [.atom "dirty", a, b] => do some (.dirty (← a.nat?) (← b.nat?))
  | .list [.atom "amEnter"] => some .amEnter
  | .list [.atom "amExit"] => some .amExit
  | .list [.atom "amGet"] => some .amGet
  | .list [.atom "note", a, b] => do some (.note (← a.nat?) (← b.nat?))
  | .list [.atom "svGet"] => some .svGet
  | .list [.atom "svSet", n] => n.nat?.map .svSet
  | .list [.atom "svEnter", n] => n.nat?.map .svEnter
  | .list [.atom "svExit"] => some .svExit
  | .list [.atom "lruCall", n] => n.nat?.map .lruCall
  | .list [.atom "nfRepr"] => some .nfRepr
  | .list [.atom "nfEnter"] => some .nfEnter
  | .list [.atom "nfExit"] => some .nfExit
  | _ => none

def optNat? : Sexp → Option (Option Nat)
  | .atom "none" => some none
  | s => s.nat?.map some

def stat? : Sexp → Stat
  | .atom "batch" => .batch
  | .list [.atom "task", n] => match n.nat? with | some n => .task n | none => .other
  | .list [.atom "user", n] => match n.nat? with | some n => .user n | none => .other
  | _ => .other

/-- the atoms of a record component (operations and observations nest at most three levels; deeper = foreign) -/
def atomsOf : Sexp → List String
  | .atom a => [a]
  | .list l => l.flatMap fun
    | .atom a => [a]
    | .list l2 => l2.flatMap fun
      | .atom a => [a]
      | .list l3 => l3.flatMap fun
        | .atom a => [a]
        | .list _ => ["999999"]

/-- the harness writes 999999 for an object (task, batch, item, scheduler number) that the thread did not create -/
def mentionsForeign (s : Sexp) : Bool := (atomsOf s).contains "999999"

/-- every observation parses: what the model never produces becomes `.other` -/
def obs (s : Sexp) : Obs :=
  if mentionsForeign s then .foreign else
  let r : Option Obs := match s with
    | .list [.atom "unit"] => some .unit
    | .list [.atom "nat", n] => n.nat?.map .nat
    | .list [.atom "sched", n, b] => do some (.sched (← n.nat?) (← b.bool?))
    | .list [.atom "snap", a, b, c] => do some (.snap (← a.nat?) (← b.nat?) (← optNat? c))
    | .list [.atom "active", a] => (optNat? a).map .active
    | .list [.atom "task", a, b] => do some (.task (← a.nat?) (← b.nat?))
    | .list [.atom "bypass"] => some .bypass
    | .list [.atom "item", a, b, c] => do some (.item (← a.nat?) (← b.nat?) (← c.nat?))
    | .list [.atom "flushed", a, l] => do some (.flushed (← a.nat?) (← l.natList?))
    | .list [.atom "noBatch"] => some .noBatch
    | .list [.atom "stats", .list l] => some (.stats (l.map stat?))
    | .list [.atom "dedup", a, b, c] => do some (.dedup (← a.nat?) (← b.nat?) (← c.nat?))
    | .list [.atom "bool", b] => b.bool?.map .bool
    | .list [.atom "cache", h, v] => do some (.cache (← h.bool?) (← v.nat?))
    | .list [.atom "raised", n] => n.nat?.map .raised
    | _ => none
  r.getD .other

/-- the observation the correspondence compares: what is inside a `(foreign ..)` wrapper -/
def obsCorr (s : Sexp) : Obs :=
  match s with
  | .list [.atom "foreign", inner] => obs inner
  | _ => obs s

/-- the observation the property sees -/
def obsSpec (op ob : Sexp) : Obs :=
  match ob with
  | .list (.atom "foreign" :: _) => .foreign
  | _ => if mentionsForeign op then .foreign else obs ob

structure Parsed where
  aloneRecs : Array (List Rec)              -- reversed while parsing
  conc : Array (List (ThreadId × Rec))      -- per repetition, reversed while parsing
  aloneCorr : Array (List Rec)              -- the same records as the correspondence compares them
  concCorr : Array (List (ThreadId × Rec))
  aliens : List (ThreadId × Nat)
  modes : List (ThreadId × Bool)
  inv : List (String × String × String)
  probed : List (String × String)
  bad : Nat

def pushAt {α : Type} (a : Array (List α)) (i : Nat) (x : α) : Array (List α) :=
  let a := if i < a.size then a else a ++ Array.replicate (i + 1 - a.size) []
  a.modify i (x :: ·)

def parseBody (k reps : Nat) (body : List Sexp) : Parsed :=
  let p0 : Parsed := { aloneRecs := Array.replicate k [], conc := Array.replicate reps [],
                       aloneCorr := Array.replicate k [], concCorr := Array.replicate reps [], aliens := [], modes := [],
                       inv := [], probed := [], bad := 0 }
  let p := body.foldl (fun p s =>
    match s with
    | .list [.atom "a", t, op, ob] =>
      match t.nat?, op? op with
      | some t, some o => { p with aloneRecs := pushAt p.aloneRecs t (o, obsSpec op ob),
                                   aloneCorr := pushAt p.aloneCorr t (o, if mentionsForeign op then .foreign else obsCorr ob) }
      | _, _ => { p with bad := p.bad + 1 }
    | .list [.atom "c", r, t, op, ob] =>
      match r.nat?, t.nat?, op? op with
      | some r, some t, some o => { p with conc := pushAt p.conc r (t, (o, obsSpec op ob)),
                                           concCorr := pushAt p.concCorr r (t, (o, if mentionsForeign op then .foreign else obsCorr ob)) }
      | _, _, _ => { p with bad := p.bad + 1 }
    | .list [.atom "alien", t, i] =>
      match t.nat?, i.nat? with
      | some t, some i => { p with aliens := p.aliens ++ [(t, i)] }
      | _, _ => { p with bad := p.bad + 1 }
    | .list [.atom "mode", t, b] =>
      match t.nat?, b.bool? with
      | some t, some b => { p with modes := p.modes ++ [(t, b)] }
      | _, _ => { p with bad := p.bad + 1 }
    | .list [.atom "inv", .atom m, .atom n, .atom kd] => { p with inv := (m, n, kd) :: p.inv }
    | .list [.atom "probe", .atom m, .atom n] => { p with probed := (m, n) :: p.probed }
    | _ => { p with bad := p.bad + 1 }) p0
  { p with aloneRecs := p.aloneRecs.map List.reverse, conc := p.conc.map List.reverse,
           aloneCorr := p.aloneCorr.map List.reverse, concCorr := p.concCorr.map List.reverse, inv := p.inv.reverse }

def recStr (r : Rec) : String := s!"{repr r.1} -> {repr r.2}"

def diffRecs (m i : List Rec) (n : Nat := 0) : Option String :=
  match m, i with
  | [], [] => none
  | x :: xs, y :: ys => if x = y then diffRecs xs ys (n + 1) else some s!"record {n}: model [{recStr x}] impl [{recStr y}]"
  | x :: _, [] => some s!"record {n}: model [{recStr x}] impl <end>"
  | [], y :: _ => some s!"record {n}: model <end> impl [{recStr y}]"

def diffGlobal (m i : List (ThreadId × Rec)) (n : Nat := 0) : Option String :=
  match m, i with
  | [], [] => none
  | x :: xs, y :: ys =>
    if x = y then diffGlobal xs ys (n + 1)
    else some s!"step {n} thread {y.1}: model [{recStr x.2}] impl [{recStr y.2}]"
  | _ :: _, [] => some s!"step {n}: impl <end>"
  | [], _ :: _ => some s!"step {n}: model <end>"

def firstSome {α : Type} (l : List (Option α)) : Option α := l.findSome? id

def describeSpec (perf : Bool) (k : Nat) (aloneRecs : List (List Rec)) (conc : List (ThreadId × Rec)) : String :=
  let sh (x : Option Rec) := match x with | some r => recStr r | none => "<end>"
  match conc.find? fun p => p.2.2 == Obs.foreign with
  | some (t, r) => s!"thread {t} concurrent [{repr r.1}] mentions an object of another thread"
  | none =>
  match specFind perf aloneRecs conc k with
  | some (t, i, c) =>
    if c == "operations" then s!"thread {t} performed other operations than alone"
    else
      let a := (strictPart perf (aloneRecs.getD t []))[i]?
      let c := (strictPart perf (proj t conc))[i]?
      s!"thread {t} record {i} (not counting operations on shared objects): alone [{sh a}] concurrent [{sh c}]"
  | none =>
    match (if perf then maskedFind aloneRecs conc k else none) with
    | some (t, i, _) =>
      let a := (maskedPart (aloneRecs.getD t []))[i]?
      let c := (maskedPart (proj t conc))[i]?
      s!"thread {t} record {i} (after its first cached call under COLLECT_PERF_STATS; not counting operations on shared objects, profiler ids erased): alone [{sh a}] concurrent [{sh c}]"
    | none =>
    match nfFind aloneRecs conc k with
    | some t =>
      match diffRecs (nfPart (aloneRecs.getD t [])) (nfPart (proj t conc)) with
      | some d => s!"thread {t} repr(asynq.none_future) {d} [model = alone, impl = concurrent; bool true = '<recursion>']"
      | none => ""
    | none =>
    match fullFind aloneRecs conc k with
    | none => ""
    | some t =>
      match diffRecs (aloneRecs.getD t []) (proj t conc) with
      | some d => s!"thread {t} (uses an object shared with other threads) {d} [model = alone, impl = concurrent]"
      | none => ""

def handleInv (id : Nat) (p : Parsed) : String :=
  let probs := inventoryProblems p.inv p.probed
  let txt := probs.map fun (missing, m, n, kd) =>
    if missing && kd == "probed" then s!"component-without-probe:{m}.{n}"
    else if missing then s!"component-not-thread-local:{m}.{n}(expected {kd})" else s!"unlisted-shared-state:{m}.{n}({kd})"
  let c := if probs.isEmpty && p.bad == 0 then "ok" else "diff"
  let known := p.inv.filter fun e => !(components.contains e)
  let d := if probs.isEmpty then s!"inventory {p.inv.length} entries, {components.length} thread-indexed components (all probed), {known.length} process-wide / shared-by-design / constant"
           else "inventory: " ++ " ".intercalate txt
  s!"R {id} CORR={c} SPEC=ok SPECM=ok | {d}"

def handle (id : Nat) (hdr : List Sexp) (body : List Sexp) : String :=
  match hdr with
  | [.atom kind, ks, ps, rs] =>
    match ks.nat?, ps.bool?, rs.nat? with
    | some k, some perf, some reps =>
      let p := parseBody k reps body
      if kind == "inv" then handleInv id p else
      let aloneImpl := p.aloneRecs.toList
      let concs := p.conc.toList
      let aloneC := p.aloneCorr.toList
      let concsC := p.concCorr.toList
      -- correspondence: the model (the library as written, with the thread kinds and start contexts of the case) on
      -- the same operations makes the same observations.  The run alone of a thread is made by a threading.Thread.
      let corrAlone := firstSome ((List.range aloneC.length).map fun t =>
        let impl := aloneC.getD t []
        (diffRecs (aloneW [] p.modes perf t (impl.map (·.1))) impl).map fun s => s!"alone thread {t} {s}")
      let corrConc := firstSome ((List.range concsC.length).map fun r =>
        let impl := concsC.getD r []
        (diffGlobal (interW p.aliens p.modes perf (impl.map fun x => (x.1, x.2.1))) impl).map fun s => s!"concurrent run {r} {s}")
      let corr := if p.bad > 0 then some s!"{p.bad} unparsable lines" else corrAlone <|> corrConc
      -- the property on the implementation's records alone
      let specs := concs.map fun c => specClause perf k aloneImpl c
      let spec := (specs.find? (· != "ok")).getD "ok"
      let specD := firstSome (concs.map fun c =>
        let d := describeSpec perf k aloneImpl c
        if d.isEmpty then none else some d)
      -- the property on the model's records (what the theorems say: `C16_spec_holds_library`)
      let specms := concs.map fun c =>
        let sch := c.map fun x => (x.1, x.2.1)
        specClause perf k ((List.range k).map fun t => proj t (interW p.aliens p.modes perf (only t sch))) (interW p.aliens p.modes perf sch)
      let specm := (specms.find? (· != "ok")).getD "ok"
      let c := match corr with | none => "ok" | some _ => "diff"
      let f (s : String) := if s == "ok" then "ok" else "fail:" ++ s
      let d := ((match specD with | some s => s ++ " ; " | none => "") ++
                (match corr with | some s => s | none => "")).replace "\n" " "
      s!"R {id} CORR={c} SPEC={f spec} SPECM={f specm} | {d}"
    | _, _, _ => s!"R {id} CORR=diff SPEC=ok SPECM=ok | unparsable header"
  | _ => s!"R {id} CORR=diff SPEC=ok SPECM=ok | unparsable header"

end AsynqModel.Drv.Threads
