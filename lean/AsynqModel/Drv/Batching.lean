import AsynqModel.Sexp
import AsynqModel.Lib.Batching
import AsynqModel.Lib.BatchingHook
/-! driver glue for mode `batching` (property C11) -/
namespace AsynqModel.Drv.Batching
open AsynqModel AsynqModel.Batching

def optNat? : Sexp → Option (Option Nat)
  | .atom "none" => some none
  | s => s.nat?.map some

def link? : Sexp → Option (Option Link)
  | .atom "none" => some none
  | .list [.atom "link", j, e, t] => do some (some { target := (← j.nat?), isErr := (← e.bool?), tok := (← t.nat?) })
  | _ => none

def kind? : Sexp → Option Kind
  | .atom "user" => some .user
  | .atom "debug" => some .debug
  | _ => none

def err? : Sexp → Option Err
  | .list [.atom "user", n] => n.nat?.map .user
  | .atom "cancelled" => some .cancelled
  | .atom "notSet" => some .notSet
  | .atom "already" => some .already
  | .atom "batching" => some .batching
  | .atom "assertAdd" => some .assertAdd
  | .atom "other" => some .other
  | .list (.atom "other" :: _) => some .other
  | _ => none

def outc? : Sexp → Option (Option Outc)
  | .atom "none" => some none
  | .list [.atom "val", n] => n.nat?.map fun v => some (.val v)
  | .list [.atom "err", e] => (err? e).map fun e => some (.err e)
  | _ => none

def act? : Sexp → Option Act
  | .list [.atom "setValue", k, v] => do some (.setValue (← k.nat?) (← v.nat?))
  | .list [.atom "setError", k, e] => do some (.setError (← k.nat?) (← e.nat?))
  | .list [.atom "setAll"] => some .setAll
  | .list [.atom "newItem", p] => p.nat?.map .newItem
  | .list [.atom "raise", e] => e.nat?.map .raise
  | _ => none

def script? : Sexp → Option Script
  | .list (.atom "script" :: acts) => acts.mapM act?
  | _ => none

def op? : Sexp → Option Op
  | .list [.atom "add", p, sp, lk] => do some (.add (← p.nat?) (← optNat? sp) (← link? lk))
  | .list [.atom "addTo", b, p] => do some (.addTo (← b.nat?) (← p.nat?))
  | .list [.atom "flush", b] => b.nat?.map .flush
  | .list [.atom "cancel", b, e] => do some (.cancel (← b.nat?) (← optNat? e))
  | .list [.atom "itemValue", i] => i.nat?.map .itemValue
  | .list [.atom "batchValue", b] => b.nat?.map .batchValue
  | .list [.atom "batchError", b] => b.nat?.map .batchError
  | .list [.atom "isFlushed", b] => b.nat?.map .isFlushed
  | .list [.atom "isCancelled", b] => b.nat?.map .isCancelled
  | .list [.atom "isEmpty", b] => b.nat?.map .isEmpty
  | .list [.atom "itemComputed", i] => i.nat?.map .itemComputed
  | _ => none

def res? : Sexp → Option Res
  | .list [.atom "unit"] => some .unit
  | .list [.atom "created", i] => i.nat?.map .created
  | .list [.atom "ok", v] => v.nat?.map .ok
  | .list [.atom "marker"] => some .marker
  | .list [.atom "errIs", .atom "none"] => some (.errIs none)
  | .list [.atom "errIs", e] => (err? e).map fun e => .errIs (some e)
  | .list [.atom "raised", e] => (err? e).map .raised
  | .list [.atom "bool", b] => b.bool?.map .bool
  | .list [.atom "invalid"] => some .invalid
  | _ => none

def ev? : Sexp → Option Ev
  | .list [.atom "body", b, a] => do some (.body (← b.nat?) (← a.nat?))
  | .list [.atom "bodyEnd", b, .atom "none", d] => do some (.bodyEnd (← b.nat?) none (← outc? d))
  | .list [.atom "bodyEnd", b, r, d] => do some (.bodyEnd (← b.nat?) (some (← err? r)) (← outc? d))
  | .list [.atom "item", i, o, bb] => do
    match (← outc? o) with
    | some o => some (.item (← i.nat?) o (← bb.bool?))
    | none => none
  | .list [.atom "created", i, b, src] => do some (.created (← i.nat?) (← b.nat?) (← optNat? src))
  | .list [.atom "createFail", src] => src.nat?.map .createFail
  | .list [.atom "announce", b, pend, a] => do some (.announce (← b.nat?) (← pend.natList?) (← a.nat?))
  | _ => none

def batch? : Sexp → Option Batch
  | .list [.atom "B", o, its, runs] => do some { out := (← outc? o), items := (← its.natList?), runs := (← runs.nat?) }
  | _ => none

def item? : Sexp → Option Item
  | .list [.atom "I", b, p, sp, lk, o] => do
    some { batch := (← b.nat?), payload := (← p.nat?), spawn := (← optNat? sp), link := (← link? lk), out := (← outc? o) }
  | _ => none

def st? (k : Kind) (keep : Bool) : Sexp → Option St
  | .list [.atom "st", a, .list (.atom "batches" :: bs), .list (.atom "items" :: is)] => do
    some { kind := k, keep := keep, active := (← a.nat?), batches := (← bs.mapM batch?), items := (← is.mapM item?) }
  | _ => none

def obs? (k : Kind) (keep : Bool) : Sexp → Option Obs
  | .list [.atom "obs", op, r, .list evs, st] => do
    some { op := (← op? op), res := (← res? r), evs := (← evs.mapM ev?), post := (← st? k keep st) }
  | _ => none

def diffObs (m i : Obs) : String :=
  if m.res != i.res then s!"res model={repr m.res} impl={repr i.res}"
  else if m.evs != i.evs then s!"events model={repr m.evs} impl={repr i.evs}"
  else if m.post.active != i.post.active then s!"active model={m.post.active} impl={i.post.active}"
  else if m.post.batches != i.post.batches then s!"batches model={repr m.post.batches} impl={repr i.post.batches}"
  else s!"items model={repr m.post.items} impl={repr i.post.items}"

def firstDiff (a b : List Obs) (i : Nat := 0) : Option (Nat × String) :=
  match a, b with
  | [], [] => none
  | x :: xs, y :: ys => if x == y then firstDiff xs ys (i+1) else some (i, s!"{x.op.name}: {diffObs x y}")
  | x :: _, [] => some (i, s!"model={x.op.name} impl=<missing>")
  | [], y :: _ => some (i, s!"model=<missing> impl={y.op.name}")

/-- `hook` = the Exception token the harness subclass's `_cancel()` raises (none: it returns); the model is the code as
    it is (`runH`, Lib/BatchingHook.lean; `runH none = run`: Theorems/C11.lean `runH_none`) -/
def judge (id : Nat) (k : Kind) (keep : Bool) (scripts : List Script) (body : List Sexp) (hook : Option Nat := none) :
    String :=
  match body.mapM (obs? k keep) with
  | some impl =>
    let ops := impl.map (·.op)
    let model := runH hook scripts (init k keep) ops
    let corr := firstDiff model impl
    let spec := specClause k impl keep
    let specm := specClause k model keep
    let c := match corr with | none => "ok" | some _ => "diff"
    let d := match corr with | none => "" | some (i, s) => ((s!"obs {i}: {s}".replace "\n" " ").replace "  " " ")
    let f (s : String) := if s == "ok" then "ok" else "fail:" ++ s
    s!"R {id} CORR={c} SPEC={f spec} SPECM={f specm} | {d}"
  | none => s!"R {id} CORR=diff SPEC=ok SPECM=ok | unparsable observation"

/-- `hdr` = `<kind> [(keep 0|1)] [(hook <token>)] (scripts (script ...) ...)`; `body` = the observation lines -/
def handle (id : Nat) (hdr : List Sexp) (body : List Sexp) : String :=
  match hdr with
  | [k, .list (.atom "scripts" :: ss)] =>
    match kind? k, ss.mapM script? with
    | some k, some scripts => judge id k false scripts body
    | _, _ => s!"R {id} CORR=diff SPEC=ok SPECM=ok | unparsable case header"
  | [k, .list [.atom "keep", kp], .list (.atom "scripts" :: ss)] =>
    match kind? k, kp.bool?, ss.mapM script? with
    | some k, some keep, some scripts => judge id k keep scripts body
    | _, _, _ => s!"R {id} CORR=diff SPEC=ok SPECM=ok | unparsable case header"
  | [k, .list [.atom "keep", kp], .list [.atom "hook", h], .list (.atom "scripts" :: ss)] =>
    match kind? k, kp.bool?, h.nat?, ss.mapM script? with
    | some k, some keep, some x, some scripts => judge id k keep scripts body (some x)
    | _, _, _, _ => s!"R {id} CORR=diff SPEC=ok SPECM=ok | unparsable case header"
  | _ => s!"R {id} CORR=diff SPEC=ok SPECM=ok | unparsable case header"

/-! ### family `reenter` (mode `batchingx`): code that re-enters the batch it is called from

The flush body cancels the batch it is flushing (`self.cancel(...)`), or an item's completion handler cancels the
item's batch (while the body runs: the same; while `_computed` completes the leftover items: a no-op).  The model has
no such statements (its proofs rest on the batch's outcome not changing while its body runs), so NO theorem speaks
about these cases.  They are judged by a direct expectation: the observations of the implementation must be accepted
by the observer `specClause` - the statement of C11, which does not refer to the model - in its mode `rx := true`
(the outcome a batch has when its flush body is left stands, because a `cancel()` from inside decided it; the outcome
of a DebugBatch, whose body cannot be hooked, is not judged by `fateClause`), and every re-entrant `cancel()` must have
returned normally and, when it met a pending batch, must have decided that batch's outcome. -/

structure XCancel where
  b : Nat
  e : Option Nat
  wasPending : Bool
  raised : Bool

def xcancel? : Sexp → Option XCancel
  | .list [.atom "x", .atom "cancel", b, e, wp, r] => do
    some { b := (← b.nat?), e := (← optNat? e), wasPending := (← wp.bool?), raised := (← r.bool?) }
  | _ => none

def isObs : Sexp → Bool
  | .list (.atom "obs" :: _) => true
  | _ => false

def handleX (id : Nat) (hdr : List Sexp) (body : List Sexp) : String :=
  match hdr with
  | [k, .list [.atom "keep", kp]] =>
    match kind? k, kp.bool?, (body.filter isObs).mapM (fun o => obs? ((kind? k).getD .user) ((kp.bool?).getD false) o),
          (body.filter (fun l => !isObs l)).mapM xcancel? with
    | some k, some keep, some impl, some xs =>
      let spec := specClause k impl keep true
      let final := match impl.getLast? with | some ob => ob.post | none => init k keep
      let direct : Option String := xs.findSome? fun x =>
        if x.raised then some "cancel-total@reenter"
        else if x.wasPending && final.bout x.b != some (.err (errOfCancel x.e)) then some "cancel-outcome@reenter"
        else none
      let verdict := if spec != "ok" then spec else match direct with | some c => c | none => "ok"
      let f (s : String) := if s == "ok" then "ok" else "fail:" ++ s
      s!"R {id} CORR=ok SPEC={f verdict} SPECM=ok | "
    | _, _, _, _ => s!"R {id} CORR=diff SPEC=ok SPECM=ok | unparsable reenter case"
  | _ => s!"R {id} CORR=diff SPEC=ok SPECM=ok | unparsable reenter case header"

end AsynqModel.Drv.Batching
