import AsynqModel.Sexp
import AsynqModel.Lib.Decorators
/-! driver glue for mode `decorators` (property C09) -/
namespace AsynqModel.Drv.Decorators
open AsynqModel AsynqModel.Decorators

def kind? : Sexp → Option Kind
  | .atom "raw" => some .raw | .atom "asynq" => some .asynq | .atom "pure" => some .pure
  | .atom "proxy" => some .proxy | .atom "proxyPure" => some .proxyPure | .atom "pair" => some .pair | .atom "pairProxy" => some .pairProxy
  | .atom "mad" => some .mad | .atom "dedup" => some .dedup | .atom "aretry" => some .aretry
  | .atom "alru" => some .alru | .atom "acpi" => some .acpi
  | _ => none

def ft? : Sexp → Option FnType
  | .atom "plain" => some .plain | .atom "static" => some .static | .atom "classm" => some .classm
  | _ => none

def acc? : Sexp → Option Access
  | .atom "direct" => some .direct | .atom "inst" => some .inst | .atom "cls" => some .cls
  | .atom "subInst" => some .subInst | .atom "subCls" => some .subCls
  | _ => none

def bk? : Sexp → Option BodyKind
  | .atom "plain" => some .plain | .atom "gen" => some .gen | .atom "batch" => some .batch
  | _ => none

def sig? : Sexp → Option SigKind
  | .atom "fixed" => some .fixed | .atom "var" => some .var | .atom "mixed" => some .mixed
  | _ => none

def cv? : Sexp → Option Cv
  | .atom "sync" => some .sync | .atom "asynqValue" => some .asynqValue | .atom "yieldAsynq" => some .yieldAsynq
  | .atom "nestedSync" => some .nestedSync | .atom "asyncCall" => some .asyncCall
  | .atom "asyncCallSync" => some .asyncCallSync | .atom "getAsyncFn" => some .getAsyncFn
  | .atom "getAsyncOrSync" => some .getAsyncOrSync | .atom "getAsyncFnWrap" => some .getAsyncFnWrap
  | .atom "twin" => some .twin
  | .atom "sibling" => some .sibling | .atom "siblingCall" => some .siblingCall | .atom "prior" => some .prior
  | _ => none

def pair? : Sexp → Option (Nat × Nat)
  | .list [a, b] => do some ((← a.nat?), (← b.nat?))
  | _ => none

def rel? : Sexp → Option Rel
  | .atom "args" => some .args | .atom "recv" => some .recv
  | _ => none

def vk? : Sexp → Option ValKind
  | .atom "tok" => some .tok | .atom "chash" => some .chash | .atom "bigint" => some .bigint
  | .atom "tuple" => some .tuple | .atom "falsy" => some .falsy
  | _ => none

def case? : List Sexp → Option Case
  | [k, f, a, b, r, s, pos, .list kw, fl, .list pre, rel, vk] => do
    some { cell := { kind := (← kind? k), ft := (← ft? f), acc := (← acc? a), bk := (← bk? b) },
           raises := (← r.bool?), sig := (← sig? s), args := { pos := (← pos.natList?), kw := (← kw.mapM pair?) },
           falsy := (← fl.bool?), pre := (← pre.mapM acc?), rel := (← rel? rel), vk := (← vk? vk) }
  | [k, f, a, b, r, s, pos, .list kw, fl, .list pre] => do
    some { cell := { kind := (← kind? k), ft := (← ft? f), acc := (← acc? a), bk := (← bk? b) },
           raises := (← r.bool?), sig := (← sig? s), args := { pos := (← pos.natList?), kw := (← kw.mapM pair?) },
           falsy := (← fl.bool?), pre := (← pre.mapM acc?) }
  | [k, f, a, b, r, s, pos, .list kw] => do
    some { cell := { kind := (← kind? k), ft := (← ft? f), acc := (← acc? a), bk := (← bk? b) },
           raises := (← r.bool?), sig := (← sig? s), args := { pos := (← pos.natList?), kw := (← kw.mapM pair?) } }
  | _ => none

def ev? : Sexp → Option Ev
  | .atom "use" => some .use | .atom "useThread" => some .useThread | .atom "helpers" => some .helpers
  | .atom "copy" => some .copy | .atom "deepcopy" => some .deepcopy
  | .atom "aioOk" => some .aioOk | .atom "aioFail" => some .aioFail | .atom "aioSelf" => some .aioSelf
  | .atom "gc" => some .gc | .atom "dbg" => some .dbg | .atom "scoped" => some .scoped | .atom "mocked" => some .mocked
  | .atom "bcopy" => some .bcopy
  | _ => none

/-- the case line with the history of the world and the override flag at the end; older shapes are plain cases -/
def xcase? (hdr : List Sexp) : Option XCase :=
  match hdr with
  | [k, f, a, b, r, s, pos, kw, fl, pre, rel, vk, .list hist, ovr] => do
    some { base := (← case? [k, f, a, b, r, s, pos, kw, fl, pre, rel, vk]), hist := (← hist.mapM ev?), ovr := (← ovr.bool?) }
  | hdr => do some { base := (← case? hdr) }

def outcome? : Sexp → Option Outcome
  | .list [.atom "ok", n, w] => do some (.ok (← n.nat?) (← w.bool?))
  | .list [.atom "raisedUser", n] => n.nat?.map .raisedUser
  | .list [.atom "gotFuture"] => some .gotFuture
  | .list [.atom "gotGenerator"] => some .gotGenerator
  | .list [.atom "raised", .atom "noAsynq"] => some (.raised .noAsynq)
  | .list [.atom "raised", .atom "typeError"] => some (.raised .typeError)
  | .list [.atom "raised", .atom "attrError"] => some (.raised .attrError)
  | .list [.atom "raised", .atom "skipped"] => some (.raised .skipped)
  | .list (.atom "raised" :: _) => some (.raised .other)
  | _ => none

def entry? : Sexp → Option Entry
  | .list [b, seen, g] => do some { body := (← b.nat?), seen := (← seen.natList?), got := (← g.bool?) }
  | _ => none

def conv? : Sexp → Option Conv
  | .atom "attr" => some .attr | .atom "self" => some .self | .atom "none" => some .absent
  | _ => none

/-- the observation lines of one case, folded into a `Report`; `none` when an observation is outside the
    vocabulary (a helper raised or answered with something that is neither a Boolean / None / fn / fn.asynq):
    `handle` turns that into SPEC=fail:unparsable-observation -/
def report? (body : List Sexp) : Option Report := do
  let mut obs : Array Obs := #[]
  let mut cls : Option Cls := none
  let mut got : Option Nat := none
  for l in body do
    match l with
    | .list [.atom "obs", cv, .list es, out, fl] =>
      obs := obs.push { cv := (← cv? cv), log := (← es.mapM entry?), out := (← outcome? out), flag := (← fl.bool?) }
    | .list [.atom "cls", ia, ip, ha, g, gs] =>
      cls := some ⟨(← ia.bool?), (← ip.bool?), (← ha.bool?), (← conv? g), (← conv? gs)⟩
    | .list [.atom "get", i] => got := some (← i.nat?)
    | _ => none
  some { obs := obs.toList, cls := (← cls), got := (← got) }

def describe (m i : Report) : String :=
  let rec go : List Obs → List Obs → String
    | x :: xs, y :: ys => if x == y then go xs ys else s!"model={repr x} impl={repr y}"
    | x :: _, [] => s!"model={repr x} impl=<missing>"
    | [], y :: _ => s!"model=<missing> impl={repr y}"
    | [], [] =>
      if m.cls != i.cls then s!"cls: model={repr m.cls} impl={repr i.cls}"
      else s!"bound receiver: model={repr m.got} impl={repr i.got}"
  go m.obs i.obs

/-- `hdr` = arguments of the case line after the id; `body` = the observation lines -/
def handle (id : Nat) (hdr : List Sexp) (body : List Sexp) : String :=
  match xcase? hdr, report? body with
  | some c, some impl =>
    -- a cell outside the supported bindings is never generated; if one arrives, `spec` rejects whatever was observed
    -- (SPEC=fail:unsupported-cell, also for the model's own report)
    let model := modelReportX c
    let corr := model == impl
    let spec := specClauseX c impl
    let specm := specClauseX c model
    let cs := if corr then "ok" else "diff"
    let d := if corr then "" else (describe model impl).replace "\n" " "
    let f (s : String) := if s == "ok" then "ok" else "fail:" ++ s
    s!"R {id} CORR={cs} SPEC={f spec} SPECM={f specm} | {d}"
  | some _, none =>
    -- e.g. a classification helper raised or answered with a non-Boolean: that is not a consistent classification
    s!"R {id} CORR=diff SPEC=fail:unparsable-observation SPECM=ok | the observations of the implementation are outside the vocabulary"
  | _, _ =>
    -- fail closed: a case line the driver cannot read is not "spec ok"
    s!"R {id} CORR=diff SPEC=fail:unparsable-case SPECM=fail:unparsable-case | unparsable case"

/-! ### family `decoratorsNwr`: DIRECT EXPECTATION, no theorem speaks about it

  `acached_per_instance` (tools.py:216-221) keys its cache by `id(self)` and relies on the callback of
  `weakref.ref(self, ...)` to drop the entry when the instance dies.  An instance that cannot be weakly referenced (a
  class with `__slots__` and no `__weakref__`) is REFUSED: `weakref.ref` raises TypeError before anything runs, in every
  calling convention alike - the conventions agree, no body is entered.  The model has no notion of weak references, so
  these cases are judged here: the code as it is = every convention that is run ends in TypeError with an empty log
  (`nwrReport`, what CORR compares with); the PROPERTY accepts that report and also the ordinary reference report (a
  library that made such instances work would have to run the body with the bound instance, every way alike) - and
  nothing else: a convention that answers without entering the body, or with another body / receiver, fails. -/

def nwrObs (o : Obs) : Obs :=
  if o.out == .raised .skipped then o else ⟨o.cv, [], .raised .typeError, false⟩

def nwrReport (r : Report) : Report := { r with obs := r.obs.map nwrObs }

def nwrClause (c : XCase) (r : Report) : String :=
  if !supported c.base.cell.kind c.base.cell.ft c.base.cell.acc then "unsupported-cell"
  else if !c.ovrOk then "unsupported-override"
  else if (reportClause (nwrReport (refReportX c)) r).isNone then "ok"
  else match reportClause (refReportX c) r with
    | none => "ok"
    | some cl => "slots-instance:" ++ cl

def handleNwr (id : Nat) (hdr : List Sexp) (body : List Sexp) : String :=
  match xcase? hdr, report? body with
  | some c, some impl =>
    let model := nwrReport (modelReportX c)
    let corr := model == impl
    let spec := nwrClause c impl
    let specm := nwrClause c model
    let cs := if corr then "ok" else "diff"
    let d := if corr then "" else (describe model impl).replace "\n" " "
    let f (s : String) := if s == "ok" then "ok" else "fail:" ++ s
    s!"R {id} CORR={cs} SPEC={f spec} SPECM={f specm} | {d}"
  | some _, none =>
    s!"R {id} CORR=diff SPEC=fail:unparsable-observation SPECM=ok | the observations of the implementation are outside the vocabulary"
  | _, _ =>
    s!"R {id} CORR=diff SPEC=fail:unparsable-case SPECM=fail:unparsable-case | unparsable case"

end AsynqModel.Drv.Decorators
