import AsynqModel.Sexp
import AsynqModel.Lib.Cache
import AsynqModel.Lib.CacheFam
import AsynqModel.Lib.CacheKw
/-! driver glue for mode `cache` (property C13)

  (case cache <id> alru <maxsize> <default|const|sumParity|raw> <sig> <sig>..)   one <sig> per function decorated by the
  (case cache <id> perinst <sig> <sig>..)                                         ONE decorator object (function 0, 1, ..)
  (case cache <id> lazy <ttl> <t0>)
  <sig> = ((args..) (defaults..) (kwonly..) ((name default)..) [<varargs 0|1> [<varkw 0|1>]])
          (varargs: the function has *rest; varkw: it has **opts - an OPEN signature, model Lib/CacheKw.lean: key `openKey`,
           reference key / binding `openRefKey` / `openBind`; a value token >= 1000 is the 2-tuple (name, value), and the
           body reports named values, len(rest), rest, then the **opts items in name order)
  (obs <op> <res> <runs> <extra>)
  <op>  = (call <inst> (args..) ((name value)..) <raises> <dur> <selfref> <fn>) | (drop <inst>) | (dirty <fn>) | (tick <d>)
          (<selfref> = the value the body returns refers to the instance; per-instance cases only, optional, default 0;
           <fn> = which of the decorated functions, optional, default 0)
  <runs> = body runs of the called function so far (drop: of all methods together)
  <extra> = per-instance: entries of the called method's dict (drop: of all methods together); lazy: the clock
  The models run are the families of Lib/CacheFam.lean (with one function they are the models of Lib/Cache.lean).

  (case cache <id> recur <alru|perinst> <maxsize>)        a cached function whose body calls ITSELF (fib): nested calls
  (obs (top <n>) <value> <runs>)                           judged by a direct expectation (`fibCall` below), no theorem
  <res> = (ok <stamp> (args..)) | (okNone) | (raisedUser <n>) | (raisedType) | (raisedOther <name>) | (unit)
-/
namespace AsynqModel.Drv.Cache
open AsynqModel AsynqModel.Cache

def pairs? : Sexp → Option (List (Nat × Nat))
  | .list l => l.mapM fun
    | .list [a, b] => do some ((← a.nat?), (← b.nat?))
    | _ => none
  | _ => none

/-- a signature and whether it is OPEN (`**opts`) -/
abbrev DSig := Sig × Bool

def sig? : Sexp → Option DSig
  | .list [a, d, k, kd] => do
    some ({ args := (← a.natList?), defaults := (← d.natList?), kwonly := (← k.natList?), kwonlyDefaults := (← pairs? kd),
            varargs := false }, false)
  | .list [a, d, k, kd, va] => do
    some ({ args := (← a.natList?), defaults := (← d.natList?), kwonly := (← k.natList?), kwonlyDefaults := (← pairs? kd),
            varargs := (← va.bool?) }, false)
  | .list [a, d, k, kd, va, vk] => do
    some ({ args := (← a.natList?), defaults := (← d.natList?), kwonly := (← k.natList?), kwonlyDefaults := (← pairs? kd),
            varargs := (← va.bool?) }, (← vk.bool?))
  | _ => none

def keySpec? : Sexp → Option KeySpec
  | .atom "default" => some .default
  | .atom "const" => some .const
  | .atom "sumParity" => some .sumParity
  | .atom "raw" => some .raw
  | _ => none

def res? : Sexp → Option Res
  | .list [.atom "ok", n, b] => do some (.ok ⟨(← n.nat?), (← b.natList?)⟩)
  | .list [.atom "okNone"] => some .okNone
  | .list [.atom "raisedUser", n] => n.nat?.map .raisedUser
  | .list [.atom "raisedType"] => some .raisedType
  | .list (.atom "raisedOther" :: _) => some .raisedOther
  | .list [.atom "unit"] => some .unit
  | _ => none

/-- the generic wire operation -/
inductive WOp where
  | call (inst : Nat) (c : Call) (raises : Bool) (dur : Nat) (selfRef : Bool) (fn : Nat)
  | drop (inst : Nat)
  | dirty (fn : Nat)
  | tick (d : Nat)

def wop? : Sexp → Option WOp
  | .list [.atom "call", i, a, kw, r, d] => do
    some (.call (← i.nat?) { args := (← a.natList?), kwargs := (← pairs? kw) } (← r.bool?) (← d.nat?) false 0)
  | .list [.atom "call", i, a, kw, r, d, sr] => do
    some (.call (← i.nat?) { args := (← a.natList?), kwargs := (← pairs? kw) } (← r.bool?) (← d.nat?) (← sr.bool?) 0)
  | .list [.atom "call", i, a, kw, r, d, sr, f] => do
    some (.call (← i.nat?) { args := (← a.natList?), kwargs := (← pairs? kw) } (← r.bool?) (← d.nat?) (← sr.bool?) (← f.nat?))
  | .list [.atom "drop", i] => i.nat?.map .drop
  | .list [.atom "dirty"] => some (.dirty 0)
  | .list [.atom "dirty", f] => f.nat?.map .dirty
  | .list [.atom "tick", d] => d.nat?.map .tick
  | _ => none

def line? : Sexp → Option (WOp × Obs)
  | .list [.atom "obs", op, r, runs, extra] => do
    some ((← wop? op), { res := (← res? r), runs := (← runs.nat?), extra := (← extra.nat?) })
  | _ => none

def firstDiff (a b : List Obs) (i : Nat := 0) : Option (Nat × String) :=
  match a, b with
  | [], [] => none
  | x :: xs, y :: ys => if x == y then firstDiff xs ys (i+1) else some (i, s!"model={repr x} impl={repr y}")
  | x :: _, [] => some (i, s!"model={repr x} impl=<missing>")
  | [], y :: _ => some (i, s!"model=<missing> impl={repr y}")

def clauseStr : Option Clause → String
  | none => "ok"
  | some c => "fail:" ++ c.name

/-- `hyp` = does the case lie inside the hypotheses of the refinement theorem of its cache (C13_alru_refines /
    C13_alru_refines_keyfn, C13_per_instance_refines_partial, C13_lazy_refines)?  If it does, SPECM=ok is what the theorem says.
    `na` = the case contains a call the property does not speak about (Python cannot bind it because it passes too many
    positional arguments or one parameter twice; ASSUMPTIONS of checks/c13.py, `C13_*_callOK_needed`): the observers are
    not evaluated, only the correspondence is. -/
def answer (id : Nat) (model impl : List Obs) (spec specm : String) (hyp : Bool) (na : Bool := false) : String :=
  let corr := firstDiff model impl
  let c := match corr with | none => "ok" | some _ => "diff"
  let d := match corr with | none => "" | some (i, s) => (s!"obs {i}: {s}".replace "\n" " ")
  let h := if hyp then "hyp=inside" else "hyp=outside"
  if na then s!"R {id} CORR={c} SPEC=ok SPECM=ok | {h} spec-not-evaluated(unbindable-call; would be {spec}) {d}"
  else s!"R {id} CORR={c} SPEC={spec} SPECM={specm} | {h} {d}"

def unparsable (id : Nat) : String := s!"R {id} CORR=diff SPEC=ok SPECM=ok | unparsable case"

def sigAt (sigs : List DSig) (f : Nat) : DSig := sigs.getD f default

/-! key as written / reference key / binding / covered calls of one decorated function: the closed-signature model of
    Lib/Cache.lean, or - for a function with `**opts` under the default key - the open-signature model of Lib/CacheKw.lean -/
def aMk (ks : KeySpec) (d : DSig) : Call → Option Key := if d.2 && ks == .default then alruOpenKey d.1 else alruKey ks d.1
def aRk (ks : KeySpec) (d : DSig) : Call → Option Key := if d.2 && ks == .default then alruOpenRefKey d.1 else alruRefKey ks d.1
def aBd (ks : KeySpec) (d : DSig) : Call → Option (List Nat) := if d.2 && ks == .default then alruOpenBind d.1 else alruBind d.1
def aOK (d : DSig) (c : Call) : Bool := if d.2 then openCallOK d.1 d.1.args c else alruCallOK d.1 c
def pMk (d : DSig) : Call → Option Key := if d.2 then perInstOpenKey d.1 else perInstKey d.1
def pRk (d : DSig) : Call → Option Key := if d.2 then perInstOpenRefKey d.1 else perInstRefKey d.1
def pBd (d : DSig) : Call → Option (List Nat) := if d.2 then perInstOpenBind d.1 else perInstBind d.1
def pOK (d : DSig) (c : Call) : Bool := if d.2 then openCallOK d.1 (d.1.args.drop 1) c else perInstCallOK d.1 c

/-- `hyp`: inside the hypotheses of C13_alru_shared_decorator_refines / _keyfn (with one function:
    C13_alru_refines / C13_alru_refines_keyfn; a function with `**opts`: C13_alru_open_signature_refines) -/
def handleAlru (id cap : Nat) (ks : KeySpec) (sigs : List DSig) (lines : List (WOp × Obs)) : String :=
  match lines.mapM (fun (l : WOp × Obs) => match l.1 with
      | .call _ c r _ _ f => some ({ fn := f, op := { c := c, raises := r } } : Alru.Fam.Op) | _ => none) with
  | none => unparsable id
  | some ops =>
    let impl := lines.map (·.2)
    let mk := fun f => aMk ks (sigAt sigs f)
    let rk := fun f => aRk ks (sigAt sigs f)
    let bd := fun f => aBd ks (sigAt sigs f)
    let model := Alru.Fam.run mk bd (Alru.Fam.init cap) ops
    let sp := Alru.Fam.specClause rk bd cap ops impl
    let callsOK := ks != .default || ops.all fun o => aOK (sigAt sigs o.fn) o.op.c
    let hyp := decide (1 ≤ cap) && callsOK
    let tag := ""
    answer id model impl (clauseStr sp ++ tag) (clauseStr (Alru.Fam.specClause rk bd cap ops model)) hyp (!callsOK)

/-- `hyp`: inside the hypotheses of C13_per_instance_shared_decorator_refines_partial -/
def handlePerInst (id : Nat) (sigs : List DSig) (lines : List (WOp × Obs)) : String :=
  match lines.mapM (fun (l : WOp × Obs) => match l.1 with
      | .call i c r _ sr f => some (PerInst.Fam.Op.call f i c r sr) | .drop i => some (.drop i) | _ => none) with
  | none => unparsable id
  | some ops =>
    let impl := lines.map (·.2)
    let nfn := sigs.length
    let mk := fun f => pMk (sigAt sigs f)
    let rk := fun f => pRk (sigAt sigs f)
    let bd := fun f => pBd (sigAt sigs f)
    let model := PerInst.Fam.run nfn mk bd PerInst.Fam.init ops
    let callsOK := ops.all fun op => match op with | .call f _ c _ _ => pOK (sigAt sigs f) c | .drop _ => true
    let hyp := callsOK && PerInst.Fam.noSelfRef ops
    let sp := PerInst.Fam.specClause nfn rk bd ops impl
    -- the observations are exactly those of the model, which keeps the entries of a dropped instance that a value
    -- cached by one of the methods refers to: the recorded defect, told apart from every other way of failing `instances`
    let tag := if sp == some .instances && !PerInst.Fam.noSelfRef ops && model == impl then "+cached-value-refers-to-instance" else ""
    answer id model impl (clauseStr sp ++ tag) (clauseStr (PerInst.Fam.specClause nfn rk bd ops model)) hyp (!callsOK)

/-- `hyp`: inside the hypotheses of C13_lazy_shared_decorator_refines -/
def handleLazy (id ttl t0 : Nat) (lines : List (WOp × Obs)) : String :=
  match lines.mapM (fun (l : WOp × Obs) => match l.1 with
      | .call _ _ r d _ f => some (Lazy.Fam.Op.call f r d) | .dirty f => some (.dirty f) | .tick d => some (.tick d)
      | _ => none) with
  | none => unparsable id
  | some ops =>
    let impl := lines.map (·.2)
    let model := Lazy.Fam.run ttl (Lazy.Fam.init t0) ops
    answer id model impl (clauseStr (Lazy.Fam.specClause ttl t0 ops impl)) (clauseStr (Lazy.Fam.specClause ttl t0 ops model))
      (decide (1 ≤ t0))

/-! ### a cached function that calls itself (direct expectation, no theorem)

  `@alru_cache(maxsize) @asynq() def fib(n): if n < 2: return n; a = yield fib.asynq(n - 1); b = yield fib.asynq(n - 2);
  return a + b`: the nested calls run to completion INSIDE the outer call's miss (after its lookup, before its store).
  Expected value and number of body runs of every top-level call, computed with the model's `LRU.getItem`/`setItem`
  (the `stamp` field of a stored `Val` carries the number).  For acached_per_instance the dict is unbounded. -/

def fibBase (k : Nat) (s : LRU × Nat) : Nat × (LRU × Nat) :=
  match s.1.getItem [.val k] with
  | some (v, c') => (v.stamp, (c', s.2))
  | none => (k, (s.1.setItem [.val k] ⟨k, []⟩, s.2 + 1))

def fibCall : Nat → LRU × Nat → Nat × (LRU × Nat)
  | 0, s => fibBase 0 s
  | 1, s => fibBase 1 s
  | n + 2, s =>
    match s.1.getItem [.val (n + 2)] with
    | some (v, c') => (v.stamp, (c', s.2))                  -- try: return cache[key]
    | none =>                                                -- except KeyError: the body runs, and calls itself twice
      let r1 := fibCall (n + 1) (s.1, s.2 + 1)
      let r2 := fibCall n r1.2
      (r1.1 + r2.1, (r2.2.1.setItem [.val (n + 2)] ⟨r1.1 + r2.1, []⟩, r2.2.2))

def handleRecur (id cap : Nat) (body : List Sexp) : String :=
  let tops : Option (List (Nat × Nat × Nat)) := body.mapM fun
    | .list [.atom "obs", .list [.atom "top", n], v, r] => do some ((← n.nat?), (← v.nat?), (← r.nat?))
    | _ => none
  match tops with
  | none => unparsable id
  | some tops =>
    let rec go (s : LRU × Nat) (i : Nat) : List (Nat × Nat × Nat) → Option String
      | [] => none
      | (n, v, r) :: rest =>
        let e := fibCall n s
        if e.1 == v && e.2.2 == r then go e.2 (i + 1) rest
        else some s!"top-level call {i} fib({n}): expected value {e.1} after {e.2.2} body runs, got value {v} after {r}"
    match go ({ cap := cap, items := [] }, 0) 0 tops with
    | none => s!"R {id} CORR=ok SPEC=ok SPECM=ok | direct-expectation"
    | some d => s!"R {id} CORR=diff SPEC=fail:self-recursive-calls SPECM=ok | direct-expectation {d}"

/-- `hdr` = arguments of the case line after the id; `body` = the observation lines -/
def handle (id : Nat) (hdr : List Sexp) (body : List Sexp) : String :=
  match hdr with
  | [.atom "recur", .atom "alru", cap] => match cap.nat? with | some cap => handleRecur id cap body | none => unparsable id
  | [.atom "recur", .atom "perinst", _] => handleRecur id 1000000000 body
  | _ =>
  match body.mapM line? with
  | none => unparsable id
  | some lines =>
    match hdr with
    | .atom "alru" :: cap :: ks :: s :: ss =>
      match cap.nat?, keySpec? ks, (s :: ss).mapM sig? with
      | some cap, some ks, some sigs => handleAlru id cap ks sigs lines
      | _, _, _ => unparsable id
    | .atom "perinst" :: s :: ss =>
      match (s :: ss).mapM sig? with
      | some sigs => handlePerInst id sigs lines
      | none => unparsable id
    | [.atom "lazy", ttl, t0] =>
      match ttl.nat?, t0.nat? with
      | some ttl, some t0 => handleLazy id ttl t0 lines
      | _, _ => unparsable id
    | _ => unparsable id

end AsynqModel.Drv.Cache
