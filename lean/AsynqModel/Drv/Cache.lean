import AsynqModel.Sexp
import AsynqModel.Lib.Cache
import AsynqModel.Lib.CacheFam
import AsynqModel.Lib.CacheKw
/-! driver glue for mode `cache` (property C13)

  (case cache <id> alru <maxsize> <default|const|sumParity|raw> <sig> <sig>..)   one <sig> per function decorated by the
  (case cache <id> perinst <sig> <sig>..)                                         ONE decorator object (function 0, 1, ..)
  (case cache <id> lazy <ttl> <t0>)
  <sig> = ((args..) (defaults..) (kwonly..) ((name default)..) [<varargs 0|1> [<varkw 0|1> [<po>]]])
          (varargs: the function has *rest; varkw: it has **opts - an OPEN signature, model Lib/CacheKw.lean: key `openKey`,
           reference key / binding `openRefKey` / `openBind`; a value token >= 1000 is the 2-tuple (name, value), and the
           body reports named values, len(rest), rest, then the **opts items in name order; po: how many of the named
           positional parameters - `self` not counted - are positional-only, open signatures only)
  (obs <op> <res> <runs> <extra>)
  <op>  = (call <inst> (args..) ((name value)..) <raises> <dur> <selfref> <fn> [<vk>]) | (drop <inst>) | (dirty <fn>) | (tick <d>)
          (<selfref> = the value the body returns refers to the instance; per-instance cases only, optional, default 0;
           <fn> = which of the decorated functions, optional, default 0;
           <vk> = what the body returns IF it runs: 0 (default) = a fresh object the harness identifies by identity, reported
           as (ok <stamp> (args..)); k > 0 = the SINGLETON of kind k (1 = None, 2 = NotImplemented, 3 / 4 = qcore.caching.miss /
           not_computed, 5 = False, 6 = 0, 7 = "", 8 = ()), reported as (okNone) for k = 1 and (okS k) otherwise - see
           `resolveSingletons`)
  <runs> = body runs of the called function so far (drop: of all methods together)
  <extra> = per-instance: entries of the called method's dict (drop: of all methods together); lazy: the clock
  The models run are the families of Lib/CacheFam.lean (with one function they are the models of Lib/Cache.lean).

  (case cache <id> recur <alru|perinst> <maxsize>)        a cached function whose body calls ITSELF (fib): nested calls
  (obs (top <n>) <value> <runs>)                           judged by a direct expectation (`fibCall` below), no theorem
  <res> = (ok <stamp> (args..)) | (okNone) | (raisedUser <n>) | (raisedType) | (raisedOther <name>) | (unit)
-/
namespace AsynqModel.Drv.Cache
open AsynqModel AsynqModel.Cache

def pairs? : Sexp → Option (List (Nat × Nat))
  | .list l => l.mapM fun
    | .list [a, b] => do some ((← a.nat?), (← b.nat?))
    | _ => none
  | _ => none

/-- a signature, whether it is OPEN (`**opts`), and its number of positional-only parameters (without `self`) -/
abbrev DSig := Sig × Bool × Nat

def sig? : Sexp → Option DSig
  | .list [a, d, k, kd] => do
    some ({ args := (← a.natList?), defaults := (← d.natList?), kwonly := (← k.natList?), kwonlyDefaults := (← pairs? kd),
            varargs := false }, false, 0)
  | .list [a, d, k, kd, va] => do
    some ({ args := (← a.natList?), defaults := (← d.natList?), kwonly := (← k.natList?), kwonlyDefaults := (← pairs? kd),
            varargs := (← va.bool?) }, false, 0)
  | .list [a, d, k, kd, va, vk] => do
    some ({ args := (← a.natList?), defaults := (← d.natList?), kwonly := (← k.natList?), kwonlyDefaults := (← pairs? kd),
            varargs := (← va.bool?) }, (← vk.bool?), 0)
  | .list [a, d, k, kd, va, vk, po] => do
    some ({ args := (← a.natList?), defaults := (← d.natList?), kwonly := (← k.natList?), kwonlyDefaults := (← pairs? kd),
            varargs := (← va.bool?) }, (← vk.bool?), (← po.nat?))
  | _ => none

def keySpec? : Sexp → Option KeySpec
  | .atom "default" => some .default
  | .atom "const" => some .const
  | .atom "sumParity" => some .sumParity
  | .atom "raw" => some .raw
  | _ => none

/-- `(okS k)` on the wire: "the call returned the singleton of kind k" (no run is named) -/
def singletonBase : Nat := 800000

def res? : Sexp → Option Res
  | .list [.atom "ok", n, b] => do some (.ok ⟨(← n.nat?), (← b.natList?)⟩)
  | .list [.atom "okNone"] => some .okNone
  | .list [.atom "okS", k] => do some (.ok ⟨singletonBase + (← k.nat?), []⟩)
  | .list [.atom "raisedUser", n] => n.nat?.map .raisedUser
  | .list [.atom "raisedType"] => some .raisedType
  | .list (.atom "raisedOther" :: _) => some .raisedOther
  | .list [.atom "unit"] => some .unit
  | _ => none

/-- the generic wire operation -/
inductive WOp where
  | call (inst : Nat) (c : Call) (raises : Bool) (dur : Nat) (selfRef : Bool) (fn : Nat) (vk : Nat)
  | drop (inst : Nat)
  | dirty (fn : Nat)
  | tick (d : Nat)

def wop? : Sexp → Option WOp
  | .list [.atom "call", i, a, kw, r, d] => do
    some (.call (← i.nat?) { args := (← a.natList?), kwargs := (← pairs? kw) } (← r.bool?) (← d.nat?) false 0 0)
  | .list [.atom "call", i, a, kw, r, d, sr] => do
    some (.call (← i.nat?) { args := (← a.natList?), kwargs := (← pairs? kw) } (← r.bool?) (← d.nat?) (← sr.bool?) 0 0)
  | .list [.atom "call", i, a, kw, r, d, sr, f] => do
    some (.call (← i.nat?) { args := (← a.natList?), kwargs := (← pairs? kw) } (← r.bool?) (← d.nat?) (← sr.bool?) (← f.nat?) 0)
  | .list [.atom "call", i, a, kw, r, d, sr, f, vk] => do
    some (.call (← i.nat?) { args := (← a.natList?), kwargs := (← pairs? kw) } (← r.bool?) (← d.nat?) (← sr.bool?) (← f.nat?)
      (← vk.nat?))
  | .list [.atom "drop", i] => i.nat?.map .drop
  | .list [.atom "dirty"] => some (.dirty 0)
  | .list [.atom "dirty", f] => f.nat?.map .dirty
  | .list [.atom "tick", d] => d.nat?.map .tick
  | _ => none

def line? : Sexp → Option (WOp × Obs)
  | .list [.atom "obs", op, r, runs, extra] => do
    some ((← wop? op), { res := (← res? r), runs := (← runs.nat?), extra := (← extra.nat?) })
  | _ => none

/-! ### bodies that return a SINGLETON (None, NotImplemented, qcore's `miss`, False, 0, "", ()): values that defeat
  sentinel / identity / truthiness shortcuts in a cache

  The model's values are opaque tokens `⟨stamp, args⟩` = "the result of body run `stamp`"; the model never inspects one, so
  its theorems hold whatever Python object a token stands for - None included.  The harness cannot tell WHICH run a
  returned singleton comes from (all runs of kind k return the same object), so it reports `(okNone)` / `(okS k)`, and the
  driver names it: if the model predicts "the result of run n" at this operation and run n's body returned the singleton
  of kind k (by the script), the two are the SAME value and the implementation's observation is named `⟨n, args⟩`;
  otherwise it stays an unnamed singleton (different from everything the observer expects: CORR=diff and a SPEC failure).
  Any true naming is a faithful report; the body-run counter of the observation is untouched, so a cache that takes a
  stored None for "absent" and runs the body again is `hit-ran-body`. -/

/-- kind of every body run of the model: `((fn, stamp), vk)`; a run happened at a call whose run counter grew -/
def runKinds (metas : List (Option (Nat × Nat))) (model : List Obs) : List ((Nat × Nat) × Nat) :=
  let rec go (prev : List (Nat × Nat)) : List (Option (Nat × Nat)) → List Obs → List ((Nat × Nat) × Nat)
    | some (f, vk) :: ms, ob :: obs =>
      let before := (prev.lookup f).getD 0
      let rest := go ((f, ob.runs) :: prev) ms obs
      if ob.runs > before then ((f, ob.runs), vk) :: rest else rest
    | none :: ms, _ :: obs => go prev ms obs
    | _, _ => []
  go [] metas model

def singletonOf : Res → Option Nat
  | .okNone => some 1
  | .ok v => if v.stamp ≥ singletonBase && v.stamp < singletonBase + 100 && v.args.isEmpty then some (v.stamp - singletonBase) else none
  | _ => none

def resolveSingletons (metas : List (Option (Nat × Nat))) (model impl : List Obs) : List Obs :=
  let kinds := runKinds metas model
  let rec go : List (Option (Nat × Nat)) → List Obs → List Obs → List Obs
    | some (f, _) :: ms, m :: mo, i :: io =>
      let i' := match singletonOf i.res, m.res with
        | some k, .ok v => if kinds.lookup (f, v.stamp) == some k then { i with res := .ok v } else i
        | _, _ => i
      i' :: go ms mo io
    | _ :: ms, _ :: mo, i :: io => i :: go ms mo io
    | _, _, io => io
  go metas model impl

def metaOf (l : WOp × Obs) : Option (Nat × Nat) :=
  match l.1 with | .call _ _ _ _ _ f vk => some (f, vk) | _ => none

def firstDiff (a b : List Obs) (i : Nat := 0) : Option (Nat × String) :=
  match a, b with
  | [], [] => none
  | x :: xs, y :: ys => if x == y then firstDiff xs ys (i+1) else some (i, s!"model={repr x} impl={repr y}")
  | x :: _, [] => some (i, s!"model={repr x} impl=<missing>")
  | [], y :: _ => some (i, s!"model=<missing> impl={repr y}")

def clauseStr : Option Clause → String
  | none => "ok"
  | some c => "fail:" ++ c.name

/-- `hyp` = does the case lie inside the hypotheses of the refinement theorem of its cache (C13_alru_refines /
    C13_alru_refines_keyfn, C13_per_instance_refines_partial, C13_lazy_refines)?  If it does, SPECM=ok is what the theorem says.
    `na` = the case contains a call the property does not speak about (Python cannot bind it because it passes too many
    positional arguments, one parameter twice or a required positional-only parameter by keyword, yet a key is built for
    it; ASSUMPTIONS of checks/c13.py, `C13_*_callOK_needed`, `openOutside`): the observers are not evaluated, only the
    correspondence is.  (A VALID call with a keyword named like a positional-only parameter is outside `hyp` but inside
    the property: the observers ARE evaluated - the open finding `C13_open_posonly_counterexample`.) -/
def answer (id : Nat) (model impl : List Obs) (spec specm : String) (hyp : Bool) (na : Bool := false) : String :=
  let corr := firstDiff model impl
  let c := match corr with | none => "ok" | some _ => "diff"
  let d := match corr with | none => "" | some (i, s) => (s!"obs {i}: {s}".replace "\n" " ")
  let h := if hyp then "hyp=inside" else "hyp=outside"
  if na then s!"R {id} CORR={c} SPEC=ok SPECM=ok | {h} spec-not-evaluated(unbindable-call; would be {spec}) {d}"
  else s!"R {id} CORR={c} SPEC={spec} SPECM={specm} | {h} {d}"

def unparsable (id : Nat) : String := s!"R {id} CORR=diff SPEC=ok SPECM=ok | unparsable case"

def sigAt (sigs : List DSig) (f : Nat) : DSig := sigs.getD f default

/-! key as written / reference key / binding / covered calls of one decorated function: the closed-signature model of
    Lib/Cache.lean, or - for a function with `**opts` under the default key - the open-signature model of Lib/CacheKw.lean -/
def isOpen (ks : KeySpec) (d : DSig) : Bool := d.2.1 && ks == .default
def aMk (ks : KeySpec) (d : DSig) : Call → Option Key := if isOpen ks d then alruOpenKey d.1 else alruKey ks d.1
def aRk (ks : KeySpec) (d : DSig) : Call → Option Key := if isOpen ks d then alruOpenRefKey d.1 d.2.2 else alruRefKey ks d.1
def aBd (ks : KeySpec) (d : DSig) : Call → Option (List Nat) := if isOpen ks d then alruOpenBind d.1 d.2.2 else alruBind d.1
def aOK (d : DSig) (c : Call) : Bool := if d.2.1 then openCallOK d.1 d.2.2 d.1.args c else alruCallOK d.1 c
/-- the call is OUTSIDE the property (Python cannot bind it, yet a key is built for it) -/
def aOut (d : DSig) (c : Call) : Bool := if d.2.1 then openOutside d.1 d.2.2 d.1.args c && !kwSelf c else !alruCallOK d.1 c
/-- a VALID call with a keyword named like a positional-only parameter (the open finding) -/
def aPoKw (d : DSig) (c : Call) : Bool :=
  d.2.1 && !poClean d.2.2 d.1.args c && (alruOpenRefKey d.1 d.2.2 c).isSome
def pMk (d : DSig) : Call → Option Key := if d.2.1 then perInstOpenKey d.1 else perInstKey d.1
def pRk (d : DSig) : Call → Option Key := if d.2.1 then perInstOpenRefKey d.1 d.2.2 else perInstRefKey d.1
def pBd (d : DSig) : Call → Option (List Nat) := if d.2.1 then perInstOpenBind d.1 d.2.2 else perInstBind d.1
def pOK (d : DSig) (c : Call) : Bool := if d.2.1 then openCallOK d.1 d.2.2 (d.1.args.drop 1) c else perInstCallOK d.1 c
def pOut (d : DSig) (c : Call) : Bool :=
  if d.2.1 then openOutside d.1 d.2.2 (d.1.args.drop 1) c && !kwSelf c else !perInstCallOK d.1 c
def pPoKw (d : DSig) (c : Call) : Bool :=
  d.2.1 && !poClean d.2.2 (d.1.args.drop 1) c && (perInstOpenRefKey d.1 d.2.2 c).isSome

/-- the clauses a wrong KEY can make an observation violate -/
def keyClause : Option Clause → Bool
  | some .foreignValue | some .hitRanBody | some .hitWrongValue | some .staleValue => true
  | _ => false

/-- the recorded defect `C13_open_posonly_counterexample`, told apart from every other way of failing these clauses: the
    case contains a valid call with a keyword named like a positional-only parameter AND the observations are exactly
    those of the model of the code as it is -/
def poTag (sp : Option Clause) (hasPoKw same : Bool) : String :=
  if keyClause sp && hasPoKw && same then "+keyword-named-like-positional-only-parameter" else ""

/-- `hyp`: inside the hypotheses of C13_alru_shared_decorator_refines / _keyfn (with one function:
    C13_alru_refines / C13_alru_refines_keyfn; a function with `**opts`: C13_alru_open_signature_refines) -/
def handleAlru (id cap : Nat) (ks : KeySpec) (sigs : List DSig) (lines : List (WOp × Obs)) : String :=
  match lines.mapM (fun (l : WOp × Obs) => match l.1 with
      | .call _ c r _ _ f _ => some ({ fn := f, op := { c := c, raises := r } } : Alru.Fam.Op) | _ => none) with
  | none => unparsable id
  | some ops =>
    let mk := fun f => aMk ks (sigAt sigs f)
    let rk := fun f => aRk ks (sigAt sigs f)
    let bd := fun f => aBd ks (sigAt sigs f)
    let model := Alru.Fam.run mk bd (Alru.Fam.init cap) ops
    let impl := resolveSingletons (lines.map metaOf) model (lines.map (·.2))
    let sp := Alru.Fam.specClause rk bd cap ops impl
    let callsOK := ks != .default || ops.all fun o => aOK (sigAt sigs o.fn) o.op.c
    let outside := ks == .default && ops.any fun o => aOut (sigAt sigs o.fn) o.op.c
    let hyp := decide (1 ≤ cap) && callsOK
    let tag := poTag sp (ks == .default && ops.any fun o => aPoKw (sigAt sigs o.fn) o.op.c) (model == impl)
    answer id model impl (clauseStr sp ++ tag) (clauseStr (Alru.Fam.specClause rk bd cap ops model)) hyp outside

/-- `hyp`: inside the hypotheses of C13_per_instance_shared_decorator_refines_partial -/
def handlePerInst (id : Nat) (sigs : List DSig) (lines : List (WOp × Obs)) : String :=
  match lines.mapM (fun (l : WOp × Obs) => match l.1 with
      | .call i c r _ sr f _ => some (PerInst.Fam.Op.call f i c r sr) | .drop i => some (.drop i) | _ => none) with
  | none => unparsable id
  | some ops =>
    let nfn := sigs.length
    let mk := fun f => pMk (sigAt sigs f)
    let rk := fun f => pRk (sigAt sigs f)
    let bd := fun f => pBd (sigAt sigs f)
    let model := PerInst.Fam.run nfn mk bd PerInst.Fam.init ops
    let impl := resolveSingletons (lines.map metaOf) model (lines.map (·.2))
    let callsOK := ops.all fun op => match op with | .call f _ c _ _ => pOK (sigAt sigs f) c | .drop _ => true
    let outside := ops.any fun op => match op with | .call f _ c _ _ => pOut (sigAt sigs f) c | .drop _ => false
    let hasPoKw := ops.any fun op => match op with | .call f _ c _ _ => pPoKw (sigAt sigs f) c | .drop _ => false
    let hyp := callsOK && PerInst.Fam.noSelfRef ops
    let sp := PerInst.Fam.specClause nfn rk bd ops impl
    -- the observations are exactly those of the model, which keeps the entries of a dropped instance that a value
    -- cached by one of the methods refers to: the recorded defect, told apart from every other way of failing `instances`
    let tag := if sp == some .instances && !PerInst.Fam.noSelfRef ops && model == impl then "+cached-value-refers-to-instance"
               else poTag sp hasPoKw (model == impl)
    answer id model impl (clauseStr sp ++ tag) (clauseStr (PerInst.Fam.specClause nfn rk bd ops model)) hyp outside

/-- `hyp`: inside the hypotheses of C13_lazy_shared_decorator_refines -/
def handleLazy (id ttl t0 : Nat) (lines : List (WOp × Obs)) : String :=
  match lines.mapM (fun (l : WOp × Obs) => match l.1 with
      | .call _ _ r d _ f _ => some (Lazy.Fam.Op.call f r d) | .dirty f => some (.dirty f) | .tick d => some (.tick d)
      | _ => none) with
  | none => unparsable id
  | some ops =>
    let model := Lazy.Fam.run ttl (Lazy.Fam.init t0) ops
    let impl := resolveSingletons (lines.map metaOf) model (lines.map (·.2))
    answer id model impl (clauseStr (Lazy.Fam.specClause ttl t0 ops impl)) (clauseStr (Lazy.Fam.specClause ttl t0 ops model))
      (decide (1 ≤ t0))

/-! ### a cached function that calls itself (direct expectation, no theorem)

  `@alru_cache(maxsize) @asynq() def fib(n): if n < 2: return n; a = yield fib.asynq(n - 1); b = yield fib.asynq(n - 2);
  return a + b`: the nested calls run to completion INSIDE the outer call's miss (after its lookup, before its store).
  Expected value and number of body runs of every top-level call, computed with the model's `LRU.getItem`/`setItem`
  (the `stamp` field of a stored `Val` carries the number).  For acached_per_instance the dict is unbounded. -/

def fibBase (k : Nat) (s : LRU × Nat) : Nat × (LRU × Nat) :=
  match s.1.getItem [.val k] with
  | some (v, c') => (v.stamp, (c', s.2))
  | none => (k, (s.1.setItem [.val k] ⟨k, []⟩, s.2 + 1))

def fibCall : Nat → LRU × Nat → Nat × (LRU × Nat)
  | 0, s => fibBase 0 s
  | 1, s => fibBase 1 s
  | n + 2, s =>
    match s.1.getItem [.val (n + 2)] with
    | some (v, c') => (v.stamp, (c', s.2))                  -- try: return cache[key]
    | none =>                                                -- except KeyError: the body runs, and calls itself twice
      let r1 := fibCall (n + 1) (s.1, s.2 + 1)
      let r2 := fibCall n r1.2
      (r1.1 + r2.1, (r2.2.1.setItem [.val (n + 2)] ⟨r1.1 + r2.1, []⟩, r2.2.2))

def handleRecur (id cap : Nat) (body : List Sexp) : String :=
  let tops : Option (List (Nat × Nat × Nat)) := body.mapM fun
    | .list [.atom "obs", .list [.atom "top", n], v, r] => do some ((← n.nat?), (← v.nat?), (← r.nat?))
    | _ => none
  match tops with
  | none => unparsable id
  | some tops =>
    let rec go (s : LRU × Nat) (i : Nat) : List (Nat × Nat × Nat) → Option String
      | [] => none
      | (n, v, r) :: rest =>
        let e := fibCall n s
        if e.1 == v && e.2.2 == r then go e.2 (i + 1) rest
        else some s!"top-level call {i} fib({n}): expected value {e.1} after {e.2.2} body runs, got value {v} after {r}"
    match go ({ cap := cap, items := [] }, 0) 0 tops with
    | none => s!"R {id} CORR=ok SPEC=ok SPECM=ok | direct-expectation"
    | some d => s!"R {id} CORR=diff SPEC=fail:self-recursive-calls SPECM=ok | direct-expectation {d}"

/-- `hdr` = arguments of the case line after the id; `body` = the observation lines -/
def handle (id : Nat) (hdr : List Sexp) (body : List Sexp) : String :=
  match hdr with
  | [.atom "recur", .atom "alru", cap] => match cap.nat? with | some cap => handleRecur id cap body | none => unparsable id
  | [.atom "recur", .atom "perinst", _] => handleRecur id 1000000000 body
  | _ =>
  match body.mapM line? with
  | none => unparsable id
  | some lines =>
    match hdr with
    | .atom "alru" :: cap :: ks :: s :: ss =>
      match cap.nat?, keySpec? ks, (s :: ss).mapM sig? with
      | some cap, some ks, some sigs => handleAlru id cap ks sigs lines
      | _, _, _ => unparsable id
    | .atom "perinst" :: s :: ss =>
      match (s :: ss).mapM sig? with
      | some sigs => handlePerInst id sigs lines
      | none => unparsable id
    | [.atom "lazy", ttl, t0] =>
      match ttl.nat?, t0.nat? with
      | some ttl, some t0 => handleLazy id ttl t0 lines
      | _, _ => unparsable id
    | _ => unparsable id

end AsynqModel.Drv.Cache
