import AsynqModel.Sexp
import AsynqModel.Lib.Cache
/-! driver glue for mode `cache` (property C13)

  (case cache <id> alru <maxsize> <default|const|sumParity|raw> <sig>)
  (case cache <id> perinst <sig>)
  (case cache <id> lazy <ttl> <t0>)
  <sig> = ((args..) (defaults..) (kwonly..) ((name default)..))
  (obs <op> <res> <runs> <extra>)
  <op>  = (call <inst> (args..) ((name value)..) <raises> <dur> <selfref>) | (drop <inst>) | (dirty) | (tick <d>)
          (<selfref> = the value the body returns refers to the instance; per-instance cases only, optional, default 0)
  <res> = (ok <stamp> (args..)) | (okNone) | (raisedUser <n>) | (raisedType) | (raisedOther <name>) | (unit)
-/
namespace AsynqModel.Drv.Cache
open AsynqModel AsynqModel.Cache

def pairs? : Sexp → Option (List (Nat × Nat))
  | .list l => l.mapM fun
    | .list [a, b] => do some ((← a.nat?), (← b.nat?))
    | _ => none
  | _ => none

def sig? : Sexp → Option Sig
  | .list [a, d, k, kd] => do
    some { args := (← a.natList?), defaults := (← d.natList?), kwonly := (← k.natList?), kwonlyDefaults := (← pairs? kd) }
  | _ => none

def keySpec? : Sexp → Option KeySpec
  | .atom "default" => some .default
  | .atom "const" => some .const
  | .atom "sumParity" => some .sumParity
  | .atom "raw" => some .raw
  | _ => none

def res? : Sexp → Option Res
  | .list [.atom "ok", n, b] => do some (.ok ⟨(← n.nat?), (← b.natList?)⟩)
  | .list [.atom "okNone"] => some .okNone
  | .list [.atom "raisedUser", n] => n.nat?.map .raisedUser
  | .list [.atom "raisedType"] => some .raisedType
  | .list (.atom "raisedOther" :: _) => some .raisedOther
  | .list [.atom "unit"] => some .unit
  | _ => none

/-- the generic wire operation -/
inductive WOp where
  | call (inst : Nat) (c : Call) (raises : Bool) (dur : Nat) (selfRef : Bool)
  | drop (inst : Nat)
  | dirty
  | tick (d : Nat)

def wop? : Sexp → Option WOp
  | .list [.atom "call", i, a, kw, r, d] => do
    some (.call (← i.nat?) { args := (← a.natList?), kwargs := (← pairs? kw) } (← r.bool?) (← d.nat?) false)
  | .list [.atom "call", i, a, kw, r, d, sr] => do
    some (.call (← i.nat?) { args := (← a.natList?), kwargs := (← pairs? kw) } (← r.bool?) (← d.nat?) (← sr.bool?))
  | .list [.atom "drop", i] => i.nat?.map .drop
  | .list [.atom "dirty"] => some .dirty
  | .list [.atom "tick", d] => d.nat?.map .tick
  | _ => none

def line? : Sexp → Option (WOp × Obs)
  | .list [.atom "obs", op, r, runs, extra] => do
    some ((← wop? op), { res := (← res? r), runs := (← runs.nat?), extra := (← extra.nat?) })
  | _ => none

def firstDiff (a b : List Obs) (i : Nat := 0) : Option (Nat × String) :=
  match a, b with
  | [], [] => none
  | x :: xs, y :: ys => if x == y then firstDiff xs ys (i+1) else some (i, s!"model={repr x} impl={repr y}")
  | x :: _, [] => some (i, s!"model={repr x} impl=<missing>")
  | [], y :: _ => some (i, s!"model=<missing> impl={repr y}")

def clauseStr : Option Clause → String
  | none => "ok"
  | some c => "fail:" ++ c.name

/-- `hyp` = does the case lie inside the hypotheses of the refinement theorem of its cache (C13_alru_refines / _keyfn,
    C13_per_instance_refines_partial, C13_lazy_refines)?  If it does, SPECM=ok is what the theorem says.
    `na` = the case contains a call the property does not speak about (Python cannot bind it because it passes too many
    positional arguments or one parameter twice; ASSUMPTIONS of checks/c13.py, `C13_*_callOK_needed`): the observers are
    not evaluated, only the correspondence is. -/
def answer (id : Nat) (model impl : List Obs) (spec specm : String) (hyp : Bool) (na : Bool := false) : String :=
  let corr := firstDiff model impl
  let c := match corr with | none => "ok" | some _ => "diff"
  let d := match corr with | none => "" | some (i, s) => (s!"obs {i}: {s}".replace "\n" " ")
  let h := if hyp then "hyp=inside" else "hyp=outside"
  if na then s!"R {id} CORR={c} SPEC=ok SPECM=ok | {h} spec-not-evaluated(unbindable-call; would be {spec}) {d}"
  else s!"R {id} CORR={c} SPEC={spec} SPECM={specm} | {h} {d}"

def unparsable (id : Nat) : String := s!"R {id} CORR=diff SPEC=ok SPECM=ok | unparsable case"

def handleAlru (id cap : Nat) (ks : KeySpec) (s : Sig) (lines : List (WOp × Obs)) : String :=
  match lines.mapM (fun (l : WOp × Obs) => match l.1 with
      | .call _ c r _ _ => some ({ c := c, raises := r } : Alru.Op) | _ => none) with
  | none => unparsable id
  | some ops =>
    let impl := lines.map (·.2)
    let mk := alruKey ks s
    let rk := alruRefKey ks s
    let bd := alruBind s
    let model := Alru.run mk bd (Alru.init cap) ops
    let sp := Alru.specClause rk bd cap ops impl
    let callsOK := ks != .default || ops.all fun op => alruCallOK s op.c
    let hyp := decide (1 ≤ cap) && callsOK
    answer id model impl (clauseStr sp) (clauseStr (Alru.specClause rk bd cap ops model)) hyp (!callsOK)

def handlePerInst (id : Nat) (s : Sig) (lines : List (WOp × Obs)) : String :=
  match lines.mapM (fun (l : WOp × Obs) => match l.1 with
      | .call i c r _ sr => some (PerInst.Op.call i c r sr) | .drop i => some (.drop i) | _ => none) with
  | none => unparsable id
  | some ops =>
    let impl := lines.map (·.2)
    let mk := perInstKey s
    let rk := perInstRefKey s
    let bd := perInstBind s
    let model := PerInst.run mk bd PerInst.init ops
    let callsOK := ops.all fun op => match op with | .call _ c _ _ => perInstCallOK s c | .drop _ => true
    let hyp := callsOK && PerInst.noSelfRef ops
    let sp := PerInst.specClause rk bd ops impl
    -- the observations are exactly those of the model, which keeps the entry of a dropped instance that one of its
    -- own cached values refers to: the recorded defect, told apart from every other way of failing `instances`
    let tag := if sp == some .instances && !PerInst.noSelfRef ops && model == impl then "+cached-value-refers-to-instance" else ""
    answer id model impl (clauseStr sp ++ tag) (clauseStr (PerInst.specClause rk bd ops model)) hyp (!callsOK)

def handleLazy (id ttl t0 : Nat) (lines : List (WOp × Obs)) : String :=
  match lines.mapM (fun (l : WOp × Obs) => match l.1 with
      | .call _ _ r d _ => some (Lazy.Op.call r d) | .dirty => some .dirty | .tick d => some (.tick d) | _ => none) with
  | none => unparsable id
  | some ops =>
    let impl := lines.map (·.2)
    let model := Lazy.run ttl (Lazy.init t0) ops
    answer id model impl (clauseStr (Lazy.specClause ttl t0 ops impl)) (clauseStr (Lazy.specClause ttl t0 ops model))
      (decide (1 ≤ t0))

/-- `hdr` = arguments of the case line after the id; `body` = the observation lines -/
def handle (id : Nat) (hdr : List Sexp) (body : List Sexp) : String :=
  match body.mapM line? with
  | none => unparsable id
  | some lines =>
    match hdr with
    | [.atom "alru", cap, ks, s] =>
      match cap.nat?, keySpec? ks, sig? s with
      | some cap, some ks, some s => handleAlru id cap ks s lines
      | _, _, _ => unparsable id
    | [.atom "perinst", s] =>
      match sig? s with
      | some s => handlePerInst id s lines
      | none => unparsable id
    | [.atom "lazy", ttl, t0] =>
      match ttl.nat?, t0.nat? with
      | some ttl, some t0 => handleLazy id ttl t0 lines
      | _, _ => unparsable id
    | _ => unparsable id

end AsynqModel.Drv.Cache
