/-
  Round-5 families of the core checks (harness/checks/corefam6c.py): behaviour outside the machine's language, judged by a
  DIRECT EXPECTATION - the property's statement for that family, computed here from the case description in the header;
  the implementation's observations are in the body.  No theorem speaks about these families (DESIGN.md 10.8); only the
  driver uses this file.
-/
import AsynqModel.Sexp
import AsynqModel.Drv.Families4
import AsynqModel.Drv.Families5
namespace AsynqModel.Drv.Families6c
open AsynqModel AsynqModel.Drv.Families4

private def a (s : String) : Sexp := .atom s

/-- the hook calls of a context of a task that is suspended `n` times inside the block: resumed on entry, paused and
    resumed once per suspension, paused on exit -/
def hookLetters (n : Nat) : List Sexp := (List.range (1 + n)).flatMap fun _ => [a "R", a "P"]

/-- what `asynq.scheduler.get_active_task()` answers inside those hook calls in the code as it is (scheduler.py,
    `_continue_with_task` / `_handle_async_task` call `_resume_contexts` / `_pause_contexts` BEFORE / AFTER the task is the
    active one): the hooks of `__enter__` / `__exit__` run inside the task (`self`); the scheduler-driven ones run while the
    scheduler's loop is between tasks: the active task is whoever called the loop synchronously (`caller`), `none` at top level -/
def hookActs (n : Nat) (sched : String) : List Sexp := [a "self"] ++ (List.range (2 * n)).map (fun _ => a sched) ++ [a "self"]

def schedTok (wrap : String) : String := if wrap == "sync" then "caller" else "none"

def logLines (body : List Sexp) : List (String × List Sexp × List Sexp) :=
  body.filterMap fun l => match l with
    | .list [.atom "log", .atom key, .list letters, .list acts] => some (key, letters, acts)
    | _ => none

/-! ### composite (C06 / C08): a context whose pause() leaves and whose resume() re-enters member contexts of the same task -/
def composite (id : Nat) (hdr body : List Sexp) : String :=
  match hdr with
  | [.list (.atom "ctxs" :: ctxs), .list (.atom "susp" :: susp), sib, .atom wrap, .atom _pid] =>
    let suspOf (e : Sexp) : Nat := match e with
      | .list [.atom "item"] => 1
      | .list [.atom "child", j, _] => natOf j
      | _ => 0
    let total := (susp.map suspOf).foldl (· + ·) 0
    let n := ctxs.length
    let sched := schedTok wrap
    let logs := logLines body
    -- the expected log of every context of the case, by key
    let wKeys : List (String × Nat) := (List.range n).map fun i => (s!"w-{i}", total)
    let mKeys : List (String × Nat) := (List.range n).flatMap fun i => match ctxs.getD i (a "") with
      | .list [.atom "C", m, _] => (List.range (natOf m)).map fun j => (s!"m-{i}-{j}", total)
      | _ => []
    let kKeys : List (String × Nat) := (List.range susp.length).flatMap fun s => match susp.getD s (a "") with
      | .list [.atom "child", j, nc] => (List.range (natOf nc)).map fun i => (s!"k-{s}-{i}", natOf j)
      | _ => []
    let expectedKeys := wKeys ++ mKeys ++ kKeys
    let find (key : String) := logs.find? (fun l => l.1 == key)
    let resumeSeq := (List.range n).map fun i => a s!"R{i}"
    let pauseSeq := ((List.range n).map fun i => a s!"P{i}").reverse
    let expOrder := resumeSeq ++ ((List.range total).flatMap fun _ => pauseSeq ++ resumeSeq) ++ pauseSeq
    let order := match body.find? (fun l => match l with | .list (.atom "order" :: _) => true | _ => false) with
      | some (.list (_ :: o)) => o
      | _ => []
    match body.find? (fun l => match l with | .list (.atom "result" :: _) => true | _ => false) with
    | some (.list [_, .atom out, clean, .atom act, .atom nx, .list (.atom "seen" :: seen)]) =>
      firstBad id ([
        (out == "ok", s!"composite-context-outcome-{out}",
          s!"a task holding {Sexp.list ctxs} suspended {total} times: outcome {out}; hook order {Sexp.list order}"),
        (logs.all (fun l => Families5.alternating l.2.1), "composite-context-hook-calls-do-not-alternate",
          s!"{logs.filter (fun l => !Families5.alternating l.2.1) |>.map (fun l => (l.1, Sexp.list l.2.1))}")] ++
        (expectedKeys.map fun (key, k) => match find key with
          | some (_, letters, _) => (letters == hookLetters k, "composite-context-not-paused-and-resumed-once-per-suspension",
              s!"context {key}: {k} suspensions, expected {Sexp.list (hookLetters k)}, got {Sexp.list letters}")
          | none => (false, "composite-context-never-entered", s!"context {key} has no log")) ++ [
        (logs.length == expectedKeys.length, "composite-context-unexpected-contexts", s!"{logs.length} logs for {expectedKeys.length} contexts"),
        (order == expOrder, "composite-context-not-resumed-in-entry-order-and-paused-in-reverse",
          s!"expected {Sexp.list expOrder}, got {Sexp.list order}"),
        (seen.length == natOf sib + 1 && seen.all (fun s => s.nat? == some 0), "composite-context-active-while-an-unrelated-task-runs",
          s!"number of active contexts of the worker at the steps of its sibling: {Sexp.list seen}"),
        (Families5.schedClean clean && act == "none", "composite-context-scheduler-not-clean", s!"{clean}, active task after the outermost call: {act}"),
        (nx == "ok", s!"composite-context-next-computation-{nx}", "")] ++
        (expectedKeys.map fun (key, k) => match find key with
          | some (_, _, acts) => (acts == hookActs k sched, "context-hook-sees-another-active-task",
              s!"context {key}: get_active_task() inside its hooks {Sexp.list acts}, expected {Sexp.list (hookActs k sched)}")
          | none => (true, "", "")))
    | _ => unparsable id "composite result"
  | _ => unparsable id "composite"

/-! ### hookenter (C08 / C06): a context whose resume() / pause() runs asynq code -/
def hookenter (id : Nat) (hdr body : List Sexp) : String :=
  match hdr with
  | [.list (.atom "ctxs" :: ctxs), nsusp, nworkers, .atom via, .atom wrap, runs, .atom _pid] =>
    let ns := natOf nsusp
    let nw := natOf nworkers
    let nr := natOf runs
    let sched := schedTok wrap
    -- how often the code inside the hooks of one context reports (corefam6c.run_hookenter): once per hook call it runs in
    let reports (c : Sexp) : Nat := match c with
      | .list [.atom "H", .atom when_, .atom what] =>
        if what == "keep" then (if when_ == "pause" then 0 else 1 + ns)
        else if when_ == "both" then 2 * (1 + ns) else 1 + ns
      | _ => 0
    let inner (c : Sexp) : Nat := match c with
      | .list [.atom "H", _, .atom "withL"] => reports c
      | _ => 0
    let sum (l : List Nat) := l.foldl (· + ·) 0
    let expHook := nr * nw * sum (ctxs.map reports)
    let expInner := nr * nw * sum (ctxs.map inner)
    let expActs := nr * (nw * (2 * ns + 1) + (if via == "child" then nw * ns else 0) + 1 + (if wrap == "sync" then 1 else 0))
    let logs := logLines body
    let isInner (key : String) : Bool := (key.splitOn "-i").length > 1
    let mainLogs := logs.filter fun l => !isInner l.1
    let innerLogs := logs.filter fun l => isInner l.1
    match body.find? (fun l => match l with | .list (.atom "result" :: _) => true | _ => false) with
    | some (.list [_, .list (.atom "runs" :: rs), .atom nx, .list (.atom "hook" :: hook), .list (.atom "acts" :: acts)]) =>
      let runChecks : List (Bool × String × String) := rs.flatMap fun r => match r with
        | .list [.atom out, clean, .atom act, s] => [
            (out == "ok", s!"hook-running-asynq-code-outcome-{out}", s!"contexts {Sexp.list ctxs}, {ns} suspensions via {via}: outcome {out}"),
            (Families5.schedClean clean, "hook-running-asynq-code-scheduler-not-clean", s!"{clean}"),
            (act == "none", "hook-running-asynq-code-active-task-not-none-after-the-outermost-call", s!"active task {act}"),
            (s.nat? == some 0, "hook-running-asynq-code-scoped-value-not-restored", s!"scoped value {s} after the computation")]
        | _ => [(false, "hook-running-asynq-code-unreadable-run", toString r)]
      firstBad id (runChecks ++ [
        (rs.length == nr, "hook-running-asynq-code-runs-missing", s!"{rs.length} of {nr}"),
        (nx == "ok", s!"hook-running-asynq-code-next-computation-{nx}", "the computation after it does not behave as on a fresh scheduler"),
        (hook.all (fun h => h.nat? == some 1) && hook.length == expHook, "hook-running-asynq-code-wrong-result-inside-the-hook",
          s!"code run inside the hooks reported {Sexp.list hook}, expected {expHook} times 1"),
        (acts.all (fun h => h.nat? == some 1) && acts.length == expActs, "hook-running-asynq-code-active-task-is-not-the-running-task",
          s!"get_active_task() is the running task at the observation points of the tasks: {Sexp.list acts}, expected {expActs} times 1"),
        (logs.all (fun l => Families5.alternating l.2.1), "hook-running-asynq-code-hook-calls-do-not-alternate",
          s!"{logs.filter (fun l => !Families5.alternating l.2.1) |>.map (fun l => (l.1, Sexp.list l.2.1))}"),
        (mainLogs.length == nr * nw * ctxs.length && mainLogs.all (fun l => l.2.1 == hookLetters ns),
          "hook-running-asynq-code-not-paused-and-resumed-once-per-suspension",
          s!"expected {nr * nw * ctxs.length} contexts with {Sexp.list (hookLetters ns)}; got {mainLogs.map (fun l => (l.1, Sexp.list l.2.1))}"),
        (innerLogs.length == expInner && innerLogs.all (fun l => l.2.1 == hookLetters 0),
          "hook-running-asynq-code-context-entered-inside-hook-not-resumed-and-paused-once",
          s!"expected {expInner} contexts with (R P); got {innerLogs.map (fun l => (l.1, Sexp.list l.2.1))}"),
        (mainLogs.all (fun l => l.2.2 == hookActs ns sched) &&
          innerLogs.all (fun l => l.2.2 == [a "self", a "self"] || l.2.2 == [a sched, a sched]), "context-hook-sees-another-active-task",
          s!"get_active_task() inside hooks, expected {Sexp.list (hookActs ns sched)}: {(mainLogs.filter (fun l => l.2.2 != hookActs ns sched)).map (fun l => (l.1, Sexp.list l.2.2))}")])
    | _ => unparsable id "hookenter result"
  | _ => unparsable id "hookenter"

/-! ### afterthrow (C07 / C06): overrides / contexts entered in the step of a task that follows a caught dependency error -/
def afterthrow (id : Nat) (hdr body : List Sexp) : String :=
  match hdr with
  | [.atom fail, .atom where_, .list (.atom "ov" :: ov), _pre, .atom hold, nhold, sib, .list [.atom "outer", os, oa], .atom _pid] =>
    let outerS := natOf os
    let outerA := natOf oa
    let nh := natOf nhold
    let lastOf (v : String) (dflt : Nat) : Nat :=
      ov.foldl (fun acc e => match e with | .list [.atom v', x] => if v' == v then natOf x else acc | _ => acc) dflt
    let inS := lastOf "S" outerS
    let inA := lastOf "A" outerA
    let nL := (ov.filter fun e => match e with | .list [.atom "L"] => true | _ => false).length
    let reads := body.filter fun l => match l with | .list (.atom "read" :: _) => true | _ => false
    let ctxs := body.filter fun l => match l with | .list (.atom "ctx" :: _) => true | _ => false
    let expReads := (natOf sib + 1) + 1 + (if where_ == "nested" then 2 else 1) + (1 + nh + 1) + (if where_ == "child-after" then 1 else 0)
      + (if hold == "child" then 2 * nh else 0)
    let what := s!"dependency failing as {fail}, overrides {Sexp.list ov} entered {where_}"
    let readChecks : List (Bool × String × String) := reads.map fun r => match r with
      | .list [_, .atom who, .atom wh, .atom scope, s, av] =>
        let (es, ea) := if scope == "i" then (inS, inA) else (outerS, outerA)
        (s.nat? == some es && av.nat? == some ea,
          (if who == "b" then "override-entered-after-a-caught-error-is-read-by-a-sibling-task"
           else if scope == "i" then "override-entered-after-a-caught-error-not-read-inside-its-block"
           else "override-entered-after-a-caught-error-read-outside-its-block"),
          s!"{what}: task {who} at {wh} read ({s}, {av}), expected ({es}, {ea})")
      | _ => (false, "afterthrow-unreadable-read", toString r)
    match body.find? (fun l => match l with | .list (.atom "result" :: _) => true | _ => false) with
    | some (.list [_, .atom out, clean, .list [.atom "after", s, av], .list [.atom "final", fs, fa]]) =>
      firstBad id ([(out == "ok", s!"context-after-caught-error-outcome-{out}", what)] ++ readChecks ++ [
        (reads.length == expReads, "context-after-caught-error-reads-missing", s!"{reads.length} reads, expected {expReads}"),
        (s.nat? == some outerS && av.nat? == some outerA, "override-entered-after-a-caught-error-outer-value-not-back",
          s!"{what}: root read ({s}, {av}) after its yield, expected ({outerS}, {outerA})"),
        (fs.nat? == some 0 && fa.nat? == some 0, "override-entered-after-a-caught-error-not-restored-at-the-end", s!"{what}: final ({fs}, {fa})"),
        (ctxs.length == nL && ctxs.all (fun l => match l with | .list [_, _, .list w] => w == hookLetters nh | _ => false),
          "context-entered-after-a-caught-error-not-paused-and-resumed-once-per-suspension",
          s!"{what}: expected {nL} logging contexts with {Sexp.list (hookLetters nh)}, got {Sexp.list ctxs}"),
        (Families5.schedClean clean, "context-after-caught-error-scheduler-not-clean", s!"{clean}")])
    | _ => unparsable id "afterthrow result"
  | _ => unparsable id "afterthrow"

end AsynqModel.Drv.Families6c
