/-
  Round-4 families of the core checks (harness/checks/corefam4.py, harness/checks/optprogs.py): behaviour outside the
  machine's language, judged by a DIRECT EXPECTATION - the property's statement for that family, computed here from the
  case description in the header; the implementation's observations are in the body.  No theorem speaks about these
  families (DESIGN.md 10.8); only the driver uses this file.
-/
import AsynqModel.Sexp
namespace AsynqModel.Drv.Families4
open AsynqModel

def good (id : Nat) : String := s!"R {id} CORR=ok SPEC=ok SPECM=ok | "
def bad (id : Nat) (clause detail : String) : String := s!"R {id} CORR=diff SPEC=fail:{clause} SPECM=ok | {detail}"
def unparsable (id : Nat) (what : String) : String := s!"R {id} CORR=diff SPEC=ok SPECM=ok | unparsable {what} case"

def items : Sexp → List Sexp
  | .list l => l
  | .atom _ => []

def atomStr : Sexp → String
  | .atom s => s
  | .list _ => ""

def natOf (s : Sexp) : Nat := s.nat?.getD 0

/-- `ys` is a permutation of the duplicate-free list `xs` -/
def sameElems (xs ys : List Sexp) : Bool :=
  xs.length == ys.length && xs.all (fun x => ys.contains x) && ys.all (fun y => xs.contains y)

/-- the first failing check of a list, as the verdict -/
def firstBad (id : Nat) (checks : List (Bool × String × String)) : String :=
  match checks.find? (fun c => !c.1) with
  | some (_, clause, detail) => bad id clause detail
  | none => good id

/-! ### aiostart (C03): start order = the order written in each yielded list / tuple, orphans never start -/
def aiostart (id : Nat) (hdr body : List Sexp) : String :=
  match hdr with
  | [.list (.atom "yields" :: ys), .list (.atom "orphans" :: _)] =>
    let expected := ys.flatMap items
    let modes := ["call", "value", "aiorun", "aionested"]
    let checks := modes.map fun m =>
      match body.find? (fun r => match r with | .list (.atom "result" :: .atom m' :: _) => m' == m | _ => false) with
      | some (.list [_, _, .atom out, .list starts, .list ends]) =>
        (out == "ok" && starts == expected && sameElems expected ends,
         s!"start-order-or-laziness-{m}-{out}",
         s!"{m}: expected starts {Sexp.list expected} (each finished once, nothing else started), got starts {Sexp.list starts} ends {Sexp.list ends}")
      | _ => (false, s!"start-order-or-laziness-{m}-missing", s!"no result for mode {m}")
    firstBad id checks
  | _ => unparsable id "aiostart"

/-! ### eventhook (C04 / C05): AsyncEventHook.trigger / safe_trigger next to siblings -/
def levelsOf (chains : List Nat) : List Sexp :=
  let maxc := chains.foldl max 0
  (List.range maxc).map fun k =>
    Sexp.list (((List.range chains.length).filter fun p => chains.getD p 0 > k).map fun p => Sexp.atom (toString p))

def eventhook (id : Nat) (hdr body : List Sexp) : String :=
  match hdr, body with
  | [.atom mode, .atom _entry, .list (.atom "handlers" :: hs), .list (.atom "siblings" :: sibs)],
    [.list [.atom "result", .atom out, .list calls, .list flushes, nb, na, clean]] =>
    let hk : List (String × Nat) := hs.map fun h => match h with
      | .list [.atom k, c] => (k, natOf c)
      | _ => ("?", 0)
    let n := hk.length
    let kinds := hk.map (·.1)
    -- trigger: a raising PLAIN handler stops the event while the list of handler calls is being built (qcore.EventHook
    -- semantics): later handlers are not called, the async handlers before it were created but are never awaited
    let stop : Option Nat := if mode == "trigger" then kinds.findIdx? (· == "rplain") else none
    let hchains := hk.map fun (k, c) => if stop.isSome then 0 else if k == "async" || k == "rasync" then c else 0
    let chains := hchains ++ sibs.map natOf
    let expFlushes := levelsOf chains
    let expCalls : List Nat := match stop with
      | some p => (List.range n).filter fun i => i ≤ p && (kinds.getD i "" == "plain" || kinds.getD i "" == "rplain")
      | none => List.range n
    let expOut := match stop with
      | some p => s!"err-{p}"
      | none => match kinds.findIdx? (fun k => k == "rasync" || k == "rplain") with
        | some i => s!"err-{i}"
        | none => "ok"
    let nfl := expFlushes.length
    firstBad id [
      (flushes.length == nfl, s!"eventhook-{mode}-flush-count-differs-from-longest-chain",
        s!"expected {nfl} flushes (longest chain of dependent requests), got {flushes.length}: {Sexp.list flushes}"),
      (flushes == expFlushes, s!"eventhook-{mode}-issuable-requests-not-in-one-flush", s!"expected flushes {Sexp.list expFlushes}, got {Sexp.list flushes}"),
      (calls == expCalls.map (fun i => Sexp.atom (toString i)), s!"eventhook-{mode}-handlers-not-called-exactly-once",
        s!"expected calls {expCalls}, got {Sexp.list calls}"),
      (out == expOut, s!"eventhook-{mode}-outcome", s!"expected {expOut}, got {out}"),
      (nb.nat? == some nfl && na.nat? == some nfl, s!"eventhook-{mode}-flush-events-not-once-per-flush", s!"{nb} before and {na} after events for {nfl} flushes"),
      ((match clean with | .list [.atom "clean", c, nb, live] => c.nat? == some 1 && nb.nat? == some 0 && live.nat? == some 0 | _ => false),
        s!"eventhook-{mode}-scheduler-not-clean", s!"{clean} (tasks/active clean, batches scheduled, live batches)")]
  | _, _ => unparsable id "eventhook"

/-! ### debugthreads (C04): DebugBatchItem under one name on two threads -/
def debugthreads (id : Nat) (hdr body : List Sexp) : String :=
  match hdr, body with
  | [.list (.atom "a" :: a), .list (.atom "b" :: b)],
    [.list [.atom "result", .atom "A", .atom outA, .list flA], .list [.atom "result", .atom "B", .atom outB, .list flB], .list [.atom "foreign", fo]] =>
    let expA := levelsOf (a.map natOf)
    let expB := levelsOf (b.map natOf)
    firstBad id [
      (fo.nat? == some 0, "debug-batch-shared-between-threads", s!"{fo} flushes carried requests of the other thread's computation"),
      (outA == "ok" && outB == "ok", s!"debug-batch-two-threads-outcome-{outA}-{outB}", ""),
      (flA == expA, "debug-batch-two-threads-flushes-differ-from-own-chains", s!"thread A: expected {Sexp.list expA}, got {Sexp.list flA}"),
      (flB == expB, "debug-batch-two-threads-flushes-differ-from-own-chains", s!"thread B: expected {Sexp.list expB}, got {Sexp.list flB}")]
  | _, _ => unparsable id "debugthreads"

/-! ### hookssurvive (C05): before/after events across a guard reset / TaskScheduler.reset() / a new scheduler -/
def hookssurvive (id : Nat) (hdr body : List Sexp) : String :=
  match hdr, body with
  | [.atom how, k], [.list [.atom "result", .atom first, .list log1, .atom second, .list log2, same, .list logNew, .list mid]] =>
    let kk := natOf k
    let a := fun (s : String) => Sexp.atom s
    let triple := (List.range kk).flatMap fun _ => [a "before", a "body", a "after"]
    let bodies := (List.range kk).map fun _ => a "body"
    let pairs := (List.range kk).flatMap fun _ => [a "before", a "after"]
    -- whether the thread still has the SAME scheduler object is read off the observation (asynq.scheduler.reset() installs a
    -- new one, the guard and TaskScheduler.reset() keep the object - neither is demanded): handlers subscribed to the object
    -- that is the thread's scheduler during the second computation see before/body/after, handlers of a replaced object
    -- see the flush bodies only
    let newSched := same.nat? == some 0
    let expMid := if how == "guard" || how == "guard-nested" then [a "guard"] else if how == "none" then [a "none"]
      else if how == "flush-raises" then [a "raised-flush-error:before.body.after"] else [a "reset"]
    firstBad id [
      (first == "ok" && log1 == triple, s!"flush-events-first-computation-{first}", s!"expected {Sexp.list triple}, got {Sexp.list log1}"),
      (if how == "flush-raises" then mid == expMid else mid.all (fun m => expMid.contains m),
        (if how == "flush-raises" then "after-event-lost-when-batch-flush-raises" else s!"hooks-survive-{how}-setup"),
        s!"expected every step {Sexp.list expMid}, got {Sexp.list mid}"),
      (second == "ok", s!"computation-after-{how}-{second}", ""),
      (if newSched then log2 == bodies && logNew == pairs else log2 == triple && logNew == [],
        s!"flush-events-lost-after-{how}",
        s!"expected {if newSched then Sexp.list bodies else Sexp.list triple} on the old handlers and {if newSched then Sexp.list pairs else Sexp.list []} on the new ones, got {Sexp.list log2} and {Sexp.list logNew}")]
  | _, _ => unparsable id "hookssurvive"

/-! ### callctx (C07 / C06): tools.call_with_context -/
def alternates (s : String) : Bool :=
  let rec go : List Char → Bool
    | [] => true
    | 'R' :: 'P' :: rest => go rest
    | _ => false
  !s.isEmpty && go s.toList

def readCount (kind : String) : Nat :=
  match kind with
  | "gen" => 2 | "proxy-task" => 3 | "proxy-const" => 1 | "acall-plain" => 1 | "acall-gen" => 2 | "wrapper" => 3
  | "dedup" => 2 | "meth" => 5 | "pure" => 2 | _ => 0

def callctx (id : Nat) (hdr body : List Sexp) : String :=
  match hdr with
  | [.list [.atom "outer", os, oa]] =>
    let outerS := natOf os   -- "none" ↦ 0 = the default of both variables
    let outerA := natOf oa
    let checkCall (c : Sexp) : List (Bool × String × String) :=
      match c with
      | .list [.atom "call", i, .atom kind, .list (.atom "chain" :: chain), .list (.atom "reads" :: reads), .list (.atom "ctx" :: ctxs)] =>
        let lastOf (v : String) (dflt : Nat) : Nat :=
          (chain.foldl (fun acc e => match e with | .list [.atom v', x] => if v' == v then natOf x else acc | _ => acc) dflt)
        let expS := lastOf "S" outerS
        let expA := lastOf "A" outerA
        let nL := (chain.filter fun e => match e with | .list [.atom "L", _] => true | _ => false).length
        let readChecks := reads.map fun r => match r with
          | .list [.atom wh, s, av] =>
            (s.nat? == some expS && av.nat? == some expA, s!"call-with-context-read-at-{wh}-is-not-the-innermost-override",
             s!"call {i} ({kind}, chain {Sexp.list chain}): read ({s}, {av}) at {wh}, expected ({expS}, {expA})")
          | _ => (false, "call-with-context-unparsable-read", toString r)
        readChecks ++ [
          (reads.length == readCount kind, s!"call-with-context-reads-missing-{kind}", s!"call {i}: {reads.length} reads, expected {readCount kind}"),
          (ctxs.length == nL && ctxs.all (fun l => match l with | .list [_, .atom w] => alternates w | _ => false),
            "call-with-context-resume-pause-do-not-alternate", s!"call {i}: context logs {Sexp.list ctxs} for {nL} logging contexts")]
      | _ => []
    let calls := body.filter fun c => match c with | .list (.atom "call" :: _) => true | _ => false
    let res := body.find? fun c => match c with | .list (.atom "result" :: _) => true | _ => false
    let resChecks : List (Bool × String × String) := match res with
      | some (.list [_, .atom out, .list [.atom "after", s, av], .list [.atom "final", fs, fa]]) => [
          (out == "ok", s!"call-with-context-outcome-{out}", ""),
          (s.nat? == some outerS && av.nat? == some outerA, "call-with-context-outer-value-not-back-after-the-call", s!"after the calls ({s}, {av}), expected ({outerS}, {outerA})"),
          (fs.nat? == some 0 && fa.nat? == some 0, "call-with-context-value-not-restored-at-the-end", s!"final ({fs}, {fa})")]
      | some r => [(false, "call-with-context-outcome-unreadable", toString r)]
      | none => [(false, "call-with-context-no-result", "")]
    firstBad id (resChecks.take 1 ++ calls.flatMap checkCall ++ resChecks.drop 1)
  | _ => unparsable id "callctx"

/-! ### selfawait (C08): a running task awaited by a computation it started synchronously -/
def selfawait (id : Nat) (hdr body : List Sexp) : String :=
  match hdr, body with
  | [.atom via, _tol, .atom after], [.list [.atom "result", .atom out, .atom nested, ab, aa, .list top, .list nxt, fia, act2]] =>
    let one := fun (s : Sexp) => s.nat? == some 1
    -- deduplicate hands out a FRESH task while the first instance is running (tools.py; `running` is set when a task is
    -- resumed with a value): after an ordinary or an empty yield the nested call is served.  (Resumed with an error the
    -- task catches, `running` stays False and deduplicate hands the running task out: not C08's business - recorded.)
    let mustBeFresh := via == "dedup-send" || via == "dedup-empty"
    let a := fun (s : String) => Sexp.atom s
    firstBad id [
      (one fia && one ab && one aa, "selfawait-active-task-is-not-the-running-task",
        s!"get_active_task() is the task: at its start {fia}, before the nested call {ab}, after it {aa}"),
      (!mustBeFresh || nested == "ok", "selfawait-running-task-handed-out-by-deduplicate", s!"nested call: {nested}"),
      (nested == "ok" || nested == "ValueError", s!"selfawait-nested-call-{nested}", ""),
      -- the outcome of the outermost call as a function of the case: a task that really awaits ITSELF is failed with
      -- ValueError('generator already executing') whatever it does afterwards (tolerating it cannot change a stored
      -- outcome); a fresh instance handed out by deduplicate lets the first one finish: its value, or what it raises
      (out == (if !mustBeFresh then "raised-ValueError" else if after == "raise" then "raised-Inner" else "value"),
        (if out == "wrong-value" then "selfawait-wrong-value" else s!"selfawait-outcome-{out}"),
        s!"via {via}, after {after}: outcome {out}"),
      (top == [a "1", a "0", a "1", a "0", a "0"] && one act2, "selfawait-scheduler-not-clean-after-outermost-call",
        s!"outcome {out}; (active task None, tasks retained, same scheduler, batches scheduled, live batches) = {Sexp.list top}, active task None after the next computation: {act2}"),
      (nxt == [a "1", a "3", a "1"], "selfawait-next-computation-not-as-on-a-fresh-scheduler",
        s!"next computation (values 1 3, creator None): {Sexp.list nxt}")]
  | _, _ => unparsable id "selfawait"

/-! ### exotic (C02): see corecommon.run_exotic; header = error class, source -/
def exoticClass (err : String) : String :=
  match err with
  | "Exception" => "ValueError" | "StopIteration" => "MyStop" | "falsy" => "Falsy" | "Cancelled" => "AsyncTaskCancelledError"
  | "CancelledSub" => "MyCancelled" | e => e

/-- the structure of values 10, 11, ... that must arrive for a yielded structure of the given shape -/
def exoticValues (shape : String) : Sexp :=
  let n (i : Nat) : Sexp := .atom (toString (10 + i))
  let tup (xs : List Sexp) : Sexp := .list (.atom "tup" :: xs)
  match shape with
  | "bare" => n 0
  | "tuple1" => tup [n 0]
  | "tuple2" => tup [n 0, n 1]
  | "tuple3" => tup [n 0, n 1, n 2]
  | "tuple5" => tup [n 0, n 1, n 2, n 3, n 4]
  | "list3" => .list [.atom "lst", n 0, n 1, n 2]
  | "dict3" => .list [.atom "dict", .list [.atom "0", n 0], .list [.atom "1", n 1], .list [.atom "2", n 2]]
  | _ => tup [n 0, .list [.atom "lst", n 1, .list [.atom "dict", .list [.atom "k", tup [n 2, n 3, .atom "none"]]]], .atom "none"]

def exotic (id : Nat) (hdr body : List Sexp) : String :=
  match hdr, body with
  | [.atom err, .atom _src, .atom shape], [.list [.atom "result", out, .list evs]] =>
    -- raw observations (what arrived as a structure; class name and identity bit of what was raised), judged here:
    -- values before and after arrive with the prescribed shape; THE error object (identity) of the prescribed class is
    -- raised at the yield; uncaught it becomes the task's own failure and value() of the root raises that very instance -
    -- except a plain GeneratorExit (a generator ending with it counts as `return None`, by design) and StopIteration
    -- (CPython turns it into RuntimeError inside a generator, PEP 479): the harness skips that phase, and must
    let cls := exoticClass err
    let vals := Sexp.list [.atom "values", exoticValues shape]
    let last := if err == "GeneratorExit" || err == "StopIteration" then Sexp.list [.atom "skipped"]
      else Sexp.list [.atom "uncaught", .atom cls, .atom "1"]
    let expected := [vals, Sexp.list [.atom "caught", .atom cls, .atom "1"], vals, last]
    let outOk := out == Sexp.list [.atom "returned", .atom "7"]
    let tag := match out with | .list (.atom t :: _) => t | _ => "unreadable"
    if outOk && evs == expected then good id
    else bad id s!"error-or-values-not-delivered-at-the-yield-{if outOk then "ok" else tag}" s!"expected {Sexp.list expected}, got {out} {Sexp.list evs}"
  | _, _ => unparsable id "exotic"

/-! ### optprog (C20): hand-written programs over rarely used public API, run without and with options -/
def optprog (id : Nat) (body : List Sexp) : String :=
  let sep := Sexp.list [.atom "sep"]
  let a := body.takeWhile (· != sep)
  let b := (body.dropWhile (· != sep)).drop 1
  let unreadable (l : List Sexp) : Bool := l.any fun e => match e with
    | .list [.atom "unparsable"] | .atom _ => true
    | _ => false
  if a.isEmpty || !body.contains sep then bad id "options-program-produced-no-observation" ""
  else if unreadable a || unreadable b then bad id "options-program-unreadable-observation" ""
  else if a == b then good id
  else
    let i := ((a.zip b).takeWhile fun (x, y) => x == y).length
    bad id "options-change-behaviour-of-program" s!"first difference at event {i}: {a[i]?.map toString} vs {b[i]?.map toString}"

end AsynqModel.Drv.Families4
