import AsynqModel.Sexp
import AsynqModel.Lib.Futures
/-! driver glue for mode `futures` (property C10) -/
namespace AsynqModel.Drv.Futures
open AsynqModel AsynqModel.Futures

def kind? : List Sexp → Option Kind
  | [.atom "lazyOk", n] => n.nat?.map .lazyOk
  | [.atom "lazyErr", n] => n.nat?.map .lazyErr
  | [.atom "const", n] => n.nat?.map .const
  | [.atom "error", n] => n.nat?.map .error
  | [.atom "taskOk", n] => n.nat?.map .taskOk
  | [.atom "taskErr", n] => n.nat?.map .taskErr
  | [.atom "lazySelfSet", n] => n.nat?.map (fun v => .lazySelfSet v (v + 1))
  | _ => none

def op? : Sexp → Option Op
  | .list [.atom "value"] => some .value
  | .list [.atom "error"] => some .error
  | .list [.atom "call"] => some .call
  | .list [.atom "isComputed"] => some .isComputed
  | .list [.atom "setValue", n] => n.nat?.map .setValue
  | .list [.atom "setError", n] => n.nat?.map .setError
  | .list [.atom "reset"] => some .reset
  | .list [.atom "subscribe", n, b] => do some (.subscribe (← n.nat?) (← b.bool?))
  | _ => none

def outc? : Sexp → Option (Option Outc)
  | .atom "none" => some none
  | .list [.atom "val", n] => n.nat?.map (fun v => some (.val v))
  | .list [.atom "err", n] => n.nat?.map (fun e => some (.err e))
  | _ => none

def res? : Sexp → Option Res
  | .list [.atom "ok", n] => n.nat?.map .ok
  | .list [.atom "errIs", .atom "none"] => some (.errIs none)
  | .list [.atom "errIs", n] => n.nat?.map (fun e => .errIs (some e))
  | .list [.atom "raised", .atom "user", n] => n.nat?.map (fun e => .raised (.user e))
  | .list [.atom "raised", .atom "alreadyComputed"] => some (.raised .alreadyComputed)
  | .list [.atom "raised", .atom "notImplemented"] => some (.raised .notImplemented)
  | .list (.atom "raised" :: _) => some (.raised .other)
  | .list [.atom "bool", b] => b.bool?.map .bool
  | .list [.atom "unit"] => some .unit
  | _ => none

def cb? : Sexp → Option Cb
  | .list [n, o] => do some { sub := (← n.nat?), seen := (← outc? o) }
  | _ => none

def obs? : Sexp → Option Obs
  | .list [.atom "obs", op, r, .list cbs, aft, runs] => do
    some { op := (← op? op), res := (← res? r), cbs := (← cbs.mapM cb?), after := (← outc? aft), runs := (← runs.nat?) }
  | _ => none

def firstDiff (a b : List Obs) (i : Nat := 0) : Option (Nat × String) :=
  match a, b with
  | [], [] => none
  | x :: xs, y :: ys => if x == y then firstDiff xs ys (i+1) else some (i, s!"model={repr x} impl={repr y}")
  | x :: _, [] => some (i, s!"model={repr x} impl=<missing>")
  | [], y :: _ => some (i, s!"model=<missing> impl={repr y}")

/-- `hdr` = arguments of the case line after the id; `body` = the observation lines -/
def handle (id : Nat) (hdr : List Sexp) (body : List Sexp) : String :=
  match kind? hdr, body.mapM obs? with
  | some k, some impl =>
    let ops := impl.map (·.op)
    let model := run (init k) ops
    let corr := firstDiff model impl
    let spec := specClause k impl
    let specm := specClause k model
    let c := match corr with | none => "ok" | some _ => "diff"
    let d := match corr with | none => "" | some (i, s) => (s!"obs {i}: {s}".replace "\n" " ")
    let f (s : String) := if s == "ok" then "ok" else "fail:" ++ s
    s!"R {id} CORR={c} SPEC={f spec} SPECM={f specm} | {d}"
  | _, _ => s!"R {id} CORR=diff SPEC=ok SPECM=ok | unparsable case"

end AsynqModel.Drv.Futures
