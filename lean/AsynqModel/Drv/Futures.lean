import AsynqModel.Sexp
import AsynqModel.Lib.Futures
/-! driver glue for mode `futures` (property C10) -/
namespace AsynqModel.Drv.Futures
open AsynqModel AsynqModel.Futures

def kind? : List Sexp → Option Kind
  | [.atom "lazyOk", n] => n.nat?.map .lazyOk
  | [.atom "lazyErr", n] => n.nat?.map .lazyErr
  | [.atom "const", n] => n.nat?.map .const
  | [.atom "error", n] => n.nat?.map .error
  | [.atom "errorNone", _] => some .errorNone
  | [.atom "taskOk", n] => n.nat?.map .taskOk
  | [.atom "taskErr", n] => n.nat?.map .taskErr
  | [.atom "lazySelfSet", n] => n.nat?.map (fun v => .lazySelfSet v (v + 1))
  | _ => none

def outc1? : Sexp → Option Outc
  | .list [.atom "val", n] => n.nat?.map .val
  | .list [.atom "err", n] => n.nat?.map .err
  | _ => none

/-- `good | raising | raisingBad | raisingWorse | oneShot | unsub j | resub j | reenter (val v) | reenter (err e)`; `0` / `1` = the old spelling -/
def beh? : List Sexp → Option Beh
  | [.atom "good"] | [.atom "0"] => some .good
  | [.atom "raising"] | [.atom "1"] => some .raising
  | [.atom "raisingBad"] => some .raisingBad
  | [.atom "raisingWorse"] => some .raisingWorse
  | [.atom "oneShot"] => some .oneShot
  | [.atom "unsub", n] => n.nat?.map .unsub
  | [.atom "resub", n] => n.nat?.map .resub
  | [.atom "reenter", o] => (outc1? o).map .reenter
  | _ => none

def op? : Sexp → Option Op
  | .list [.atom "value"] => some .value
  | .list [.atom "error"] => some .error
  | .list [.atom "call"] => some .call
  | .list [.atom "isComputed"] => some .isComputed
  | .list [.atom "setValue", n] => n.nat?.map .setValue
  | .list [.atom "setError", n] => n.nat?.map .setError
  | .list [.atom "setErrorNone"] => some .setErrorNone
  | .list [.atom "reset"] => some .reset
  | .list (.atom "subscribe" :: n :: b) => do some (.subscribe (← n.nat?) (← beh? b))
  | .list [.atom "unsubscribe", n] => n.nat?.map .unsubscribe
  | .list [.atom "option", .atom "perf", b] => b.bool?.map (.option .perfStats)
  | .list [.atom "option", .atom "dump", b] => b.bool?.map (.option .dumpComputed)
  | .list [.atom "raiseIfError"] => some .raiseIfError
  | .list [.atom "inspect"] => some .inspect
  | _ => none

/-- `statsOk perf` after the kind in the case line (absent = the defaults: the perf-stats step can run, profiling off) -/
def cfg? : List Sexp → Option Cfg
  | [] => some {}
  | [h, p] => do some { statsOk := (← h.bool?), perf := (← p.bool?) }
  | _ => none

def outc? : Sexp → Option (Option Outc)
  | .atom "none" => some none
  | .list [.atom "val", n] => n.nat?.map (fun v => some (.val v))
  | .list [.atom "err", n] => n.nat?.map (fun e => some (.err e))
  | _ => none

def res? : Sexp → Option Res
  | .list [.atom "ok", n] => n.nat?.map .ok
  | .list [.atom "errIs", .atom "none"] => some (.errIs none)
  | .list [.atom "errIs", n] => n.nat?.map (fun e => .errIs (some e))
  | .list [.atom "raised", .atom "user", n] => n.nat?.map (fun e => .raised (.user e))
  | .list [.atom "raised", .atom "alreadyComputed"] => some (.raised .alreadyComputed)
  | .list [.atom "raised", .atom "notImplemented"] => some (.raised .notImplemented)
  | .list [.atom "raised", .atom "notSubscribed"] => some (.raised .notSubscribed)
  | .list [.atom "raised", .atom "hook"] => some (.raised .hook)
  | .list [.atom "raised", .atom "subRepr"] => some (.raised .subRepr)
  | .list (.atom "raised" :: _) => some (.raised .other)
  | .list [.atom "bool", b] => b.bool?.map .bool
  | .list [.atom "unit"] => some .unit
  | _ => none

def cb? : Sexp → Option Cb
  | .list [n, o] => do some { sub := (← n.nat?), seen := (← outc? o) }
  | .list [n, o, r] => do some { sub := (← n.nat?), seen := (← outc? o), inner := some (← res? r) }
  | _ => none

def obs? : Sexp → Option Obs
  | .list [.atom "obs", op, r, .list cbs, aft, runs] => do
    some { op := (← op? op), res := (← res? r), cbs := (← cbs.mapM cb?), after := (← outc? aft), runs := (← runs.nat?) }
  | _ => none

def firstDiff (a b : List Obs) (i : Nat := 0) : Option (Nat × String) :=
  match a, b with
  | [], [] => none
  | x :: xs, y :: ys => if x == y then firstDiff xs ys (i+1) else some (i, s!"model={repr x} impl={repr y}")
  | x :: _, [] => some (i, s!"model={repr x} impl=<missing>")
  | [], y :: _ => some (i, s!"model=<missing> impl={repr y}")

/-- `hdr` = arguments of the case line after the id; `body` = the observation lines -/
def handle (id : Nat) (hdr : List Sexp) (body : List Sexp) : String :=
  match kind? (hdr.take 2), cfg? (hdr.drop 2), body.mapM obs? with
  | some k, some c, some impl =>
    let ops := impl.map (·.op)
    let model := run (init k c) ops
    let corr := firstDiff model impl
    let spec := specClause k impl
    let specm := specClause k model
    let c := match corr with | none => "ok" | some _ => "diff"
    let d := match corr with | none => "" | some (i, s) => (s!"obs {i}: {s}".replace "\n" " ")
    let f (s : String) := if s == "ok" then "ok" else "fail:" ++ s
    s!"R {id} CORR={c} SPEC={f spec} SPECM={f specm} | {d}"
  | _, _, _ => s!"R {id} CORR=diff SPEC=ok SPECM=ok | unparsable case"

/-! ### mode `futsubs`: notification rounds of futures that are NOT kinds of the one-future model (batch items, batches,
  DebugBatchItem, AsyncTasks that block) - no theorem speaks about how these complete; each round is judged by the
  same clause `notifiedAll` (the one `spec` uses and `C10_spec_holds` is about) plus the plain
  statements "a second set raises FutureIsAlreadyComputed" and "value() / call report the outcome".

  (fut) (sub id beh...)* (round outc (cbs) second-set-result read1 read2 expected-outc)*  per watched future  -/

def subLine? : Sexp → Option Sub
  | .list (.atom "sub" :: n :: b) => do some ((← n.nat?), (← beh? b))
  | _ => none

structure Round where
  out : Option Outc
  cbs : List Cb
  again : Res
  r1 : Res
  r2 : Res
  expected : Option Outc     -- the outcome the harness handed to the completion path
  more : List (Op × Res) := []   -- further operations on the completed future, with their results (in order)

def round? : Sexp → Option Round
  | .list [.atom "round", o, .list cbs, a, r1, r2, e] => do
    some { out := (← outc? o), cbs := (← cbs.mapM cb?), again := (← res? a), r1 := (← res? r1), r2 := (← res? r2),
           expected := (← outc? e) }
  | .list [.atom "round", o, .list cbs, a, r1, r2, e, .list more] => do
    some { out := (← outc? o), cbs := (← cbs.mapM cb?), again := (← res? a), r1 := (← res? r1), r2 := (← res? r2),
           expected := (← outc? e),
           more := (← more.mapM fun | .list [op, r] => do some ((← op? op), (← res? r)) | _ => none) }
  | _ => none

/-- the further operations on the COMPLETED target (error(), is_computed(), a refused set_error / set_error(None) / set_value,
    subscribe + unsubscribe of a late handler, raise_if_error): each answers what `watchStep` demands of a future known to hold `o`
    (the computed branch of the observer of `spec`: the observation is built with no notification, outcome `o`, same run counter) -/
def moreOk (o : Outc) : List (Op × Res) → Bool
  | [] => true
  | (op, r) :: rest =>
    (match op with
      | .subscribe _ _ | .unsubscribe _ => r == .unit     -- the late handler is subscribed and removed again; it is never notified (cbs of the round)
      | _ =>
        match watchStep (.lazyOk 0) { known := some o, subs := [], runs := 0, done := true }
            { op := op, res := r, cbs := [], after := some o, runs := 0 } with
        | .ok _ => true
        | .error _ => false) && moreOk o rest

def judgeRounds (subs : List Sub) (i : Nat) : List Round → String
  | [] => "ok"
  | r :: rs =>
    match r.out with
    | none => s!"compute-completes@round{i}"
    | some o =>
      if r.expected != some o then s!"outcome@round{i}"
      else if !notifiedAll subs r.cbs o then s!"notify-once@round{i}"
      else if r.again != .raised .alreadyComputed then s!"failed-set-raises@round{i}"
      else if r.r1 != readValue o || r.r2 != readValue o then s!"reads-stable@round{i}"
      else if !moreOk o r.more then s!"computed-future-changes@round{i}"
      else judgeRounds (afterNotify subs) (i + 1) rs

/-- the body is a sequence of groups `(fut) (sub ..)* (round ..)*`, one per watched future -/
def groups : List Sexp → List (List Sexp)
  | [] => []
  | x :: xs =>
    match groups xs with
    | [] => if x == .list [.atom "fut"] then [[]] else [[x]]
    | g :: gs => if x == .list [.atom "fut"] then [] :: g :: gs else (x :: g) :: gs

/-- one watched future: (parsable, expected ids per round, notified ids per round, verdict) -/
def judgeGroup (g : List Sexp) : Bool × List (List Nat) × List (List Nat) × String :=
  let subs := g.filterMap subLine?
  let rounds := g.filterMap round?
  -- what the notification rule of the model produces for these rounds (outcomes taken from the observation)
  let exp := (rounds.foldl (fun (acc : List Sub × List (List Nat)) _ =>
    (afterNotify acc.1, acc.2 ++ [acc.1.map (·.1)])) (subs, [])).2
  let got := rounds.map fun r => r.cbs.map (·.sub)
  (subs.length + rounds.length == g.length && !rounds.isEmpty, exp, got, judgeRounds subs 0 rounds)

def handleSubs (id : Nat) (_hdr : List Sexp) (body : List Sexp) : String :=
  -- `groups` leaves an empty first group when the body starts with `(fut)`
  let gs := ((groups body).filter (!·.isEmpty)).map judgeGroup
  if gs.isEmpty || gs.any (fun g => !g.1) then s!"R {id} CORR=diff SPEC=ok SPECM=ok | unparsable futsubs case"
  else
    let exp := gs.map (·.2.1)
    let got := gs.map (·.2.2.1)
    let verdict := match (gs.zipIdx.filter (fun g => g.1.2.2.2 != "ok")).head? with
      | none => "ok"
      | some (g, i) => if gs.length == 1 then g.2.2.2 else s!"{g.2.2.2}-level{i}"
    let c := if exp == got then "ok" else "diff"
    let f (s : String) := if s == "ok" then "ok" else "fail:" ++ s
    s!"R {id} CORR={c} SPEC={f verdict} SPECM=ok | notified per future and round: expected {exp}, got {got}"

/-! ### mode `futcopy`: a ConstFuture / ErrorFuture constructed by copy.copy / copy.deepcopy / pickle / __reduce__ -
  no theorem speaks about copies; direct expectation: the copy exists, is computed, reports the original's outcome,
  refuses a second set (FutureIsAlreadyComputed), still reports the outcome afterwards, and the original is untouched.

  (result made computed same second-set-result kept original-untouched) -/
def handleCopy (id : Nat) (_hdr : List Sexp) (body : List Sexp) : String :=
  match body with
  | [.list [.atom "result", made, computed, same, again, kept, orig]] =>
    let b (x : Sexp) := x.nat? == some 1
    let verdict :=
      if !b made then "copy-fails"
      else if !b computed then "copy-not-complete-from-construction"
      else if !b same then "copy-reports-another-outcome"
      else if res? again != some (.raised .alreadyComputed) then "failed-set-raises"
      else if !b kept then "failed-set-noop"
      else if !b orig then "original-changed"
      else "ok"
    if verdict == "ok" then s!"R {id} CORR=ok SPEC=ok SPECM=ok | "
    else s!"R {id} CORR=diff SPEC=fail:{verdict} SPECM=ok | made {made} computed {computed} same-outcome {same} second-set {again} outcome-kept {kept} original-untouched {orig}"
  | _ => s!"R {id} CORR=diff SPEC=ok SPECM=ok | unparsable futcopy case"

/-! ### mode `futsusp`: a suspended AsyncTask completed from outside (possibly with a raising clean-up in its generator).
  Blocking tasks are not kinds of the one-future model; direct expectation: the outcome is the outside one (read twice),
  every subscriber is notified exactly once, in order, seeing that outcome, and the outside `set_value` / `set_error`
  RETURNED - or, if the clean-up of the generator raises, raised exactly that exception (after the notifications).  Fails closed: an unparsable count or
  result line is a report.

  header: outside(value|error) cleanup(0|1) nsubs;  (result o1 o2 (seen...) (log...)) -/
def handleSuspended (id : Nat) (hdr : List Sexp) (body : List Sexp) : String :=
  match hdr, body with
  | [.atom outside, cleanup, n], [.list [.atom "result", .atom o1, .atom o2, .list seen, .list log]] =>
    match n.nat? with
    | none => s!"R {id} CORR=diff SPEC=ok SPECM=ok | unparsable futsusp case (count)"
    | some cnt =>
      let want := if outside == "value" then "val" else "err"
      let expSeen := (List.range cnt).map fun i => Sexp.atom s!"{i}:{want}"
      if outside != "value" && outside != "error" then s!"R {id} CORR=diff SPEC=ok SPECM=ok | unparsable futsusp case (outside)"
      -- the exception of a raising clean-up (generator.close() inside AsyncTask._computed's try/finally) reaches the
      -- outside completer after everybody was notified: the only exception the outside set may answer with
      else if o1 == want && o2 == want && seen == expSeen &&
          (log.isEmpty || (cleanup.nat? == some 1 && log == [Sexp.atom "set-raised-boom"])) then s!"R {id} CORR=ok SPEC=ok SPECM=ok | "
      else if !log.isEmpty && o1 == want && o2 == want && seen == expSeen then
        s!"R {id} CORR=diff SPEC=fail:outside-completion-raises SPECM=ok | the outside set answered {Sexp.list log}"
      else s!"R {id} CORR=diff SPEC=fail:outside-completion-{o1}-{o2}-notified-{seen.length}-of-{expSeen.length} SPECM=ok | expected outcome {want} twice and notifications {Sexp.list expSeen}, got {Sexp.list seen}, outside set {Sexp.list log}"
  | _, _ => s!"R {id} CORR=diff SPEC=ok SPECM=ok | unparsable futsusp case"

end AsynqModel.Drv.Futures
