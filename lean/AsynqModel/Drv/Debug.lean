import AsynqModel.Sexp
import AsynqModel.Lib.Debug
/-! driver glue for mode `debug` (property C18); three kinds of cases: `filter`, `glue`, `repr` -/
namespace AsynqModel.Drv.Debug
open AsynqModel AsynqModel.Debug

def verdict (id : Nat) (corr : Option String) (spec specm : String) : String :=
  let c := match corr with | none => "ok" | some _ => "diff"
  let d := match corr with | none => "" | some s => s.replace "\n" " "
  let f (s : String) := if s == "ok" then "ok" else "fail:" ++ s
  s!"R {id} CORR={c} SPEC={f spec} SPECM={f specm} | {d}"

def firstBad (l : List String) : String :=
  match l.filter (· != "ok") with
  | c :: _ => c
  | [] => "ok"

/-! ### filter -/

def repl? : Sexp → Option Repl
  | .list (m :: ps) => do some { marker := (← m.nat?), pats := (← ps.mapM Sexp.nat?) }
  | _ => none

def tables? : Sexp → Option (List Repl)
  | .list (.atom "tables" :: rs) => rs.mapM repl?
  | _ => none

def lines? : Sexp → Option (List Line)
  | .list (.atom "lines" :: ls) => do
    let hs ← ls.mapM Sexp.natList?
    some (hs.zipIdx.map fun (h, i) => { id := i, has := h })
  | _ => none

def out? (inp : List Line) : Sexp → Option Out
  | .list [.atom "c", n] => do
    let i ← n.nat?
    some (match inp[i]? with | some l => .copy l | none => .unknown)
  | .list [.atom "m", n] => n.nat?.map .marker
  | .list [.atom "x"] => some .unknown
  | _ => none

def outs? (inp : List Line) : Sexp → Option (List Out)
  | .list (.atom "out" :: os) => os.mapM (out? inp)
  | _ => none

def tb? : Sexp → Option (List Line × List Out)
  | .list [.atom "tb", ls, os] => do
    let inp ← lines? ls
    some (inp, ← outs? inp os)
  | _ => none

def showOut : Out → String
  | .copy l => s!"c{l.id}"
  | .marker m => s!"m{m}"
  | .unknown => "x"

def handleFilter (id : Nat) (hdr body : List Sexp) : String :=
  match hdr.head?.bind tables?, body.mapM tb? with
  | some tbl, some tbs =>
    let judged := tbs.zipIdx.map fun ((inp, out), i) =>
      let model := filterTb tbl inp
      let corr := if model == out then none
        else some s!"traceback {i}: model={" ".intercalate (model.map showOut)} impl={" ".intercalate (out.map showOut)}"
      (corr, filterClause tbl inp out, filterClause tbl inp model)
    let corr := (judged.filterMap (·.1)).head?
    verdict id corr (firstBad (judged.map (·.2.1))) (firstBad (judged.map (·.2.2)))
  | _, _ => verdict id (some "unparsable filter case") "ok" "ok"

/-! ### glue -/

def handler? : Sexp → Option Handler
  | .atom "pass" => some .pass
  | .atom "bare" => some .bare
  | .atom "named" => some .named
  | .atom "swallow" => some .swallow
  | .list [.atom "new", h] => h.nat?.map .raiseNew
  | _ => none

def await? : Sexp → Option Await
  | .atom "yld" => some .yld
  | .atom "sync" => some .sync
  | _ => none

def own? : Sexp → Option (Option Nat)
  | .atom "none" => some none
  | .list [.atom "some", h] => h.nat?.map some
  | _ => none

def level? : Sexp → Option Level
  | .list [.atom "lvl", a, h, o, orp] => do
    some { await := (← await? a), handler := (← handler? h), own := (← own? o), orphan := (← orp.bool?) }
  | _ => none

def levels? : Sexp → Option (List Level)
  | .list (.atom "levels" :: ls) => ls.mapM level?
  | _ => none

def frame? : Sexp → Option Frame
  | .list [.atom "c"] => some .caller
  | .list [.atom "t", n] => n.nat?.map .task
  | .list [.atom "h", n, k] => do some (.helper (← n.nat?) (← k.nat?))
  | .list [.atom "o", n] => n.nat?.map .orphan
  | .list [.atom "k", n] => n.nat?.map .hook
  | .list [.atom "j", n, k] => do some (.hookHelper (← n.nat?) (← k.nat?))
  | .list [.atom "x"] => some (.orphan 99999)     -- a user frame the harness could not identify
  | _ => none

def frames? (tag : String) : Sexp → Option (List Frame)
  | .list (.atom t :: fs) => if t == tag then fs.mapM frame? else none
  | _ => none

def stackKind? : Sexp → Option StackKind
  | .atom "start" => some .start
  | .atom "handler" => some .handler
  | .atom "orphan" => some .orphan
  | _ => none

def event? : Sexp → Option Event
  | .list [.atom "stack", k, lv, ls] => do some (.stack (← stackKind? k) (← lv.nat?) (← ls.natList?))
  | .list [.atom "result", .atom "ok"] => some (.result none)
  | .list [.atom "result", .atom "err", tok, raw, vis, fmt] => do
    some (.result (some (← tok.nat?, ← frames? "raw" raw, ← frames? "vis" vis, ← frames? "fmt" fmt)))
  | _ => none

def firstDiffE (a b : List Event) (i : Nat := 0) : Option String :=
  match a, b with
  | [], [] => none
  | x :: xs, y :: ys => if x == y then firstDiffE xs ys (i + 1) else some s!"event {i}: model={repr x} impl={repr y}"
  | x :: _, [] => some s!"event {i}: model={repr x} impl=<missing>"
  | [], y :: _ => some s!"event {i}: model=<missing> impl={repr y}"

def bottom? : Sexp → Option Bottom
  | .atom "0" => some .none
  | .atom "1" => some .errFuture
  | .list [.atom "hook", .atom "pause", h] => h.nat?.map (.hook false)
  | .list [.atom "hook", .atom "resume", h] => h.nat?.map (.hook true)
  | _ => none

def rule? : Sexp → Option FrameRule
  | .atom "deepest" => some .deepest
  | .atom "own" => some .own
  | _ => none

def handleGlue (id : Nat) (hdr body : List Sexp) : String :=
  match hdr, body.mapM event? with
  | [b, r, ls], some impl =>
    match bottom? b, rule? r, levels? ls with
    | some bottom, some rule, some levels =>
      let model := runTop rule bottom levels
      let corr := firstDiffE model impl
      let spec := glueClause bottom levels impl
      -- "stack-foreign-entry-sync" is the signature of a RECORDED finding (the framework prints KNOWN-FINDING and goes
      -- on, and does not look at CORR of a case that fails SPEC).  It stands for "the implementation does what the
      -- model of the defective code does": if the model disagrees anywhere in this case, something else is wrong
      -- too, and the case gets another name (audit 2, N8)
      let spec := if spec == "stack-foreign-entry-sync" && corr.isSome
        then "stack-foreign-entry-sync-and-model-differs" else spec
      verdict id corr spec (glueClause bottom levels model)
    | _, _, _ => verdict id (some "unparsable glue header") "ok" "ok"
  | _, _ => verdict id (some "unparsable glue case") "ok" "ok"

/-- a chain whose exceptions reject attribute assignment (`glue-reject`) -/
def handleGlueReject (id : Nat) (hdr body : List Sexp) : String :=
  match hdr, body.mapM event? with
  | [b, r, ls], some impl =>
    match bottom? b, rule? r, levels? ls with
    | some bottom, some rule, some levels =>
      if !rejectDomain bottom levels then verdict id (some "glue-reject case outside rejectDomain") "ok" "ok"
      else
        let model := runTopC .rejects rule bottom levels
        verdict id (firstDiffE model impl) (rejectClause rule bottom levels impl) (rejectClause rule bottom levels model)
    | _, _, _ => verdict id (some "unparsable glue-reject header") "ok" "ok"
  | _, _ => verdict id (some "unparsable glue-reject case") "ok" "ok"

def retrieval? : Sexp → Option Retrieval
  | .list [.atom "direct"] => some .direct
  | .list [.atom "via", a] => (await? a).map .viaTask
  | _ => none

def retrievals? : Sexp → Option (List Retrieval)
  | .list (.atom "again" :: rs) => rs.mapM retrieval?
  | _ => none

/-- a chain of at least one task whose result is asked again by later consumers (`again`) -/
def handleAgain (id : Nat) (hdr body : List Sexp) : String :=
  match hdr, body.mapM event? with
  | [b, r, ls, ag], some impl =>
    match bottom? b, rule? r, levels? ls, retrievals? ag with
    | some bottom, some rule, some levels, some rs =>
      let model := runTopAgain rule bottom levels rs
      let corr := firstDiffE model impl
      let spec := againClause bottom levels rs impl
      let spec := if spec == "stack-foreign-entry-sync" && corr.isSome
        then "stack-foreign-entry-sync-and-model-differs" else spec
      verdict id corr spec (againClause bottom levels rs model)
    | _, _, _, _ => verdict id (some "unparsable again header") "ok" "ok"
  | _, _ => verdict id (some "unparsable again case") "ok" "ok"

/-! ### repr -/

def outc? : Sexp → Option (Option Outc)
  | .atom "none" => some none
  | .atom "err" => some (some .err)
  | .atom "plain" => some (some (.val .plain))
  | .atom "self" => some (some (.val .self))
  | .atom "cycle" => some (some (.val .cycle))
  | _ => none

def tbAttr? : Sexp → Option TbAttr
  | .atom "none" => some .absent
  | .atom "0" => some .isNone
  | .atom "1" => some .real
  | .atom "2" => some .garbage
  | _ => none

def genAttrs? : Sexp → Option (List Nat × List Nat)
  | .list [.atom "genattrs", .list (.atom "init" :: a), .list (.atom "reads" :: b)] => do
    some (← a.mapM Sexp.nat?, ← b.mapM Sexp.nat?)
  | _ => none

def constInit? : Sexp → Option Bool
  | .list [.atom "constinit", b] => b.bool?
  | _ => none

def payShape? : Sexp → Option PayShape
  | .atom "other" => some .other
  | .list [.atom "tuple", n] => n.nat?.map .tuple
  | _ => none

def holder? : Sexp → Option Holder
  | .atom "scopedValue" => some .scopedValue
  | .atom "scopedOverride" => some .scopedOverride
  | .atom "propOverride" => some .propOverride
  | .atom "genValue" => some .genValue
  | _ => none

def badHolder? : Sexp → Option BadHolder
  | .atom "future" => some .future
  | .atom "errorFuture" => some .errorFuture
  | .atom "task" => some .task
  | .atom "scopedValue" => some .scopedValue
  | .atom "scopedOverride" => some .scopedOverride
  | .atom "propOverride" => some .propOverride
  | .atom "genValue" => some .genValue
  | _ => none

def obj? (gen : List Nat × List Nat) (ci : Bool) : Sexp → Option Obj
  | .list [.atom "fut", r, o] => do some (.fut { inRepr := (← r.bool?), out := (← outc? o) })
  | .list [.atom "task", o, dopen, d, al, it] => do
    some (.task { out := (← outc? o), depsOpen := (← dopen.nat?), deps := (← d.nat?), alive := (← al.bool?), iter := (← it.nat?) })
  | .list [.atom "batch", c, e, n] => do some (.batch { computed := (← c.bool?), err := (← e.bool?), items := (← n.nat?) })
  | .list [.atom "sched", t, b, a] => do some (.sched { tasks := (← t.nat?), batches := (← b.nat?), active := (← a.bool?) })
  | .list [.atom "plain"] => some .plain
  | .list [.atom "holder", k, p] => do some (.holder (← holder? k) (← payShape? p))
  | .list [.atom "gen"] => some (.asyncGen gen.1 gen.2)
  | .list [.atom "constinit"] => some (.constInit ci)
  | .list [.atom "badheld", k, d] => do some (.badHeld (← badHolder? k) (← d.bool?))
  | .list [.atom "fe", n, x, ta, tg] => do
    some (.fmtErr { isNone := (← n.bool?), isExc := (← x.bool?), tbAttr := (← tbAttr? ta), tbArg := (← tg.bool?) })
  | _ => none

def op? : Sexp → Option Op
  | .atom "str" => some .str
  | .atom "repr" => some .repr
  | .atom "dump" => some .dump
  | _ => none

def futShown? : Sexp → Option FutShown
  | .atom "recursion" => some .recursion
  | .atom "notComputed" => some .notComputed
  | .atom "value" => some .value
  | .atom "valueSelf" => some .valueSelf
  | .atom "valueRec" => some .valueRec
  | .atom "error" => some .error
  | _ => none

def taskStatus? : Sexp → Option TaskStatus
  | .atom "computedValue" => some .computedValue
  | .atom "computedError" => some .computedError
  | .atom "blocked" => some .blocked
  | .atom "waiting" => some .waiting
  | .atom "almostFinished" => some .almostFinished
  | _ => none

def batchStatus? : Sexp → Option BatchStatus
  | .atom "cancelled" => some .cancelled
  | .atom "flushed" => some .flushed
  | .atom "pending" => some .pending
  | _ => none

def feShown? : Sexp → Option FeShown
  | .atom "none" => some .none
  | .atom "tb" => some .withTraceback
  | .atom "only" => some .onlyException
  | .atom "empty" => some .empty
  | _ => none

def section? : Sexp → Option Section
  | .atom "line" => some .line
  | .atom "deps" => some .deps
  | .atom "noDeps" => some .noDeps
  | .atom "items" => some .items
  | .atom "noItems" => some .noItems
  | .atom "tasks" => some .tasks
  | .atom "noTasks" => some .noTasks
  | _ => none

def shown? : Sexp → Option Shown
  | .list [.atom "fut", s] => (futShown? s).map .fut
  | .list [.atom "task", s, n, it] => do some (.task (← taskStatus? s) (← n.nat?) (← it.nat?))
  | .list [.atom "batch", s, n] => do some (.batch (← batchStatus? s) (← n.nat?))
  | .list [.atom "sched", t, b, a] => do some (.sched (← t.nat?) (← b.nat?) (← a.bool?))
  | .list [.atom "text"] => some .text
  | .list [.atom "fe", s] => (feShown? s).map .fe
  | .list [.atom "dump", s] => (section? s).map .dump
  | _ => none

def res? : Sexp → Option Res
  | .list [.atom "ok", s] => (shown? s).map .ok
  | .list [.atom "raised", .atom "AttributeError"] => some (.raised .attributeError)
  | .list [.atom "raised", .atom "TypeError"] => some (.raised .typeError)
  | .list [.atom "raised", .atom "Misdescribed"] => some (.raised .misdescribed)
  | .list (.atom "raised" :: _) => some (.raised .other)
  | _ => none

structure ReprObs where
  kind : String
  scen : String
  opName : String
  obj : Obj
  op : Op
  res : Res

def atomStr : Sexp → String
  | .atom s => s
  | _ => "?"

def reprObs? (gen : List Nat × List Nat) (ci : Bool) : Sexp → Option ReprObs
  | .list [.atom "obs", k, sc, op, st, r] => do
    some { kind := atomStr k, scen := atomStr sc, opName := atomStr op, obj := (← obj? gen ci st), op := (← op? op), res := (← res? r) }
  | _ => none

def handleRepr (id : Nat) (hdr body : List Sexp) : String :=
  match hdr.head?.bind genAttrs?, (hdr.drop 1).head?.bind constInit? with
  | some gen, some ci =>
    match body.mapM (reprObs? gen ci) with
    | some obs =>
      let judged := obs.map fun o =>
        let m := render o.obj o.op
        -- a text the harness could not classify (reworded message) is compared as "returned something" only
        let same := m == o.res || (o.res == .ok .text && m.isOk)
        let corr := if same then none
          else some s!"{o.kind}/{o.scen}/{o.opName}: model={repr m} impl={repr o.res}"
        -- what is named in the clause: the operation, for runs under a DUMP_* option the option
        let what := if o.kind == "dumpAll" then o.scen else o.opName
        (corr, reprClause o.kind what o.obj o.res, reprClause o.kind what o.obj m)
      verdict id (judged.filterMap (·.1)).head? (firstBad (judged.map (·.2.1))) (firstBad (judged.map (·.2.2)))
    | none => verdict id (some "unparsable repr observation") "ok" "ok"
  | _, _ => verdict id (some "unparsable repr header") "ok" "ok"

/-- `hdr` = arguments of the case line after the id: the kind of case, then its parameters -/
def handle (id : Nat) (hdr : List Sexp) (body : List Sexp) : String :=
  match hdr with
  | .atom "filter" :: rest => handleFilter id rest body
  | .atom "glue" :: rest => handleGlue id rest body
  | .atom "glue-reject" :: rest => handleGlueReject id rest body
  | .atom "again" :: rest => handleAgain id rest body
  | .atom "repr" :: rest => handleRepr id rest body
  | _ => verdict id (some "unknown kind of debug case") "ok" "ok"

end AsynqModel.Drv.Debug
