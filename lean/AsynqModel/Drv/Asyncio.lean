import AsynqModel.Sexp
import AsynqModel.Lib.Asyncio
/-! driver glue for mode `asyncio` (property C15): parse the program and the implementation's observations under the five
    ways of running it, run the model, diff, evaluate `Asyncio.specClauseP` (the observation-only clauses `specClause`, then the
    program-aware ones `specObsP`) on the implementation's observations -/
namespace AsynqModel.Drv.Asyncio
open AsynqModel AsynqModel.Asyncio
open AsynqModel.Core (Val)

/-- values; anything the vocabulary cannot express becomes a sentinel node, so the case stays comparable -/
partial def val (s : Sexp) : Val :=
  match s with
  | .atom "none" => .none
  | .list [.atom "a", n] => match n.nat? with | some k => .a k | none => .node 999999 []
  | .list (.atom "tup" :: l) => .tup (l.map val)
  | .list (.atom "lst" :: l) => .lst (l.map val)
  | .list (.atom "dict" :: l) =>
    let ps := l.map fun
      | .list [k, v] => (k.nat?.getD 999999, val v)
      | _ => (999999, Val.node 999999 [])
    .dict (ps.map (·.1)) (ps.map (·.2))
  | .list (.atom "node" :: t :: l) => .node (t.nat?.getD 999999) (l.map val)
  | _ => .node 999999 []

def err? : Sexp → Option Err
  | .list [.atom "u", n] => n.nat?.map .u
  | .list [.atom "b", n] => n.nat?.map .b
  | .atom "typeerr" => some .typeerr
  | .atom "syncRefused" => some .syncRefused
  | .list (.atom "other" :: _) => some .other
  | _ => none

def out? : Sexp → Option Out
  | .list [.atom "ok", v] => some (.ok (val v))
  | .list [.atom "err", e] => (err? e).map .err
  | .list [.atom "esc", v] => some (.esc (val v))
  | _ => none

def kind? : Sexp → Option Kind
  | .atom "gen" => some .gen
  | .atom "meth" => some .meth
  | .atom "pure" => some .pure
  | .atom "proxy" => some .proxy
  | .atom "plain" => some .plain
  | .atom "dedup" => some .dedup
  | _ => none

def call? : Sexp → Option Call
  | .list [k, a, l] => do some { kind := (← kind? k), afn := (← a.bool?), label := (← l.nat?) }
  -- 4th component: variant of the declaration; bit 0 = declared with `sync_fn=` (the other bits - classmethod / staticmethod /
  -- @deduplicate() - select access paths that the model does not distinguish)
  | .list [k, a, l, v] => do some { kind := (← kind? k), afn := (← a.bool?), label := (← l.nat?), sfn := (← v.nat?) % 2 == 1 }
  | _ => none

def toYsL : List Ys → YsL
  | [] => .nil
  | y :: ys => .cons y (toYsL ys)

mutual
partial def prog? : Sexp → Option Prog
  | .list [.atom "ret", t] => t.nat?.map .ret
  | .list [.atom "res", t] => t.nat?.map .res
  | .list [.atom "raise", e] => e.nat?.map .raise
  | .list [.atom "raiseB", e] => e.nat?.map .raiseB
  | .list [.atom "reraise"] => some .reraise
  | .list [.atom "yld", y, k, h] => do some (.yld false (← ys? y) (← prog? k) (← prog? h))
  | .list [.atom "yldB", y, k, h] => do some (.yld true (← ys? y) (← prog? k) (← prog? h))
  | .list [.atom "sync", c, p, k, h] => do some (.sync (← call? c) (← prog? p) (← prog? k) (← prog? h))
  | _ => none
partial def ys? : Sexp → Option Ys
  | .atom "none" => some .none
  | .atom "junk" => some .junk
  | .list [.atom "const", v] => v.nat?.map .const
  | .list [.atom "pconst", v] => v.nat?.map .pconst
  -- a future that is not a ConstFuture: ErrorFuture(user error n) / the lazy Future(lambda: n)
  | .list [.atom "efut", n] => n.nat?.map (.ofut true)
  | .list [.atom "lfut", n] => n.nat?.map (.ofut false)
  | .list [.atom "task", c, p] => do some (.task (← call? c) (← prog? p))
  | .list (.atom "tup" :: l) => (l.mapM ys?).map (fun x => .tup (toYsL x))
  | .list (.atom "lst" :: l) => (l.mapM ys?).map (fun x => .lst (toYsL x))
  | .list (.atom "dict" :: l) => do
    let ps ← l.mapM fun
      | .list [k, v] => do some ((← k.nat?), (← ys? v))
      | _ => none
    some (.dict (ps.map (·.1)) (toYsL (ps.map (·.2))))
  -- an instance of a SUBCLASS of tuple / list / dict with the same content
  | .list (.atom "tupS" :: l) => (l.mapM ys?).map (fun x => .sub (.tup (toYsL x)))
  | .list (.atom "lstS" :: l) => (l.mapM ys?).map (fun x => .sub (.lst (toYsL x)))
  | .list (.atom "dictS" :: l) => do
    let ps ← l.mapM fun
      | .list [k, v] => do some ((← k.nat?), (← ys? v))
      | _ => none
    some (.sub (.dict (ps.map (·.1)) (toYsL (ps.map (·.2)))))
  -- an @async_proxy() function returning None or a container (of futures) instead of one future
  -- a child task whose explicit asyncio_fn is written as a generator-based coroutine (`@types.coroutine`)
  | .list [.atom "gco", y] => do
    let y' ← ys? y
    match y' with
    | .task c p => if c.afn then some (.gco (.task c p)) else none
    | _ => none
  | .list [.atom "pval", y] => do
    let y' ← ys? y
    match y' with
    | .none | .tup _ | .lst _ | .dict _ _ | .sub _ => some (.pval y')
    | _ => none
  | _ => none
end

def ev (s : Sexp) : Ev :=
  let r : Option Ev := match s with
    | .list [.atom "start", t, m] => do some (.start (← t.nat?) (← m.bool?))
    | .list [.atom "run", t, i, dc, m, o] => do some (.run (← t.nat?) (← i.nat?) (← dc.bool?) (← m.bool?) (← out? o))
    | .list [.atom "fin", t, o] => do some (.fin (← t.nat?) (← out? o))
    | .list [.atom "afn", t] => t.nat?.map .afn
    | .list [.atom "syncX", t, o] => do some (.syncX (← t.nat?) (← out? o))
    | .list [.atom "sfn", t] => t.nat?.map .sfn
    | _ => none
  r.getD (.bad (toString s))

def conv? : Sexp → Option Conv
  | .atom "call" => some .call
  | .atom "value" => some .value
  | .atom "aio" => some .aio
  | .atom "aiorun" => some .aiorun
  | .atom "aiotask" => some .aiotask
  | _ => none

def obs? : Sexp → Option Obs
  | .list [.atom "conv", c, b, o, a, cn, .list evs] => do
    some { conv := (← conv? c), before := (← b.bool?), out := (← out? o), after := (← a.bool?), canary := (← out? cn),
           log := evs.map ev }
  | _ => none

/-- per-task form of a log: `Asyncio.canonE`, the stable sort by task label (the interleaving of different tasks is the event
    loop's / the scheduler's business and is not compared).  `diffObs` below reports a difference exactly when
    `Asyncio.sameView` is false (by reading; no theorem); theorem `C15_spec_respects_correspondence`: `sameViews` implies
    SPEC = SPECM. -/
def canonObs (ob : Obs) : Obs := { ob with log := canonE ob.log }

def convName : Conv → String
  | .call => "call" | .value => "value" | .aio => "aio" | .aiorun => "aiorun" | .aiotask => "aiotask"

def diffLog (m i : List Ev) (n : Nat := 0) : Option String :=
  match m, i with
  | [], [] => none
  | x :: xs, y :: ys => if x == y then diffLog xs ys (n + 1) else some s!"event {n}: model={repr x} impl={repr y}"
  | x :: _, [] => some s!"event {n}: model={repr x} impl=<end of log>"
  | [], y :: _ => some s!"event {n}: model=<end of log> impl={repr y}"

def diffObs (m i : Obs) : Option String :=
  if m.conv != i.conv then some s!"conv model={convName m.conv} impl={convName i.conv}" else
  let pre := convName m.conv ++ ": "
  if m.before != i.before then some (pre ++ s!"flag before: model={m.before} impl={i.before}") else
  if m.out != i.out then some (pre ++ s!"outcome: model={repr m.out} impl={repr i.out}") else
  if m.after != i.after then some (pre ++ s!"flag after: model={m.after} impl={i.after}") else
  if m.canary != i.canary then some (pre ++ s!"sync call afterwards: model={repr m.canary} impl={repr i.canary}") else
  (diffLog m.log i.log).map (pre ++ ·)

def diffHead (m i : Obs) : Option String :=
  if m.log.head? != i.log.head? then
    some (convName m.conv ++ s!": first event: model={repr m.log.head?} impl={repr i.log.head?}")
  else none

def firstDiff : List Obs → List Obs → Option String
  | [], [] => none
  | m :: ms, i :: is => match (diffObs (canonObs m) (canonObs i)).orElse (fun _ => diffHead m i) with
    | some d => some d
    | none => firstDiff ms is
  | m :: _, [] => some s!"impl lacks {convName m.conv}"
  | [], i :: _ => some s!"impl has extra {convName i.conv}"

/-- is the root call `(pure 0 label var)` with bit 1 of `var` set: the `pure=True` function declared as a METHOD of a class and
    reached through its binder (`Asyncio.observeR`; since /repo fec982c the model's observations do not depend on it)?  (for a
    child the bit selects an access path the model does not distinguish) -/
def rootPM : Sexp → Bool
  | .list [.atom "pure", _, _, v] => (v.nat?.getD 0) / 2 % 2 == 1
  | _ => false

/-- `hdr` = `[(task CALL PROG)]`; `body` = one `(conv ...)` line per way of running -/
def handle (id : Nat) (hdr : List Sexp) (body : List Sexp) : String :=
  match hdr with
  | [.list [.atom "task", c, p]] =>
    let pm := rootPM c
    match call? c, prog? p, body.mapM obs? with
    | some c, some p, some impl =>
      -- `specClausePWith model` below = `specClausePR pm` (by definition), with the model run once
      let model := observeR pm c p
      let corr := firstDiff model impl
      -- `specClausePWith model` = `specClauseP` (by definition), with the model run once
      let spec := specClausePWith model c p impl
      let specm := specClausePWith model c p model
      let cs := match corr with | none => "ok" | some _ => "diff"
      let d := match corr with | none => "" | some s => (s.replace "\n" " ")
      let f (s : String) := if s == "ok" then "ok" else "fail:" ++ s
      s!"R {id} CORR={cs} SPEC={f spec} SPECM={f specm} | {d}"
    | _, _, _ => s!"R {id} CORR=diff SPEC=ok SPECM=ok | unparsable case"
  | _ => s!"R {id} CORR=diff SPEC=ok SPECM=ok | unparsable header"

end AsynqModel.Drv.Asyncio
