/-
  Round-5 families of the core checks (harness/checks/corefam6t.py): behaviour outside the machine's language, judged by a
  DIRECT EXPECTATION - the property's statement for that family, computed here from the case description in the header;
  the implementation's observations are in the body.  No theorem speaks about these families (DESIGN.md 10.8); only the
  driver uses this file.
-/
import AsynqModel.Sexp
import AsynqModel.Drv.Families4
import AsynqModel.Drv.Families5
namespace AsynqModel.Drv.Families6t
open AsynqModel AsynqModel.Drv.Families4

/-! ### crossthread (C04 / C05 / C08): two threads in mid-computation at the same time, tasks handed from thread to thread -/

/-- the thread that computes a computation: P and the warm-up WX on X, Q and WY on Y -/
def threadOf (who : String) : String := if who == "P" || who == "WX" then "X" else "Y"

def crossthread (id : Nat) (hdr body : List Sexp) : String :=
  match hdr, body with
  | [.list (.atom "p" :: p), .list (.atom "q" :: q), .list [.atom "warm", wx, wy], .list [.atom "prep", _, _], .atom _pid],
    [.list [.atom "result", .list [.atom "P", .atom oP], .list [.atom "Q", .atom oQ], .list [.atom "WX", .atom oWX], .list [.atom "WY", .atom oWY]],
     .list [.atom "threads", .atom tx, .atom ty], .list (.atom "flushes" :: fl), .list [.atom "active-bad", .list ab],
     .list [.atom "batches", multi, unfl], .list [.atom "sched", cx, cy]] =>
    let warmChains : List Sexp := [.atom "1", .atom "2"]
    let chainsOf (who : String) : List Nat :=
      ((if who == "P" then p else if who == "Q" then q else warmChains).map natOf)
    let ran (who : String) : Bool := who == "P" || who == "Q" || (who == "WX" && wx.nat? == some 1) || (who == "WY" && wy.nat? == some 1)
    -- a flush record: (owner thread, flushing thread, computation, leaves, mixed)
    let foreign := fl.filter fun f => match f with
      | .list [.atom owner, .atom by_, .atom who, _, _] => !(owner == by_ && owner == threadOf who)
      | _ => true
    let mixed := fl.filter fun f => match f with
      | .list [_, _, _, _, m] => m.nat? != some 0
      | _ => true
    let flushesOf (who : String) : List Sexp := fl.filterMap fun f => match f with
      | .list [_, _, .atom w, leaves, _] => if w == who then some leaves else none
      | _ => none
    let perWho := ["P", "Q", "WX", "WY"].map fun who =>
      let exp := if ran who then levelsOf (chainsOf who) else []
      (flushesOf who == exp, s!"crossthread-flushes-differ-from-own-chains-{who}",
        s!"computation {who} (chains {chainsOf who}): expected flushes {Sexp.list exp}, got {Sexp.list (flushesOf who)}; all flushes {Sexp.list fl}")
    let expOut (w : String) := if ran w then "ok" else "not-run"
    firstBad id ([
      (foreign.isEmpty, "crossthread-batch-flushed-by-another-threads-scheduler",
        s!"(owner thread, flushing thread, computation, leaves, mixed): {Sexp.list foreign} of {Sexp.list fl}"),
      (mixed.isEmpty, "crossthread-flush-carries-requests-of-two-computations", s!"{Sexp.list mixed}")] ++ perWho ++ [
      (oP == "ok" && oQ == "ok" && oWX == expOut "WX" && oWY == expOut "WY" && tx == "ok" && ty == "ok",
        s!"crossthread-outcome-P-{oP}-Q-{oQ}", s!"P {oP} Q {oQ} WX {oWX} WY {oWY} threads {tx} {ty}"),
      (ab.isEmpty, "crossthread-active-task-is-not-the-running-task", s!"get_active_task() was not the running leaf in computations {Sexp.list ab}"),
      (multi.nat? == some 0 && unfl.nat? == some 0, "crossthread-batch-not-flushed-exactly-once", s!"{multi} batches flushed more than once, {unfl} with items never flushed"),
      (Drv.Families5.schedClean cx && Drv.Families5.schedClean cy, "crossthread-scheduler-not-clean", s!"thread X {cx}, thread Y {cy}")])
  | _, _ => unparsable id "crossthread"

/-! ### prioflush (C05): the flush order among pending batches = repeatedly the greatest get_priority() -/

structure PKind where
  n : Nat
  how : String
  rounds : List (Nat × Nat × Nat)   -- (items answered before the flush, override p, override q)

/-- what `get_priority()` of the batch of round r returns: the override wherever it lives (class, instance attribute,
    mock.patch.object), else the stock `(0, len(self.items))` - ALL items, answered or not -/
def prioOf (kinds : List PKind) (b : Nat × Nat) : Nat × Nat :=
  match kinds[b.1]? with
  | some kd => match kd.rounds[b.2]? with
    | some (pre, p, q) => if kd.how == "default" then (0, kd.n + pre) else (p, q)
    | none => (0, 0)
  | none => (0, 0)

def lexLt (x y : Nat × Nat) : Bool := x.1 < y.1 || (x.1 == y.1 && x.2 < y.2)

/-- `_continue_with_batch` again and again: the pending batch of greatest priority is flushed; its kind's leaves then send
    the requests of their next round (a new pending batch of that kind) before anything else is flushed -/
def flushOrder (kinds : List PKind) : Nat → List (Nat × Nat) → List (Nat × Nat) → List (Nat × Nat)
  | 0, _, acc => acc.reverse
  | fuel + 1, pending, acc =>
    match pending with
    | [] => acc.reverse
    | x :: xs =>
      let best := xs.foldl (fun b y => if lexLt (prioOf kinds b) (prioOf kinds y) then y else b) x
      let rest := pending.filter (· != best)
      let nrounds := match kinds[best.1]? with | some kd => kd.rounds.length | none => 0
      let next := if best.2 + 1 < nrounds then [(best.1, best.2 + 1)] else []
      flushOrder kinds fuel (rest ++ next) (best :: acc)

def parseKind : Sexp → Option PKind
  | .list (.atom "kind" :: _ :: n :: .atom how :: rounds) =>
    some { n := natOf n, how := how, rounds := rounds.map fun r => match r with
      | .list [pre, p, q] => (natOf pre, natOf p, natOf q)
      | _ => (0, 0, 0) }
  | _ => none

def prioflush (id : Nat) (hdr body : List Sexp) : String :=
  match hdr.mapM parseKind, body with
  | some kinds, [.list [.atom "result", .atom out, .list order, .list notOnce, clean, unanswered]] =>
    let total := (kinds.map fun kd => kd.rounds.length).foldl (· + ·) 0
    let exp := flushOrder kinds (total + 1) ((List.range kinds.length).map fun k => (k, 0)) []
    let expS := exp.map fun (k, r) => Sexp.list [.atom (toString k), .atom (toString r)]
    let hows := (kinds.map (·.how)).eraseDups
    let tag := if order.length != expS.length then "count"
      else if hows.contains "instance" || hows.contains "patch" then "with-instance-override"
      else if kinds.any (fun kd => kd.rounds.any fun (pre, _, _) => pre > 0) then "with-items-answered-before-the-flush"
      else "plain"
    firstBad id [
      (notOnce.isEmpty, "prioflush-batch-not-flushed-exactly-once", s!"(kind, round, flushes): {Sexp.list notOnce}"),
      (order == expS, s!"prioflush-not-the-greatest-priority-first-{tag}",
        s!"expected flush order (kind round) {Sexp.list expS}, got {Sexp.list order}; priorities {exp.map (prioOf kinds)}"),
      (out == "ok", s!"prioflush-outcome-{out}", ""),
      (unanswered.nat? == some 0, "prioflush-item-left-unanswered", s!"{unanswered} items"),
      (Drv.Families5.schedClean clean, "prioflush-scheduler-not-clean", s!"{clean}")]
  | _, _ => unparsable id "prioflush"

/-! ### reawait (C03 / C08): tasks left unfinished by an exception that escaped the scheduler are awaited again -/
def reawait (id : Nat) (hdr body : List Sexp) : String :=
  match hdr, body with
  | [.list (.atom "w" :: w), c, .atom trig, k, .atom again, .atom _created, .atom _pid],
    [.list [.atom "result", .list (.atom "aborts" :: aborts), .atom out, .list badSteps, nsteps, uncomputed, .list notOnce, clean, activeNone,
      .atom canary, _afterAbort]] =>
    let d := w.length
    let expSteps := 2 * d + (w.map natOf).foldl (· + ·) 0 * (natOf c + 1)
    let cls := match trig with
      | "kbd" => "KeyboardInterrupt" | "abort" => "AbortError" | "sysexit" => "SystemExit" | _ => "RuntimeError"
    let expAborts := (List.range (natOf k)).map fun _ => Sexp.atom cls
    firstBad id [
      -- the set-up: the exception really escaped value() (a BaseException-only error of a lazy provider is not a task failure;
      -- the guard raises RuntimeError out of the outermost call)
      (aborts == expAborts, s!"reawait-{trig}-did-not-escape-the-first-computation", s!"expected {Sexp.list expAborts}, got {Sexp.list aborts}"),
      -- C03: the computation is finite and acyclic, so awaiting its unfinished tasks again completes them
      (out == "ok", s!"reawait-after-{trig}-{again}-{out}", s!"awaiting the unfinished tasks again: {out}"),
      (badSteps.isEmpty && nsteps.nat? == some expSteps, s!"reawait-after-{trig}-task-step-not-run-exactly-once",
        s!"(task, step, times) {Sexp.list badSteps}; {nsteps} distinct steps of {expSteps}"),
      (uncomputed.nat? == some 0, s!"reawait-after-{trig}-task-left-uncomputed", s!"{uncomputed} tasks of the chain"),
      (notOnce.isEmpty, s!"reawait-after-{trig}-batch-not-flushed-exactly-once", s!"(items, flushes) {Sexp.list notOnce}"),
      -- C08: the next computation behaves as on a fresh scheduler.  After the guard (a RuntimeError: inside C08's statement) the
      -- scheduler must also be CLEAN; after an escaped BaseException-only error (outside the statement: "any Exception") the
      -- stale stack entries the library leaves behind are recorded in the case, not judged
      (activeNone.nat? == some 1, s!"reawait-after-{trig}-active-task-not-none", ""),
      (canary == "ok", s!"reawait-after-{trig}-next-computation-{canary}", ""),
      (Drv.Families5.noBatches clean && (trig != "guard" || Drv.Families5.tasksClean clean), s!"reawait-after-{trig}-scheduler-not-clean", s!"{clean}")]
  | _, _ => unparsable id "reawait"

end AsynqModel.Drv.Families6t
