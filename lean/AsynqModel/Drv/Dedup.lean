import AsynqModel.Sexp
import AsynqModel.Lib.Dedup
/-! driver glue for mode `dedup` (property C12) -/
namespace AsynqModel.Drv.Dedup
open AsynqModel AsynqModel.Dedup

def optNat? : Sexp → Option (Option Nat)
  | .atom "none" => some none
  | s => s.nat?.map some

def param? : Sexp → Option (Nat × Option Nat)
  | .list [n, d] => do some ((← n.nat?), (← optNat? d))
  | _ => none

def pair? : Sexp → Option (Nat × Nat)
  | .list [n, v] => do some ((← n.nat?), (← v.nat?))
  | _ => none

def pairs? : Sexp → Option (List (Nat × Nat))
  | .list l => l.mapM pair?
  | _ => none

def kind? : Sexp → Option FnKind
  | .atom "func" => some .func
  | .atom "method" => some .method
  | .atom "static" => some .static
  | _ => none

/-- `(fn kind (pos...) (kwonly...) varargs varkw posonly)`; the last field may be missing (= 0) -/
def fn? : Sexp → Option FnDecl
  | .list [.atom "fn", k, .list pos, .list kwo, va, vk] => do
    some { kind := (← kind? k),
           sig := { pos := (← pos.mapM param?), kwonly := (← kwo.mapM param?), varargs := (← va.bool?), varkw := (← vk.bool?) } }
  | .list [.atom "fn", k, .list pos, .list kwo, va, vk, po] => do
    some { kind := (← kind? k),
           sig := { pos := (← pos.mapM param?), kwonly := (← kwo.mapM param?), varargs := (← va.bool?), varkw := (← vk.bool?),
                    posonly := (← po.nat?) } }
  | _ => none

def recv? : Sexp → Option Recv
  | .atom "none" => some .none
  | .atom "cls" => some .cls
  | .list [.atom "inst", i] => i.nat?.map .inst
  | _ => none

def spell? : List Sexp → Option Spell
  | [f, r, a, k, th] => do
    some { fn := (← f.nat?), recv := (← recv? r), args := (← a.natList?), kw := (← pairs? k), th := (← th.nat?) }
  | _ => none

def outc? : Sexp → Option Outc
  | .list [.atom "val", n] => n.nat?.map .val
  | .list [.atom "err", n] => n.nat?.map .err
  | _ => none

def op? : Sexp → Option Op
  | .list (.atom "call" :: r) => (spell? r).map .call
  | .list (.atom "dirty" :: r) => (spell? r).map .dirty
  | .list [.atom "start", t] => t.nat?.map .start
  | .list [.atom "resume", t, b] => do some (.resume (← t.nat?) (← b.bool?))
  | .list [.atom "suspend", t] => t.nat?.map .suspend
  | .list [.atom "complete", t, o] => do some (.complete (← t.nat?) (← outc? o))
  | .list [.atom "threadEnd", th] => th.nat?.map .threadEnd
  | _ => none

def res? : Sexp → Option Res
  | .list [.atom "ret", t, b] => do some (.ret (← t.nat?) (← b.bool?))
  | .list [.atom "typeError"] => some .typeError
  | .list [.atom "unit"] => some .unit
  | .list [.atom "binding", p, r, e] => do
    some (.binding { params := (← p.natList?), rest := (← r.natList?), extra := (← pairs? e) })
  | .list (.atom "raised" :: _) => some .bad
  | _ => none

def obs? : Sexp → Option Obs
  | .list [.atom "obs", op, r, n] => do some { op := (← op? op), res := (← res? r), size := (← n.nat?) }
  | _ => none

def firstDiff (a b : List Obs) (i : Nat := 0) : Option (Nat × String) :=
  match a, b with
  | [], [] => none
  | x :: xs, y :: ys =>
    if x == y then firstDiff xs ys (i+1)
    else some (i, s!"op={repr x.op} model=({repr x.res}, size {x.size}) impl=({repr y.res}, size {y.size})")
  | x :: _, [] => some (i, s!"model={repr x} impl=<missing>")
  | [], y :: _ => some (i, s!"model=<missing> impl={repr y}")

/-- `hdr` = the function declarations; `body` = the observation lines -/
def handle (id : Nat) (hdr : List Sexp) (body : List Sexp) : String :=
  match hdr.mapM fn?, body.mapM obs? with
  | some fns, some impl =>
    let ops := impl.map (·.op)
    let model := run fns St.init ops
    let corr := firstDiff model impl
    let spec := specClause fns impl
    let specm := specClause fns model
    let c := match corr with | none => "ok" | some _ => "diff"
    let d := match corr with | none => "" | some (i, s) => (s!"obs {i}: {s}".replace "\n" " ")
    let f (s : String) := if s == "ok" then "ok" else "fail:" ++ s
    s!"R {id} CORR={c} SPEC={f spec} SPECM={f specm} | {d}"
  | _, _ => s!"R {id} CORR=diff SPEC=ok SPECM=ok | unparsable case"

end AsynqModel.Drv.Dedup
