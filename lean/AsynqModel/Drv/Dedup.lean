import AsynqModel.Sexp
import AsynqModel.Lib.Dedup
/-! driver glue for mode `dedup` (property C12) -/
namespace AsynqModel.Drv.Dedup
open AsynqModel AsynqModel.Dedup

def optNat? : Sexp → Option (Option Nat)
  | .atom "none" => some none
  | s => s.nat?.map some

def param? : Sexp → Option (Nat × Option Nat)
  | .list [n, d] => do some ((← n.nat?), (← optNat? d))
  | _ => none

def pair? : Sexp → Option (Nat × Nat)
  | .list [n, v] => do some ((← n.nat?), (← v.nat?))
  | _ => none

def pairs? : Sexp → Option (List (Nat × Nat))
  | .list l => l.mapM pair?
  | _ => none

def kind? : Sexp → Option FnKind
  | .atom "func" => some .func
  | .atom "method" => some .method
  | .atom "static" => some .static
  | _ => none

/-- `(fn kind (pos...) (kwonly...) varargs varkw posonly)`; the last field may be missing (= 0) -/
def fn? : Sexp → Option FnDecl
  | .list [.atom "fn", k, .list pos, .list kwo, va, vk] => do
    some { kind := (← kind? k),
           sig := { pos := (← pos.mapM param?), kwonly := (← kwo.mapM param?), varargs := (← va.bool?), varkw := (← vk.bool?) } }
  | .list [.atom "fn", k, .list pos, .list kwo, va, vk, po] => do
    some { kind := (← kind? k),
           sig := { pos := (← pos.mapM param?), kwonly := (← kwo.mapM param?), varargs := (← va.bool?), varkw := (← vk.bool?),
                    posonly := (← po.nat?) } }
  | _ => none

def recv? : Sexp → Option Recv
  | .atom "none" => some .none
  | .atom "cls" => some .cls
  | .list [.atom "inst", i] => i.nat?.map .inst
  | _ => none

def spell? : List Sexp → Option Spell
  | [f, r, a, k, th] => do
    some { fn := (← f.nat?), recv := (← recv? r), args := (← a.natList?), kw := (← pairs? k), th := (← th.nat?) }
  | _ => none

def outc? : Sexp → Option Outc
  | .list [.atom "val", n] => n.nat?.map .val
  | .list [.atom "err", n] => n.nat?.map .err
  | _ => none

def op? : Sexp → Option Op
  | .list (.atom "call" :: r) => (spell? r).map .call
  | .list (.atom "dirty" :: r) => (spell? r).map .dirty
  | .list [.atom "start", t] => t.nat?.map .start
  | .list [.atom "resume", t, b] => do some (.resume (← t.nat?) (← b.bool?))
  | .list [.atom "suspend", t] => t.nat?.map .suspend
  | .list [.atom "complete", t, o] => do some (.complete (← t.nat?) (← outc? o))
  | .list [.atom "threadEnd", th] => th.nat?.map .threadEnd
  | .list [.atom "outside", n] => n.nat?.map .outside
  | _ => none

def res? : Sexp → Option Res
  | .list [.atom "ret", t, b] => do some (.ret (← t.nat?) (← b.bool?))
  | .list [.atom "typeError"] => some .typeError
  | .list [.atom "unit"] => some .unit
  | .list [.atom "binding", p, r, e] => do
    some (.binding { params := (← p.natList?), rest := (← r.natList?), extra := (← pairs? e) })
  | .list (.atom "raised" :: _) => some .bad
  | _ => none

def obs? : Sexp → Option Obs
  | .list [.atom "obs", op, r, n] => do some { op := (← op? op), res := (← res? r), size := (← n.nat?) }
  | _ => none

def firstDiff (a b : List Obs) (i : Nat := 0) : Option (Nat × String) :=
  match a, b with
  | [], [] => none
  | x :: xs, y :: ys =>
    if x == y then firstDiff xs ys (i+1)
    else some (i, s!"op={repr x.op} model=({repr x.res}, size {x.size}) impl=({repr y.res}, size {y.size})")
  | x :: _, [] => some (i, s!"model={repr x} impl=<missing>")
  | [], y :: _ => some (i, s!"model=<missing> impl={repr y}")

def isDeco : Sexp → Bool
  | .list (.atom "deco" :: _) => true
  | _ => false

/-- `(deco <number of deduplicate() objects> (<function index> <object index>) ...)`: the applications in program order -/
def deco? : Sexp → Option (Nat × List (Nat × Nat))
  | .list (.atom "deco" :: n :: apps) => do some ((← n.nat?), (← apps.mapM pair?))
  | _ => none

/-- the decoration phase of the case run on the model (`decorateAll`, all objects made by `deduplicate()`): does every
    function end up with the keygetter of its own signature, which is what `step` uses? (always, `C12_keygetter_per_function`) -/
def decoOk (fns : List FnDecl) (d : Nat × List (Nat × Nat)) : Bool :=
  let objs : List DecoObj := List.replicate d.1 { captured := none }
  match d.2.mapM (fun a => (fns[a.1]?).map fun f => (a.2, f.sig)) with
  | none => false
  | some apps =>
    let ks := (decorateAll objs apps).2
    ks == apps.map (fun a => some (.ofSig a.2)) &&
      (List.range fns.length).all fun i => d.2.any fun a => a.1 == i

/-- `hdr` = the function declarations (and at most one `deco` item); `body` = the observation lines -/
def handle (id : Nat) (hdr : List Sexp) (body : List Sexp) : String :=
  let decos := hdr.filter isDeco
  let hdr := hdr.filter (fun x => !isDeco x)
  match hdr.mapM fn?, body.mapM obs?, decos.mapM deco? with
  | some fns, some impl, some ds =>
    if !(ds.all (decoOk fns)) then s!"R {id} CORR=diff SPEC=ok SPECM=ok | decoration phase: a function is not decorated, or by an unknown object" else
    let ops := impl.map (·.op)
    let model := run fns St.init ops
    let corr := firstDiff model impl
    let spec := specClause fns impl
    let specm := specClause fns model
    let c := match corr with | none => "ok" | some _ => "diff"
    let d := match corr with | none => "" | some (i, s) => (s!"obs {i}: {s}".replace "\n" " ")
    let f (s : String) := if s == "ok" then "ok" else "fail:" ++ s
    s!"R {id} CORR={c} SPEC={f spec} SPECM={f specm} | {d}"
  | _, _, _ => s!"R {id} CORR=diff SPEC=ok SPECM=ok | unparsable case"

end AsynqModel.Drv.Dedup
