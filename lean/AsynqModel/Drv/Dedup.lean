import AsynqModel.Sexp
import AsynqModel.Lib.Dedup
import AsynqModel.Lib.DedupEq
/-! driver glue for mode `dedup` (property C12) -/
namespace AsynqModel.Drv.Dedup
open AsynqModel AsynqModel.Dedup

def optNat? : Sexp → Option (Option Nat)
  | .atom "none" => some none
  | s => s.nat?.map some

def param? : Sexp → Option (Nat × Option Nat)
  | .list [n, d] => do some ((← n.nat?), (← optNat? d))
  | _ => none

def pair? : Sexp → Option (Nat × Nat)
  | .list [n, v] => do some ((← n.nat?), (← v.nat?))
  | _ => none

def pairs? : Sexp → Option (List (Nat × Nat))
  | .list l => l.mapM pair?
  | _ => none

def kind? : Sexp → Option FnKind
  | .atom "func" => some .func
  | .atom "method" => some .method
  | .atom "static" => some .static
  | _ => none

/-- `(fn kind (pos...) (kwonly...) varargs varkw posonly)`; the last field may be missing (= 0) -/
def fn? : Sexp → Option FnDecl
  | .list [.atom "fn", k, .list pos, .list kwo, va, vk] => do
    some { kind := (← kind? k),
           sig := { pos := (← pos.mapM param?), kwonly := (← kwo.mapM param?), varargs := (← va.bool?), varkw := (← vk.bool?) } }
  | .list [.atom "fn", k, .list pos, .list kwo, va, vk, po] => do
    some { kind := (← kind? k),
           sig := { pos := (← pos.mapM param?), kwonly := (← kwo.mapM param?), varargs := (← va.bool?), varkw := (← vk.bool?),
                    posonly := (← po.nat?) } }
  | _ => none

def recv? : Sexp → Option Recv
  | .atom "none" => some .none
  | .atom "cls" => some .cls
  | .list [.atom "inst", i] => i.nat?.map .inst
  | _ => none

def spell? : List Sexp → Option Spell
  | [f, r, a, k, th] => do
    some { fn := (← f.nat?), recv := (← recv? r), args := (← a.natList?), kw := (← pairs? k), th := (← th.nat?) }
  | _ => none

def outc? : Sexp → Option Outc
  | .list [.atom "val", n] => n.nat?.map .val
  | .list [.atom "err", n] => n.nat?.map .err
  | _ => none

def op? : Sexp → Option Op
  | .list (.atom "call" :: r) => (spell? r).map .call
  | .list (.atom "dirty" :: r) => (spell? r).map .dirty
  | .list [.atom "start", t] => t.nat?.map .start
  | .list [.atom "resume", t, b] => do some (.resume (← t.nat?) (← b.bool?))
  | .list [.atom "suspend", t] => t.nat?.map .suspend
  | .list [.atom "complete", t, o] => do some (.complete (← t.nat?) (← outc? o))
  | .list [.atom "threadEnd", th] => th.nat?.map .threadEnd
  | .list [.atom "outside", n] => n.nat?.map .outside
  | .list [.atom "await", t] => t.nat?.map .await
  | .list (.atom "aioCall" :: r) => (spell? r).map .aioCall
  | _ => none

def res? : Sexp → Option Res
  | .list [.atom "ret", t, b] => do some (.ret (← t.nat?) (← b.bool?))
  | .list [.atom "typeError"] => some .typeError
  | .list [.atom "unit"] => some .unit
  | .list [.atom "binding", p, r, e] => do
    some (.binding { params := (← p.natList?), rest := (← r.natList?), extra := (← pairs? e) })
  | .list [.atom "got", .atom "none"] => some (.got none)
  | .list [.atom "got", o] => (outc? o).map fun x => .got (some x)
  | .list [.atom "coro"] => some .coro
  | .list (.atom "raised" :: _) => some .bad
  | _ => none

def obs? : Sexp → Option Obs
  | .list [.atom "obs", op, r, n] => do some { op := (← op? op), res := (← res? r), size := (← n.nat?) }
  | _ => none

def firstDiff (a b : List Obs) (i : Nat := 0) : Option (Nat × String) :=
  match a, b with
  | [], [] => none
  | x :: xs, y :: ys =>
    if x == y then firstDiff xs ys (i+1)
    else some (i, s!"op={repr x.op} model=({repr x.res}, size {x.size}) impl=({repr y.res}, size {y.size})")
  | x :: _, [] => some (i, s!"model={repr x} impl=<missing>")
  | [], y :: _ => some (i, s!"model=<missing> impl={repr y}")

def isDeco : Sexp → Bool
  | .list (.atom "deco" :: _) => true
  | _ => false

def isEqv : Sexp → Bool
  | .list (.atom "eqv" :: _) => true
  | _ => false

/-- `(eqv (<instance token> <representative of its == class>) ...)`: the receiver instances of the case that are `==` to
    another, distinct instance (a class with value equality); no item = instances compare by identity -/
def eqv? : Sexp → Option Eqv
  | .list (.atom "eqv" :: ps) => ps.mapM pair?
  | _ => none

def isKg : Sexp → Bool
  | .list (.atom "kg" :: _) => true
  | _ => false

/-- `(deco <number of deduplicate() objects> (<function index> <object index>) ...)`: the applications in program order -/
def deco? : Sexp → Option (Nat × List (Nat × Nat))
  | .list (.atom "deco" :: n :: apps) => do some ((← n.nat?), (← apps.mapM pair?))
  | _ => none

/-- `(kg <function index> (args...) ((name value)...) (ok tok...))` / `(... (typeError))`: what the keygetter that the REAL
    decorated function carries answered for probe arguments -/
def kg? : Sexp → Option KgProbe
  | .list [.atom "kg", f, a, k, .list (.atom "ok" :: xs)] => do
    some { fn := (← f.nat?), args := (← a.natList?), kw := (← pairs? k), ans := some (← xs.mapM (·.nat?)) }
  | .list [.atom "kg", f, a, k, .list [.atom "typeError"]] => do
    some { fn := (← f.nat?), args := (← a.natList?), kw := (← pairs? k), ans := none }
  | _ => none

/-- the decoration phase of the case run on the model (`decorateAll`, all objects made by `deduplicate()`): the keygetter
    the model's phase hands to each function, in the order of the applications; `none` = malformed header (a function
    that is not decorated, decorated twice, or by an unknown object) -/
def decoKeyFns (fns : List FnDecl) (d : Nat × List (Nat × Nat)) : Option (List (Nat × KeyFn)) :=
  let objs : List DecoObj := List.replicate d.1 { captured := none }
  match d.2.mapM (fun a => (fns[a.1]?).map fun f => (a.2, f.sig)) with
  | none => none
  | some apps =>
    let ks := (decorateAll objs apps).2
    if ks.all (·.isSome) && ((List.range fns.length).all fun i => (d.2.filter fun a => a.1 == i).length == 1) then
      some ((d.2.map (·.1)).zip (ks.filterMap id))
    else none

/-- the first probe of the REAL keygetters that the model's decoration phase does not explain -/
def kgMismatch (ks : List (Nat × KeyFn)) (probes : List KgProbe) : Option KgProbe :=
  probes.find? fun p =>
    match ks.find? (fun e => e.1 == p.fn) with
    | none => true
    | some e => !p.agrees e.2

/-- `hdr` = the function declarations (and at most one `deco` item); `body` = the observation lines -/
def handle (id : Nat) (hdr : List Sexp) (body : List Sexp) : String :=
  let decos := hdr.filter isDeco
  let kgs := hdr.filter isKg
  let eqvs := hdr.filter isEqv
  let hdr := hdr.filter (fun x => !isDeco x && !isKg x && !isEqv x)
  match hdr.mapM fn?, body.mapM obs?, decos.mapM deco?, kgs.mapM kg?, eqvs.mapM eqv? with
  | some fns, some impl, some ds, some probes, some es =>
    -- which receiver instances are == to each other is an input of the model (Lib/DedupEq.lean): the table is keyed up to ==
    let e : Eqv := es.flatten
    -- the decoration phase: the model's `decorateAll` on the applications of the case, compared with what the keygetter
    -- of every REAL decorated function answers for the probe arguments
    let dk : Option (List (Nat × KeyFn)) :=
      match ds with
      | [] => some ((List.range fns.length).zip (fns.map fun f => KeyFn.ofSig f.sig))
      | [d] => decoKeyFns fns d
      | _ => none
    match dk with
    | none => s!"R {id} CORR=diff SPEC=ok SPECM=ok | decoration phase: a function is not decorated exactly once, or by an unknown object"
    | some ks =>
    let ops := impl.map (·.op)
    let model := runE fns e St.init ops
    let kgd : Option String := (kgMismatch ks probes).map fun p =>
      s!"decoration phase: the keygetter of function {p.fn} answers {repr p.ans} for args {repr p.args} kw {repr p.kw}; the model's decoration phase gives it the keygetter of its own signature"
    let corr := firstDiff model impl
    let spec := specClauseE fns e impl
    let specm := specClauseE fns e model
    let c := match kgd, corr with | none, none => "ok" | _, _ => "diff"
    let d := match kgd, corr with
      | some m, _ => m.replace "\n" " "
      | none, some (i, s) => (s!"obs {i}: {s}".replace "\n" " ")
      | none, none => ""
    let f (s : String) := if s == "ok" then "ok" else "fail:" ++ s
    s!"R {id} CORR={c} SPEC={f spec} SPECM={f specm} | {d}"
  | _, _, _, _, _ => s!"R {id} CORR=diff SPEC=ok SPECM=ok | unparsable case"

end AsynqModel.Drv.Dedup
