/-
  S-expressions: the line protocol between the Python harness and the Lean driver.
  One S-expression per line.  Only used by the driver (never in theorems).
-/
namespace AsynqModel

inductive Sexp where
  | atom (s : String)
  | list (l : List Sexp)
  deriving Repr, Inhabited, BEq

namespace Sexp

partial def toStr : Sexp → String
  | atom s => s
  | list l => "(" ++ " ".intercalate (l.map toStr) ++ ")"

instance : ToString Sexp := ⟨toStr⟩

/-- tokenizer: parentheses are tokens, everything else is split on white space -/
def tokenize (s : String) : List String :=
  let rec go (cs : List Char) (cur : String) (acc : List String) : List String :=
    match cs with
    | [] => (if cur.isEmpty then acc else cur :: acc).reverse
    | c :: cs =>
      if c == '(' || c == ')' then
        go cs "" (String.singleton c :: (if cur.isEmpty then acc else cur :: acc))
      else if c == ' ' || c == '\t' || c == '\n' || c == '\r' then
        go cs "" (if cur.isEmpty then acc else cur :: acc)
      else go cs (cur.push c) acc
  go s.toList "" []

partial def parseList (toks : List String) (acc : List Sexp) : Option (List Sexp × List String) :=
  match toks with
  | [] => none
  | ")" :: rest => some (acc.reverse, rest)
  | "(" :: rest =>
    match parseList rest [] with
    | some (l, rest') => parseList rest' (Sexp.list l :: acc)
    | none => none
  | t :: rest => parseList rest (Sexp.atom t :: acc)

def parse (s : String) : Option Sexp :=
  match tokenize s with
  | [] => none
  | "(" :: rest =>
    match parseList rest [] with
    | some (l, []) => some (Sexp.list l)
    | _ => none
  | [t] => some (Sexp.atom t)
  | _ => none

def nat? : Sexp → Option Nat
  | atom s => s.toNat?
  | _ => none

def int? : Sexp → Option Int
  | atom s => s.toInt?
  | _ => none

def bool? : Sexp → Option Bool
  | atom "1" => some true
  | atom "0" => some false
  | atom "true" => some true
  | atom "false" => some false
  | _ => none

def natList? : Sexp → Option (List Nat)
  | list l => l.mapM nat?
  | _ => none

end Sexp
end AsynqModel
