import AsynqModel.Lib.Cache
/-
  C13, OPEN signatures: the wrapped function collects further KEYWORD arguments,

      def f(a, b=0, *rest, k=0, **opts)         (`Sig.varargs` = true)
      def h(a, b=0, *, k=0, **opts)             (`Sig.varargs` = false)

  and a positional VALUE may be a 2-tuple `(name, value)` - the very shape `qcore.caching.get_args_tuple` gives to a
  keyword it does not know (`sorted(kwargs.items())`, caching.py:337-340).  Together the two features are the place where
  the SHAPE of the default key of tools.py `_args_cache_key` matters:

      return (get_args_tuple(args[:num_positional], kwargs, arg_names, kwargs_defaults), tuple(args[num_positional:]))

  is a PAIR.  The first component holds the named parameters and then the `(name, value)` pairs of `**opts`, the second
  `*rest`; one flat tuple would give `f(1, x=2)` and `f(1, ('x', 2))` the same key (`flatKey` below is that construction,
  `C13_open_flat_key_counterexample`).

  Value tokens: a token `< 1000` is a plain value; the token `1000 + 100 * name + v` (`v < 100`) is the 2-tuple
  `(name, v)` (`argElem`: Python's `==` between such a tuple and a leftover-keyword pair is equality of `KeyElem`s).
  The values of keywords collected by `**opts` are plain tokens.
  Everything else (LRUCache, the wrappers, the observers) is the model of Lib/Cache.lean, which is parametric in the
  key function `mk`, the reference key `rk` and the binding `bd`.
-/
namespace AsynqModel.Cache

/-- a value token as an element of a key tuple -/
def argElem (n : Nat) : KeyElem :=
  if n < 1000 then .val n else .pair ((n - 1000) / 100) ((n - 1000) % 100)

def pairElem (p : Name × Nat) : KeyElem := .pair p.1 p.2

/-- the keywords `**opts` collects: those that name no parameter, as `sorted(...)` sees them -/
def optsOf (names : List Name) (kwargs : List (Name × Nat)) : List (Name × Nat) :=
  sortKw (kwargs.filter fun p => !names.contains p.1)

/-- `get_args_tuple(args, kwargs, arg_names, kwargs_defaults)` (caching.py:323-341) over value tokens that may be tuples -/
def getArgsTupleE (args : List Nat) (kwargs : List (Name × Nat)) (argNames : List Name)
    (dflts : List (Name × Nat)) : Option Key :=
  match fillRest kwargs dflts (argNames.drop args.length) with
  | none => none
  | some vs => some (args.map argElem ++ vs.map argElem ++ (optsOf argNames kwargs).map pairElem)

/-- the tuple pair `(t1, t2)` as one list: length-prefixed concatenation (injective, `pairKey_inj`) -/
def pairKey (t1 t2 : Key) : Key := .val t1.length :: (t1 ++ t2)

/-- `_args_cache_key(argspec, arg_names, kwargs_defaults)` of tools.py for a function with `**opts`; `pos` = the named
    positional parameters the wrapper receives through `args` (without `self` for a method) -/
def openKey (s : Sig) (pos : List Name) (c : Call) : Option Key :=
  if s.varargs then
    (getArgsTupleE (c.args.take pos.length) c.kwargs (pos ++ s.kwonly) (kwargsDefaults s)).map
      fun t1 => pairKey t1 ((c.args.drop pos.length).map argElem)
  else getArgsTupleE c.args c.kwargs (pos ++ s.kwonly) (kwargsDefaults s)

/-- NOT the code: the "smaller" key that concatenates the two components (what a maintainer might write instead) -/
def flatKey (s : Sig) (pos : List Name) (c : Call) : Option Key :=
  (getArgsTupleE (c.args.take pos.length) c.kwargs (pos ++ s.kwonly) (kwargsDefaults s)).map
    (· ++ (c.args.drop pos.length).map argElem)

/-- the normalised arguments of a call of `def f(pos.., [*rest,] kwonly.., **opts)`: what Python binds -/
structure Norm where
  named : List Nat             -- the value of every named parameter, in declaration order (`pos`, then `kwonly`)
  rest : List Nat              -- `*rest`
  opts : List (Name × Nat)     -- `**opts` (a dict: compared without order - kept sorted by name)
  deriving Repr, DecidableEq, Inhabited

/-- Python's binding.  There is no "unexpected keyword" (`**opts` takes it) and, with `*rest`, no "too many positional
    arguments"; a parameter passed twice and a missing argument remain errors -/
def openNorm (varargs : Bool) (pos kwonly : List Name) (dflts : List (Name × Nat)) (c : Call) : Option Norm :=
  if !varargs && pos.length < c.args.length then none                                -- too many positional arguments
  else if c.kwargs.any (fun p => (pos.take c.args.length).contains p.1) then none    -- multiple values for argument
  else (bindRest c.kwargs dflts (pos.drop c.args.length ++ kwonly)).map fun vs =>
    { named := c.args.take pos.length ++ vs, rest := c.args.drop pos.length, opts := optsOf (pos ++ kwonly) c.kwargs }

/-- the reference key: an injective image of the normalised arguments (`C13_open_refkey_injective`) -/
def normKey (varargs : Bool) (n : Norm) : Key :=
  let t1 := n.named.map argElem ++ n.opts.map pairElem
  if varargs then pairKey t1 (n.rest.map argElem) else t1

/-- the normalised arguments as the flat list of numbers the body reports: named values, `len(rest)`, rest, then the
    `**opts` items in name order -/
def normFlat (n : Norm) : List Nat :=
  n.named ++ [n.rest.length] ++ n.rest ++ (n.opts.map fun p => [p.1, p.2]).flatten

def openRefKey (s : Sig) (pos : List Name) (c : Call) : Option Key :=
  (openNorm s.varargs pos s.kwonly (kwargsDefaults s) c).map (normKey s.varargs)

def openBind (s : Sig) (pos : List Name) (c : Call) : Option (List Nat) :=
  (openNorm s.varargs pos s.kwonly (kwargsDefaults s) c).map normFlat

/-- the calls the refinement theorems cover: valid (any spelling), or the key construction raises "Missing argument".
    NOT covered (as for closed signatures, `C13_open_callOK_needed`): a parameter passed twice / too many positional
    arguments for a function without `*rest` - no normalised arguments, get_args_tuple maps them onto a valid call's key -/
def openCallOK (s : Sig) (pos : List Name) (c : Call) : Bool :=
  (openNorm s.varargs pos s.kwonly (kwargsDefaults s) c).isSome || (openKey s pos c).isNone

/-! alru_cache: `arg_names = argspec.args + kwonlyargs`, all arguments; acached_per_instance: without `self` -/
def alruOpenKey (s : Sig) : Call → Option Key := openKey s s.args
def alruOpenRefKey (s : Sig) : Call → Option Key := openRefKey s s.args
def alruOpenBind (s : Sig) : Call → Option (List Nat) := openBind s s.args
def perInstOpenKey (s : Sig) : Call → Option Key := openKey s (s.args.drop 1)
def perInstOpenRefKey (s : Sig) : Call → Option Key := openRefKey s (s.args.drop 1)
def perInstOpenBind (s : Sig) : Call → Option (List Nat) := openBind s (s.args.drop 1)

end AsynqModel.Cache
