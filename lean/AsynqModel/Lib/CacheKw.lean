import AsynqModel.Lib.Cache
/-
  C13, OPEN signatures: the wrapped function collects further KEYWORD arguments,

      def f(a, b=0, *rest, k=0, **opts)         (`Sig.varargs` = true)
      def h(a, b=0, *, k=0, **opts)             (`Sig.varargs` = false)

  and a positional VALUE may be a 2-tuple `(name, value)` - the very shape `qcore.caching.get_args_tuple` gives to a
  keyword it does not know (`sorted(kwargs.items())`, caching.py:337-340).  Together the two features are the place where
  the SHAPE of the default key of tools.py `_args_cache_key` matters:

      return (get_args_tuple(args[:num_positional], kwargs, arg_names, kwargs_defaults), tuple(args[num_positional:]))

  is a PAIR.  The first component holds the named parameters and then the `(name, value)` pairs of `**opts`, the second
  `*rest`; one flat tuple would give `f(1, x=2)` and `f(1, ('x', 2))` the same key (`flatKey` below is that construction,
  `C13_open_flat_key_counterexample`).

  Value tokens: a token `< 1000` is a plain value; the token `1000 + 100 * name + v` (`v < 100`) is the 2-tuple
  `(name, v)` (`argElem`: Python's `==` between such a tuple and a leftover-keyword pair is equality of `KeyElem`s).
  The values of keywords collected by `**opts` are plain tokens.
  Everything else (LRUCache, the wrappers, the observers) is the model of Lib/Cache.lean, which is parametric in the
  key function `mk`, the reference key `rk` and the binding `bd`.

  POSITIONAL-ONLY parameters (`def g(a, b=0, /, c=0, *rest, k=0, **opts)`, PEP 570): `po` = how many of the named positional
  parameters `pos` are positional-only (`original_fn.__code__.co_posonlyargcount`, minus `self` for a method).  The KEY as
  written does not know them (`inspect.getfullargspec` lists them in `args`; `openKey` has no `po`), Python's BINDING does
  (`openNorm`): a keyword that has the name of a positional-only parameter binds nothing and is collected by `**opts`.
  This is where the property is FALSE of the code as it is: `g(1, a=2)`, `g(1, a=3)` and `g(1)` are three valid calls of
  `def g(a, /, **opts)` with three different normalised arguments and ONE key (get_args_tuple drops a leftover keyword whose
  name is in arg_names), and `h(1, b=5)` has the key of `h(1, 5)` for `def h(a, b=0, /, **opts)` (the keyword is taken for the
  parameter) - `C13_open_posonly_counterexample`.  `poClean`: no keyword of the call is named like a positional-only
  parameter; the theorems about the key carry it as a hypothesis.
-/
namespace AsynqModel.Cache

/-- a value token as an element of a key tuple -/
def argElem (n : Nat) : KeyElem :=
  if n < 1000 then .val n else .pair ((n - 1000) / 100) ((n - 1000) % 100)

def pairElem (p : Name × Nat) : KeyElem := .pair p.1 p.2

/-- the keywords `**opts` collects: those that name no parameter, as `sorted(...)` sees them -/
def optsOf (names : List Name) (kwargs : List (Name × Nat)) : List (Name × Nat) :=
  sortKw (kwargs.filter fun p => !names.contains p.1)

/-- `get_args_tuple(args, kwargs, arg_names, kwargs_defaults)` (caching.py:323-341) over value tokens that may be tuples -/
def getArgsTupleE (args : List Nat) (kwargs : List (Name × Nat)) (argNames : List Name)
    (dflts : List (Name × Nat)) : Option Key :=
  match fillRest kwargs dflts (argNames.drop args.length) with
  | none => none
  | some vs => some (args.map argElem ++ vs.map argElem ++ (optsOf argNames kwargs).map pairElem)

/-- the tuple pair `(t1, t2)` as one list: length-prefixed concatenation (injective, `pairKey_inj`) -/
def pairKey (t1 t2 : Key) : Key := .val t1.length :: (t1 ++ t2)

/-- `_args_cache_key(argspec, arg_names, kwargs_defaults)` of tools.py for a function with `**opts`; `pos` = the named
    positional parameters the wrapper receives through `args` (without `self` for a method) -/
def openKey (s : Sig) (pos : List Name) (c : Call) : Option Key :=
  if s.varargs then
    (getArgsTupleE (c.args.take pos.length) c.kwargs (pos ++ s.kwonly) (kwargsDefaults s)).map
      fun t1 => pairKey t1 ((c.args.drop pos.length).map argElem)
  else getArgsTupleE c.args c.kwargs (pos ++ s.kwonly) (kwargsDefaults s)

/-- NOT the code: the "smaller" key that concatenates the two components (what a maintainer might write instead) -/
def flatKey (s : Sig) (pos : List Name) (c : Call) : Option Key :=
  (getArgsTupleE (c.args.take pos.length) c.kwargs (pos ++ s.kwonly) (kwargsDefaults s)).map
    (· ++ (c.args.drop pos.length).map argElem)

/-- the normalised arguments of a call of `def f(pos.., [*rest,] kwonly.., **opts)`: what Python binds -/
structure Norm where
  named : List Nat             -- the value of every named parameter, in declaration order (`pos`, then `kwonly`)
  rest : List Nat              -- `*rest`
  opts : List (Name × Nat)     -- `**opts` (a dict: compared without order - kept sorted by name)
  deriving Repr, DecidableEq, Inhabited

/-- Python's binding of a signature WITHOUT positional-only parameters.  There is no "unexpected keyword" (`**opts` takes
    it) and, with `*rest`, no "too many positional arguments"; a parameter passed twice and a missing argument remain errors -/
def openNorm0 (varargs : Bool) (pos kwonly : List Name) (dflts : List (Name × Nat)) (c : Call) : Option Norm :=
  if !varargs && pos.length < c.args.length then none                                -- too many positional arguments
  else if c.kwargs.any (fun p => (pos.take c.args.length).contains p.1) then none    -- multiple values for argument
  else (bindRest c.kwargs dflts (pos.drop c.args.length ++ kwonly)).map fun vs =>
    { named := c.args.take pos.length ++ vs, rest := c.args.drop pos.length, opts := optsOf (pos ++ kwonly) c.kwargs }

/-- the keywords that can bind a named parameter: all but those named like one of the first `po` (positional-only) ones -/
def kwBinding (po : Nat) (pos : List Name) (kwargs : List (Name × Nat)) : List (Name × Nat) :=
  kwargs.filter fun p => !(pos.take po).contains p.1

/-- Python's binding (PEP 570), the first `po` parameters of `pos` positional-only: a keyword named like one of them binds
    nothing - `**opts` collects it, next to the keywords that name no parameter; such a parameter gets its value from a
    positional argument or from its default, else "missing argument".  With `po = 0` (and whenever `poClean`) it is `openNorm0`
    (`openNorm_of_clean`) -/
def openNorm (varargs : Bool) (po : Nat) (pos kwonly : List Name) (dflts : List (Name × Nat)) (c : Call) : Option Norm :=
  let byKw := kwBinding po pos c.kwargs
  if !varargs && pos.length < c.args.length then none                                -- too many positional arguments
  else if byKw.any (fun p => (pos.take c.args.length).contains p.1) then none        -- multiple values for argument
  else (bindRest byKw dflts (pos.drop c.args.length ++ kwonly)).map fun vs =>
    { named := c.args.take pos.length ++ vs, rest := c.args.drop pos.length,
      opts := optsOf (pos.drop po ++ kwonly) c.kwargs }

/-- no keyword of the call has the name of a positional-only parameter -/
def poClean (po : Nat) (pos : List Name) (c : Call) : Bool :=
  c.kwargs.all fun p => !(pos.take po).contains p.1

/-- the reference key: an injective image of the normalised arguments (`C13_open_refkey_injective`) -/
def normKey (varargs : Bool) (n : Norm) : Key :=
  let t1 := n.named.map argElem ++ n.opts.map pairElem
  if varargs then pairKey t1 (n.rest.map argElem) else t1

/-- the normalised arguments as the flat list of numbers the body reports: named values, `len(rest)`, rest, then the
    `**opts` items in name order -/
def normFlat (n : Norm) : List Nat :=
  n.named ++ [n.rest.length] ++ n.rest ++ (n.opts.map fun p => [p.1, p.2]).flatten

def openRefKey (s : Sig) (po : Nat) (pos : List Name) (c : Call) : Option Key :=
  (openNorm s.varargs po pos s.kwonly (kwargsDefaults s) c).map (normKey s.varargs)

def openBind (s : Sig) (po : Nat) (pos : List Name) (c : Call) : Option (List Nat) :=
  (openNorm s.varargs po pos s.kwonly (kwargsDefaults s) c).map normFlat

/-- the calls the refinement theorems cover: valid (any spelling) with no keyword named like a positional-only parameter,
    or Python cannot bind the call and the key construction raises "Missing argument".
    NOT covered: (1) a VALID call with a keyword named like a positional-only parameter - the property is false there, the
    open finding `C13_open_posonly_counterexample`; (2) as for closed signatures (`C13_open_callOK_needed`) a call Python
    cannot bind for which a key is built all the same: a parameter passed twice / too many positional arguments for a
    function without `*rest` / a required positional-only parameter passed by keyword - no normalised arguments,
    get_args_tuple maps them onto a valid call's key (`openOutside`) -/
def openCallOK (s : Sig) (po : Nat) (pos : List Name) (c : Call) : Bool :=
  match openNorm s.varargs po pos s.kwonly (kwargsDefaults s) c with
  | some _ => poClean po pos c
  | none => (openKey s pos c).isNone

/-- class (2) above: OUTSIDE the property (only the correspondence is judged on a case that contains such a call) -/
def openOutside (s : Sig) (po : Nat) (pos : List Name) (c : Call) : Bool :=
  (openNorm s.varargs po pos s.kwonly (kwargsDefaults s) c).isNone && (openKey s pos c).isSome

/-- the wire token of the parameter name `self`.  A keyword of that name never reaches a cache wrapper: asynq's own
    callables (`AsyncDecorator.__call__(self, *args, **kwargs)`, `.asynq(self, ...)`, `AsyncDecoratorBinder.asynq`) and
    `new_fun(self, *args, **kwargs)` of acached_per_instance take it for a second value of their own first parameter -
    TypeError ("got multiple values for argument 'self'"), nothing runs, whatever `**opts` the wrapped function has -/
def selfName : Name := 9

def kwSelf (c : Call) : Bool := c.kwargs.any fun p => p.1 == selfName

/-! alru_cache: `arg_names = argspec.args + kwonlyargs`, all arguments; acached_per_instance: without `self`.
    `po` counts the positional-only parameters among the names the wrapper receives (without `self`) -/
def alruOpenKey (s : Sig) (c : Call) : Option Key := if kwSelf c then none else openKey s s.args c
def alruOpenRefKey (s : Sig) (po : Nat) (c : Call) : Option Key := if kwSelf c then none else openRefKey s po s.args c
def alruOpenBind (s : Sig) (po : Nat) (c : Call) : Option (List Nat) := if kwSelf c then none else openBind s po s.args c
def perInstOpenKey (s : Sig) (c : Call) : Option Key := if kwSelf c then none else openKey s (s.args.drop 1) c
def perInstOpenRefKey (s : Sig) (po : Nat) (c : Call) : Option Key :=
  if kwSelf c then none else openRefKey s po (s.args.drop 1) c
def perInstOpenBind (s : Sig) (po : Nat) (c : Call) : Option (List Nat) :=
  if kwSelf c then none else openBind s po (s.args.drop 1) c

end AsynqModel.Cache
