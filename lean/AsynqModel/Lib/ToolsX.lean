import AsynqModel.Lib.Tools
/-
  C14, second layer: what happens to one helper invocation of `AsynqModel.Tools` when
    * the async key / predicate RAISES for some elements (`Ext.fails`: the class token of the exception),
    * the invocation runs under an asyncio event loop (`helper.asyncio(..)`, `Mode.asyncio`) instead of the asynq
      scheduler, where every per-element call needs its own number of event-loop round trips (`Ext.delay`) - the
      moment at which it finishes,
    * the key / predicate is an EAGER async function (`Ext.eager`: `@async_proxy()`, the `.asynq` attribute that
      `asynq.mock.patch` attaches to a replacement): its body runs inside `function.asynq(elt)`, i.e. inside the
      list comprehension, not when the list is yielded,
    * the function object answers every attribute name with a truthy callable (`Ext.fnAuto`: a MagicMock; measured
      by the harness) - tools.py only ever reads `.asynq`.

  The collection helpers contain no `try`: an exception delivered at their single yield of per-element tasks (or
  raised while the list of tasks is being built) leaves the helper - and, for asorted / amax / amin, the
  intermediate `amap` task - unchanged.  So this layer is written ON TOP of `Tools.run` (whose log of yields says
  when there is such a yield: `C14_one_round`), it does not repeat the helpers.  What it adds line by line is the
  delivery of a yielded LIST of tasks in the two engines (`unwrapList`: async_task.py, `gather`: asynq_to_async.py
  `_gather`) and the list comprehension with an eager function (`issueEager`).  Core Lean only.
-/
namespace AsynqModel.Tools

/-- the engine that drives the helper's generator -/
inductive Mode where
  | asynq      -- `helper(..)`, `helper.asynq(..).value()`, yielded from another task: the asynq scheduler
  | asyncio    -- `await helper.asyncio(..)` under an event loop
  deriving Repr, DecidableEq, Inhabited

/-- what a case says beyond `Env` -/
structure Ext (α : Type) where
  fails : α → Option Nat    -- the per-element call raises an exception of this class (after it blocked, if it blocks)
  delay : α → Nat           -- asyncio mode: event-loop round trips the per-element call needs before it finishes
  mode : Mode
  eager : Bool              -- the function's body runs inside `function.asynq(elt)`
  fnAuto : Bool             -- measured: the function object answers any attribute name with a truthy callable

/-- a per-element task that has finished: its exception class (if it raised) and WHEN it finished -/
structure Done where
  err : Option Nat
  time : Nat
  deriving Repr, DecidableEq, Inhabited

def taskOf (x : Ext α) (e : α) : Done := ⟨x.fails e, x.delay e⟩

/-- asynq scheduler: a task that yielded a list is continued when ALL its dependencies are computed; the value
    sent into the generator is `unwrap` of the list, element by element IN LIST ORDER, so the first element (in
    list order) that holds an error is the exception thrown into the generator (async_task.py `_continue` /
    futures `.value()`; C02 first-error clause).  `none` = every task returned. -/
def unwrapList : List Done → Option Nat
  | [] => none
  | d :: ds =>
    match d.err with
    | some c => some c
    | none => unwrapList ds

/-- asynq_to_async.py `_gather`:
      `await asyncio.wait(tasks, return_when=asyncio.ALL_COMPLETED)`   nothing is decided before the slowest is done
      `return [task.result() for task in tasks]`                       `result()` re-raises; the comprehension walks
                                                                       `tasks` in LIST order, whatever `Done.time` says -/
def gather (ds : List Done) : Option Nat :=
  (ds.find? fun d => d.err.isSome).bind (·.err)

/-- the exception (class) a helper's `yield [tasks]` raises, `none` = it delivers the list of values -/
def yieldErr : Mode → List Done → Option Nat
  | .asynq, ds => unwrapList ds
  | .asyncio, ds => gather ds

/-- `[function.asynq(elt) for elt in sequence]` with an EAGER function: the bodies run here, one after the other;
    the first one that raises leaves the comprehension (nothing is yielded, later elements are never looked at).
    Result: the exception class (if any) and the number of bodies that ran, starting from `n`. -/
def issueEager (fails : α → Option Nat) : List α → Nat → Option Nat × Nat
  | [], n => (none, n)
  | e :: es, n =>
    match fails e with
    | some c => (some c, n + 1)
    | none => issueEager fails es (n + 1)

/-- the observation of one invocation in this layer -/
def observeX (env : Env α) (x : Ext α) (c : Call α) : Obs α :=
  let o := observe (run env c)
  -- asyncio mode: no asynq batch can take part (`resolve_awaitables` refuses batch items), nothing is flushed
  let o := if x.mode = .asyncio then { o with flushes := [] } else o
  -- no per-element call is made (no function, malformed call, non-iterable input, aretry): nothing else to say
  if !c.perElement then o
  else if x.eager then
    match issueEager x.fails c.items 0 with
    | (some cls, n) => { res := .raised (.user cls 0), flushes := [], runs := n, sleeps := 0 }
    | (none, _) => o
  else
    -- a lazy function: every task is built and yielded; all of them run; the yield raises or delivers
    match yieldErr x.mode (c.items.map (taskOf x)) with
    | some cls => { o with res := .raised (.user cls 0) }
    | none => o

/-! ## the property, with a key / predicate that may raise -/

/-- what `map(f, xs)` / `filter` / `sorted(key=f)` / `max(key=f)` / `min(key=f)` / the partition raise: they call `f`
    element by element in input order; the first exception ends them -/
def firstBad (fails : α → Option Nat) (xs : List α) : Option Nat := xs.findSome? fails

/-- the observation the property demands (cf. `expected`).  With a failing key the statement speaks about the TYPE
    of the exception only; the fields `runs` / `flushes` of that case describe the code as it is (every lazy call
    is still issued and flushed together, an eager function stops at the first failure like the built-in does) and
    are compared by the correspondence run, not by `specX`. -/
def expectedX (env : Env α) (x : Ext α) (c : Call α) : Obs α :=
  let e := expected env c
  let e := if x.mode = .asyncio then { e with flushes := [] } else e
  if !c.perElement then e
  else match firstBad x.fails c.items with
    | none => e
    | some cls =>
      { res := .raised (.user cls 0)
        flushes := if x.eager then [] else e.flushes
        runs := if x.eager then (c.items.takeWhile fun a => (x.fails a).isNone).length + 1 else e.runs
        sleeps := if x.eager then 0 else e.sleeps }

/-- does the key / predicate raise for an element the invocation calls it on? -/
def keyFails (x : Ext α) (c : Call α) : Bool := c.perElement && (firstBad x.fails c.items).isSome

def specClauseX [DecidableEq α] (env : Env α) (x : Ext α) (c : Call α) (o : Obs α) : String :=
  let e := expectedX env x c
  if o.res != e.res then "result"
  else if keyFails x c then "ok"          -- "raising the same exception type": nothing else is demanded
  else if o.runs != e.runs then "calls"
  else if o.flushes != e.flushes then "one-round"
  else if o.sleeps != e.sleeps then "sleeps"
  else "ok"

def specX [DecidableEq α] (env : Env α) (x : Ext α) (c : Call α) (o : Obs α) : Bool :=
  if keyFails x c then o.res == (expectedX env x c).res else o == expectedX env x c

/-- the plain case: asynq mode, a lazy function that never raises -/
def Ext.plain : Ext α := { fails := fun _ => none, delay := fun _ => 0, mode := .asynq, eager := false, fnAuto := false }

/-- what a "gather" that reports the failure that happens first IN TIME would raise (seeded change C14-8;
    ties in time broken by list order) - used by the non-vacuity examples only -/
def firstInTime (ds : List Done) : Option Nat :=
  let bad := ds.filter fun d => d.err.isSome
  match bad with
  | [] => none
  | d :: rest => (rest.foldl (fun best e => if e.time < best.time then e else best) d).err

end AsynqModel.Tools
