import AsynqModel.Lib.Tools
/-
  C14, second layer: what happens to one helper invocation of `AsynqModel.Tools` when
    * the async key / predicate RAISES for some elements (`Ext.fails`: the class token of the exception),
    * the invocation runs under an asyncio event loop (`helper.asyncio(..)`, `Mode.asyncio`) instead of the asynq
      scheduler, where every per-element call needs its own number of event-loop round trips (`Ext.delay`): the
      event loop sees the calls finish in THAT order (`completionOrder`), stores each outcome on its task, releases
      the waiting helper when the last one is done (`waitAll`) and only then are the outcomes read (`readResults`),
    * the key / predicate is an EAGER async function (`Ext.eager`: `@async_proxy()`, the `.asynq` attribute that
      `asynq.mock.patch` attaches to a replacement): its body runs inside `function.asynq(elt)`, i.e. inside the
      list comprehension, not when the list is yielded,
    * the function object answers every attribute name with a truthy callable (`Ext.fnAuto`: a MagicMock; measured
      by the harness) - tools.py only ever reads `.asynq`,
    * the exception class is one of CPython's GENERATOR-PROTOCOL classes (`clsKind`): StopIteration (and subclasses;
      token 7) raised inside a generator / coroutine comes out as RuntimeError (PEP 479; token 9), GeneratorExit (and
      subclasses; token 8) raised by the function of an asynq task ENDS that task with the value None
      (async_task.py `_continue`: `except GeneratorExit: .. self._queue_exit(None)`), while the asyncio engine lets
      it through.  These classes are OUTSIDE the statement of C14 (`Ext.ordinary`); the model says what the code
      does with them so that the restriction has machine-checked witnesses.

  The collection helpers contain no `try`: an exception delivered at their single yield of per-element tasks (or
  raised while the list of tasks is being built) leaves the helper - and, for asorted / amax / amin, the
  intermediate `amap` task - unchanged.  So this layer is written ON TOP of `Tools.run` (whose log of yields says
  when there is such a yield: `C14_one_round`), it does not repeat the helpers.  What it adds line by line is the
  delivery of a yielded LIST of tasks in the two engines (`unwrapList`: async_task.py, `gather`: asynq_to_async.py
  `_gather`), the list comprehension with an eager function (`issueEager`) and aretry's loop seen through the
  generator protocol (`retryLoopX`).  Core Lean only.
-/
namespace AsynqModel.Tools

/-- the engine that drives the helper's generator -/
inductive Mode where
  | asynq      -- `helper(..)`, `helper.asynq(..).value()`, yielded from another task: the asynq scheduler
  | asyncio    -- `await helper.asyncio(..)` under an event loop
  deriving Repr, DecidableEq, Inhabited

/-- what a case says beyond `Env` -/
structure Ext (α : Type) where
  fails : α → Option Nat    -- the per-element call raises an exception of this class (after it blocked, if it blocks)
  delay : α → Nat           -- asyncio mode: event-loop round trips the per-element call needs before it finishes
  mode : Mode
  eager : Bool              -- the function's body runs inside `function.asynq(elt)`
  fnAuto : Bool             -- measured: the function object answers any attribute name with a truthy callable

/-! ## exception classes with a meaning of their own in CPython's generator protocol -/

inductive ClsKind where
  | ordinary         -- every other class, derived from Exception or from BaseException only
  | stopIteration    -- StopIteration and its subclasses (NOT StopAsyncIteration)
  | generatorExit    -- GeneratorExit and its subclasses
  deriving Repr, DecidableEq, Inhabited

/-- class tokens: 7 = a subclass of StopIteration, 8 = a subclass of GeneratorExit, everything else ordinary
    (1-4 derive from Exception, 4 from 1; 5, 6 from BaseException only; 9 = RuntimeError) -/
def clsKind : Nat → ClsKind
  | 7 => .stopIteration
  | 8 => .generatorExit
  | _ => .ordinary

def ordinaryCls (c : Nat) : Bool := clsKind c == .ordinary

/-- PEP 479: a StopIteration that leaves a generator / coroutine frame is replaced by RuntimeError -/
def runtimeErrorCls : Nat := 9

/-- how a per-element task ended -/
inductive TaskOut where
  | val               -- the function returned
  | err (cls : Nat)   -- the task holds an error of this class
  | lost              -- the function raised GeneratorExit: the asynq task is COMPUTED with the value None
  deriving Repr, DecidableEq, Inhabited

/-- async_task.py `_continue` (asynq) / a coroutine wrapped in an asyncio task (asyncio): what becomes of the
    exception the function of a per-element task raises -/
def taskOut (m : Mode) : Option Nat → TaskOut
  | none => .val
  | some c =>
    match clsKind c with
    | .ordinary => .err c                         -- `except BaseException as error: self._accept_error(error)`
    | .stopIteration => .err runtimeErrorCls      -- "generator raised StopIteration" / "coroutine raised StopIteration"
    | .generatorExit =>
      match m with
      | .asynq => .lost                           -- `except GeneratorExit: .. else: self._queue_exit(None)`
      | .asyncio => .err c                        -- propagates like any BaseException

/-- a per-element task that has finished: how, and WHEN -/
structure Done where
  out : TaskOut
  time : Nat
  deriving Repr, DecidableEq, Inhabited

def Done.err (d : Done) : Option Nat :=
  match d.out with
  | .err c => some c
  | _ => none

def taskOf (x : Ext α) (e : α) : Done := ⟨taskOut x.mode (x.fails e), x.delay e⟩

/-- asynq scheduler: a task that yielded a list is continued when ALL its dependencies are computed; the value
    sent into the generator is `unwrap` of the list, element by element IN LIST ORDER, so the first element (in
    list order) that holds an error is the exception thrown into the generator (async_task.py `_continue` /
    futures `.value()`; C02 first-error clause).  `none` = every task is computed with a value. -/
def unwrapList : List Done → Option Nat
  | [] => none
  | d :: ds =>
    match d.err with
    | some c => some c
    | none => unwrapList ds

/-! ### the asyncio engine: completion order, `asyncio.wait`, reading the results -/

/-- the event loop's queue of finished tasks: a task goes behind every task that finished EARLIER and before every
    task that finishes at the same time or later and was created after it (ready queue = FIFO in creation order) -/
def insertByTime (p : Nat × Done) : List (Nat × Done) → List (Nat × Done)
  | [] => [p]
  | q :: qs => if p.2.time ≤ q.2.time then p :: q :: qs else q :: insertByTime p qs

/-- the order in which the event loop sees the tasks `tasks[i], tasks[i+1], ..` finish: (index, outcome) pairs
    sorted by finishing time, equal times in creation order -/
def completionOrder : Nat → List Done → List (Nat × Done)
  | _, [] => []
  | i, d :: ds => insertByTime (i, d) (completionOrder (i + 1) ds)

/-- `await asyncio.wait(tasks, return_when=asyncio.ALL_COMPLETED)` (asyncio `_wait`): every task gets a done
    callback that decrements a counter; when a task finishes its outcome is stored ON the task (here: appended to
    `store`, keyed by the task's index) and the callback runs; the waiter is released when the counter reaches 0.
    `none` = the events ran out with the counter above 0 (the helper would wait for ever; cannot happen when every
    task finishes, `waitAll_all`). -/
def waitAll : (pending : Nat) → (events : List (Nat × Done)) → (store : List (Nat × Done)) → Option (List (Nat × Done))
  | 0, _, store => some store
  | _ + 1, [], _ => none
  | n + 1, ev :: evs, store => waitAll n evs (store ++ [ev])

/-- `[task.result() for task in tasks]`: the comprehension walks `tasks[i], tasks[i+1], ..` in LIST order;
    `task.result()` re-raises what is stored on that task; the first one that raises ends the comprehension -/
def readResults (store : List (Nat × Done)) : Nat → List Done → Option Nat
  | _, [] => none
  | i, _ :: ds =>
    match (store.lookup i).bind (·.err) with
    | some c => some c
    | none => readResults store (i + 1) ds

/-- asynq_to_async.py `_gather`:
      `tasks = [asyncio.ensure_future(awaitable) for awaitable in awaitables]`
      `await asyncio.wait(tasks, return_when=asyncio.ALL_COMPLETED)`   nothing is read before the slowest is done
      `return [task.result() for task in tasks]`                       read in list order -/
def gather (ds : List Done) : Option Nat :=
  match waitAll ds.length (completionOrder 0 ds) [] with
  | some store => readResults store 0 ds
  | none => none

/-- CONTRAST (not what the library does): `return await asyncio.gather(*tasks)` - the awaiting coroutine is woken by
    the first task that FAILS, in order of time (seeded change C14-8).  Same event loop, different reader. -/
def raceGather (ds : List Done) : Option Nat :=
  (completionOrder 0 ds).findSome? (·.2.err)

/-- the exception (class) a helper's `yield [tasks]` raises, `none` = it delivers the list of values -/
def yieldErr : Mode → List Done → Option Nat
  | .asynq, ds => unwrapList ds
  | .asyncio, ds => gather ds

/-- `[function.asynq(elt) for elt in sequence]` with an EAGER function: the bodies run here, one after the other;
    the first one that raises leaves the comprehension (nothing is yielded, later elements are never looked at).
    Result: the exception class (if any) and the number of bodies that ran, starting from `n`. -/
def issueEager (fails : α → Option Nat) : List α → Nat → Option Nat × Nat
  | [], n => (none, n)
  | e :: es, n =>
    match fails e with
    | some c => (some c, n + 1)
    | none => issueEager fails es (n + 1)

/-- is the helper one that sorts / compares the keys `amap` handed back (asorted, amax, amin)? -/
def Call.comparesKeys : Call α → Bool
  | .asorted .. | .amaxmin .. => true
  | _ => false

/-- an exception of class `cls` raised INSIDE the helper's own generator frame (by the list comprehension with an
    eager function): an ordinary class propagates; StopIteration becomes RuntimeError (PEP 479); GeneratorExit ends
    the helper's asynq task with the value None - for asorted / amax / amin it is the intermediate `amap` task that
    ends so, and `zip(None, ..)` / `keys[i]` is a TypeError -/
def eagerRes (m : Mode) (c : Call α) (cls : Nat) : Res α :=
  match clsKind cls with
  | .ordinary => .raised (.user cls 0)
  | .stopIteration => .raised (.user runtimeErrorCls 0)
  | .generatorExit =>
    match m with
    | .asyncio => .raised (.user cls 0)
    | .asynq => if c.comparesKeys then .raised .typeError else .ok .none

/-- was the per-element task of `e` ended by GeneratorExit (value None)? -/
def lostAt (x : Ext α) (e : α) : Bool := (taskOf x e).out == .lost

/-- the result of a helper whose yield delivered the list of values with None where a task was `lost`:
    amap hands the list back; a predicate result None is falsy; a key None cannot be compared with anything
    (TypeError as soon as there are two elements) -/
def lostRes (env : Env α) (x : Ext α) (c : Call α) : Res α :=
  match c with
  | .amap s => .ok (.optVals (s.items.map fun e => if lostAt x e then none else some (env.key e)))
  | .afilter .. | .afilterfalse .. | .asift .. =>
    (run { env with pred := fun e => env.pred e && !lostAt x e } c).res
  | _ => if 2 ≤ c.items.length then .raised .typeError else (run env c).res

/-! ### aretry through the generator protocol -/

/-- what aretry's generator experiences of one attempt -/
inductive Seen where
  | ret (v : Int)
  | err (cls : Nat)      -- an exception that `except exception_cls` gets to look at
  | fatal (cls : Nat)    -- an exception nothing in aretry can catch
  | lost                 -- the attempt's task (or aretry's own task) ended with the value None
  deriving Repr, DecidableEq, Inhabited

/-- a LAZY body (`@asynq()`; under asyncio also `@async_proxy()`, whose call becomes a coroutine of its own) raises
    inside its own task: StopIteration comes out as RuntimeError, GeneratorExit ends the task with None (asynq) or goes
    through the event loop as a BaseException that is not retried (asyncio).  An EAGER body (`@async_proxy()` under the
    asynq scheduler, a hand-written `.asynq`) raises inside aretry's `try`, in aretry's own frame: a listed class is
    caught like any other; an unlisted one leaves aretry's frame (`leaves`). -/
def seen (m : Mode) (kind : BodyKind) (listed : List Nat) : Attempt → Seen
  | .ret v => .ret v
  | .raise c =>
    match clsKind c with
    | .ordinary => .err c
    | .stopIteration =>
      match kind with
      | .lazy => .err runtimeErrorCls
      | .eager => if isListed listed c then .err c else .fatal runtimeErrorCls
    | .generatorExit =>
      if kind = .eager ∧ isListed listed c = true then .err c
      else match m with
        | .asynq => .lost
        | .asyncio => .fatal c

/-- an exception of class `cls` (instance of attempt `i`) LEAVES aretry's own frame - the bare `raise` after the last
    attempt, or a class that is not listed: an ordinary class propagates; StopIteration becomes RuntimeError (PEP 479);
    GeneratorExit ends aretry's asynq task with the value None -/
def leaves (m : Mode) (cls i : Nat) : Res α :=
  match clsKind cls with
  | .ordinary => .raised (.user cls i)
  | .stopIteration => .raised (.user runtimeErrorCls i)
  | .generatorExit =>
    match m with
    | .asynq => .ok .none
    | .asyncio => .raised (.user cls i)

/-- `retryLoop` (Lib/Tools.lean, tools.py:286-313) with the attempts seen through `seen` -/
def retryLoopX (m : Mode) (listed : List Nat) (script : Nat → Attempt) (maxTries : Nat) (blocking : Bool)
    (kind : BodyKind) : (todo i : Nat) → Run α
  | 0, _ => ⟨.ok .none, [], 0⟩
  | todo + 1, i =>
    let blk := attemptBlocks kind blocking (script i)
    match seen m kind listed (script i) with
    | .ret v => ⟨.ok (.val v), [[blk]], 0⟩
    | .lost => ⟨.ok .none, [[blk]], 0⟩
    | .fatal cls => ⟨.raised (.user cls i), [[blk]], 0⟩
    | .err cls =>
      if isListed listed cls then
        if i + 1 == maxTries then ⟨leaves m cls i, [[blk]], 0⟩                   -- `raise`
        else
          let r := retryLoopX m listed script maxTries blocking kind todo (i + 1)
          ⟨r.res, [blk] :: r.rounds, r.sleeps + 1⟩
      else ⟨leaves m cls i, [[blk]], 0⟩

def aretryX (m : Mode) (maxTries : Nat) (listed : List Nat) (script : List Attempt) (blocking : Bool)
    (kind : BodyKind) : Run α :=
  if maxTries = 0 then ⟨.raised .assertionError, [], 0⟩
  else retryLoopX m listed (scriptAt script) maxTries blocking kind maxTries 0

/-- `Tools.run` with aretry seen through the generator protocol -/
def runX (env : Env α) (m : Mode) : Call α → Run α
  | .aretry mt l sc b k => aretryX m mt l sc b k
  | c => run env c

/-- the observation of one invocation in this layer -/
def observeX (env : Env α) (x : Ext α) (c : Call α) : Obs α :=
  let o := observe (runX env x.mode c)
  -- asyncio mode: no asynq batch can take part (`resolve_awaitables` refuses batch items), nothing is flushed
  let o := if x.mode = .asyncio then { o with flushes := [] } else o
  -- no per-element call is made (no function, malformed call, non-iterable input, aretry): nothing else to say
  if !c.perElement then o
  else if x.eager then
    match issueEager x.fails c.items 0 with
    | (some cls, n) => { res := eagerRes x.mode c cls, flushes := [], runs := n, sleeps := 0 }
    | (none, _) => o
  else
    -- a lazy function: every task is built and yielded; all of them run; the yield raises or delivers
    match yieldErr x.mode (c.items.map (taskOf x)) with
    | some cls => { o with res := .raised (.user cls 0) }
    | none => if c.items.any (lostAt x) then { o with res := lostRes env x c } else o

/-! ## the property, with a key / predicate that may raise -/

/-- what `map(f, xs)` / `filter` / `sorted(key=f)` / `max(key=f)` / `min(key=f)` / the partition raise: they call `f`
    element by element in input order; the first exception ends them -/
def firstBad (fails : α → Option Nat) (xs : List α) : Option Nat := xs.findSome? fails

/-- THE CLASS DOMAIN OF THE STATEMENT: the exception that decides (the first bad element's; every class the
    retried body raises within the first `max_tries` attempts) is not one of the generator-protocol classes.
    Needed: `C14_stopIteration_outside_statement`, `C14_generatorExit_outside_statement`,
    `C14_aretry_special_outside_statement`. -/
def Ext.ordinary (x : Ext α) (c : Call α) : Bool :=
  match c with
  | .aretry mt _ sc _ _ =>
    (List.range mt).all fun i =>
      match scriptAt sc i with
      | .raise cls => ordinaryCls cls
      | .ret _ => true
  | _ =>
    match firstBad x.fails c.items with
    | some cls => ordinaryCls cls
    | none => true

/-- the observation the property demands (cf. `expected`).  With a failing key the statement speaks about the TYPE
    of the exception only; the fields `runs` / `flushes` of that case describe the code as it is (every lazy call
    is still issued and flushed together, an eager function stops at the first failure like the built-in does) and
    are compared by the correspondence run, not by `specX`. -/
def expectedX (env : Env α) (x : Ext α) (c : Call α) : Obs α :=
  let e := expected env c
  let e := if x.mode = .asyncio then { e with flushes := [] } else e
  if !c.perElement then e
  else match firstBad x.fails c.items with
    | none => e
    | some cls =>
      { res := .raised (.user cls 0)
        flushes := if x.eager then [] else e.flushes
        runs := if x.eager then (c.items.takeWhile fun a => (x.fails a).isNone).length + 1 else e.runs
        sleeps := if x.eager then 0 else e.sleeps }

/-- does the key / predicate raise for an element the invocation calls it on? -/
def keyFails (x : Ext α) (c : Call α) : Bool := c.perElement && (firstBad x.fails c.items).isSome

def specClauseX [DecidableEq α] (env : Env α) (x : Ext α) (c : Call α) (o : Obs α) : String :=
  let e := expectedX env x c
  if o.res != e.res then "result"
  else if keyFails x c then "ok"          -- "raising the same exception type": nothing else is demanded
  else if o.runs != e.runs then "calls"
  else if o.flushes != e.flushes then "one-round"
  else if o.sleeps != e.sleeps then "sleeps"
  else "ok"

def specX [DecidableEq α] (env : Env α) (x : Ext α) (c : Call α) (o : Obs α) : Bool :=
  if keyFails x c then o.res == (expectedX env x c).res else o == expectedX env x c

/-- the plain case: asynq mode, a lazy function that never raises -/
def Ext.plain : Ext α := { fails := fun _ => none, delay := fun _ => 0, mode := .asynq, eager := false, fnAuto := false }

end AsynqModel.Tools
