import AsynqModel.Lib.Contexts
/-
  Extension of the context-history model (Lib/Contexts.lean) by REAL `with` blocks of the task's generator and by what
  `generator.close()` does to them (second audit of the core, finding 2).

  In Lib/Contexts.lean every `enter`/`exit` is a manual `__enter__()`/`__exit__()` call, so failing a task
  (`acceptError`) only stores the outcome.  In a real task the blocks are `with` statements of the generator:
    * AsyncTask._accept_error -> set_error -> AsyncTask._computed (async_task.py:157-170) calls `self._generator.close()`:
      GeneratorExit is thrown at the `yield`, every open with-block runs its `__exit__` (innermost first), and an exception
      raised by an `__exit__` REPLACES whatever was in flight and leaves `close()` - and with it `_computed`, `set_error`,
      `_accept_error`, `_resume_contexts`, `TaskScheduler._continue_with_task`, `_execute`, `wait_for`, `value()`;
    * a `return` / an exception of the body travels through the open blocks the same way before the task completes.

  A body may also IGNORE the GeneratorExit (`swallowsGX`, third audit of the core, item 2): the suspension point of the
  body is `try: yield item / except GeneratorExit: yield`, in a sub-generator that the frames holding the with-blocks delegate
  to (`yield from`, the shape of the harness body harness/checks/ctxhist.py `seq`).  `close()` of that sub-generator raises
  `RuntimeError('generator ignored GeneratorExit')`; the interpreter raises it in the delegating frames at the `yield from`,
  so it travels through the open with-blocks like any exception (every `__exit__` runs, an `__exit__` that raises replaces
  it) and leaves `generator.close()` of the task - ONE raising hook is enough to let an exception out.

  The first `nb` contexts are the with-blocks of the body (`with c0: ... with c1: ...`, entered in this order while the task
  runs; `exit c` of the innermost one leaves it normally); the contexts from `nb` on are operated manually as before.
-/
namespace AsynqModel.Contexts

structure StW where
  s : St
  nb : Nat                  -- contexts 0 .. nb-1 are with-blocks of the task's body
  blocks : List Nat := []   -- the open with-blocks, innermost first
  dirty : Bool := false     -- an exception left the scheduler loop: `TaskScheduler._tasks` was not unwound
  stale : Bool := false     -- the task was failed while suspended: the batch of the item it awaited stays in
                            -- `TaskScheduler._batches`, unflushed (scheduler.py never unschedules a batch; the OPEN C08 finding)
  /-- `AsyncTask._computed` swallows what `generator.close()` raises (NOT what async_task.py does today; the proposed
      repair proposed-fixes/C08-close-raise.diff) -/
  closeSwallows : Bool := false
  /-- the body ignores GeneratorExit at its suspension points and yields again: `generator.close()` raises
      `RuntimeError('generator ignored GeneratorExit')` (token `Exc.other`) through the open with-blocks -/
  swallowsGX : Bool := false
  deriving Repr, DecidableEq

def initW (defs : List Kind) (nvars nb : Nat) : StW := { s := init defs nvars, nb := nb }

/-- the interpreter leaving the open with-blocks, innermost first, while a `return`, an exception or the GeneratorExit of
    `generator.close()` travels through them: EVERY `__exit__` runs (contexts.py:93-104 = `exitOp`); an exception raised
    by an `__exit__` replaces what was in flight (`fl`; `none` = nothing that the caller of the generator will see) -/
def unwind (cfg : Cfg) (defs : List Kind) : List Nat → St → List Call → Option Exc → St × List Call × Option Exc
  | [], s, calls, fl => (s, calls, fl)
  | c :: rest, s, calls, fl =>
    match exitOp cfg defs s c with
    | (s', cl, .exc e) => unwind cfg defs rest s' (calls ++ cl) (some e)
    | (s', cl, _) => unwind cfg defs rest s' (calls ++ cl) fl

/-- AsyncTask._accept_error for a task whose generator is suspended at a `yield`: the outcome is stored
    (futures.py set_error), then `_computed` closes the generator; what an `__exit__` raises meanwhile ESCAPES, and so
    does the RuntimeError for a body that ignores the GeneratorExit.  `closeSwallows` is the ONLY thing that keeps an
    exception of `close()` in: that the repaired model lets nothing out is true by construction of this line -/
def acceptErrorW (cfg : Cfg) (defs : List Kind) (w : StW) (e : Exc) : StW × List Call × Option Exc :=
  if w.s.status != .none then (w, [], none) else
    -- what is in flight while the blocks are left: the GeneratorExit (nothing the caller of close() will see), or the
    -- RuntimeError of a body that ignored the GeneratorExit
    match unwind cfg defs w.blocks { w.s with status := .err e, phase := .done } []
        (if w.swallowsGX then some .other else none) with
    | (s', calls, esc) => ({ w with s := s', blocks := [] }, calls, if w.closeSwallows then none else esc)

/-- AsyncTask._pause_contexts (async_task.py:391-407) -/
def pauseContextsW (cfg : Cfg) (defs : List Kind) (w : StW) : StW × List Call × Option Exc :=
  if !w.s.active then (w, [], none) else
    match pauseLoop defs w.s.reg.reverse { w.s with active := false } [] none with
    | (s', calls, some e) =>
      match acceptErrorW cfg defs { w with s := s' } e with
      | (w', c2, esc) => (w', calls ++ c2, esc)
    | (s', calls, none) => ({ w with s := s' }, calls, none)

/-- AsyncTask._resume_contexts (async_task.py:409-424) -/
def resumeContextsW (cfg : Cfg) (defs : List Kind) (w : StW) : StW × List Call × Option Exc :=
  if w.s.active then (w, [], none) else
    match resumeLoop defs w.s.reg { w.s with active := true } [] none with
    | (s', calls, some e) =>
      match acceptErrorW cfg defs { w with s := s' } e with
      | (w', c2, esc) => (w', calls ++ c2, esc)
    | (s', calls, none) => ({ w with s := s' }, calls, none)

/-- the RUNNING body ends: `fl = none` a `return`, `some e` an exception raised in the body (or by an `__enter__` /
    `__exit__` of one of its with statements).  The open blocks are left, then AsyncTask._continue stores the outcome
    (`_queue_exit` / `_accept_error`; the generator has finished, there is nothing to close) -/
def endBody (cfg : Cfg) (defs : List Kind) (w : StW) (fl : Option Exc) : StW × List Call :=
  match unwind cfg defs w.blocks w.s [] fl with
  | (s', calls, some e) => ({ w with s := { s' with status := .err e, phase := .done }, blocks := [] }, calls)
  | (s', calls, none) => ({ w with s := { s' with status := .ok, phase := .done }, blocks := [] }, calls)

def escOfOpt : Option Exc → Esc
  | some e => .exc e
  | none => .none

def stepCoreW (cfg : Cfg) (defs : List Kind) (w : StW) (op : Op) : StW × List Call × Esc :=
  match op with
  | .enter c =>
    if defs.length ≤ c then (w, [], .skip)
    else if c < w.nb then
      -- `with c:` in the body: only while the task runs, and only the next block in the fixed nesting order
      if w.s.phase == .running && c == w.blocks.length then
        match enterOp cfg defs w.s c with
        | (s', calls, .exc e) =>
          match endBody cfg defs { w with s := s' } (some e) with
          | (w', c2) => (w', calls ++ c2, .none)
        | (s', calls, _) => ({ w with s := s', blocks := c :: w.blocks }, calls, .none)
      else (w, [], .skip)
    else
      match enterOp cfg defs w.s c with
      | (s', calls, esc) => ({ w with s := s' }, calls, esc)
  | .exit c =>
    if defs.length ≤ c then (w, [], .skip)
    else if c < w.nb then
      -- control leaves the innermost with-block normally
      if w.s.phase == .running && w.blocks.head? == some c then
        match exitOp cfg defs w.s c with
        | (s', calls, .exc e) =>
          match endBody cfg defs { w with s := s', blocks := w.blocks.tail } (some e) with
          | (w', c2) => (w', calls ++ c2, .none)
        | (s', calls, _) => ({ w with s := s', blocks := w.blocks.tail }, calls, .none)
      else (w, [], .skip)
    else
      match exitOp cfg defs w.s c with
      | (s', calls, esc) => ({ w with s := s' }, calls, esc)
  | .suspend =>
    if w.s.phase != .running then (w, [], .skip) else
      match resumeContextsW cfg defs { w with s := { w.s with phase := .suspended } } with
      | (w1, c1, e1) =>
        match pauseContextsW cfg defs w1 with
        | (w2, c2, e2) =>
          let esc := match e1 with | some e => some e | none => e2
          ({ w2 with dirty := w2.dirty || esc.isSome, stale := w2.stale || w2.s.status != .none }, c1 ++ c2, escOfOpt esc)
  | .continue_ =>
    if w.s.phase != .suspended then (w, [], .skip) else
      match resumeContextsW cfg defs w with
      | (w1, calls, esc) =>
        ({ w1 with s := (if w1.s.status != .none then w1.s else { w1.s with phase := .running }), dirty := w1.dirty || esc.isSome },
          calls, escOfOpt esc)
  | .finish ok =>
    if w.s.phase != .running then (w, [], .skip) else
      match endBody cfg defs w (if ok then none else some .taskError) with
      | (w', calls) => (w', calls, .none)

def stepW (cfg : Cfg) (defs : List Kind) (w : StW) (op : Op) : StW × Obs :=
  match stepCoreW cfg defs w op with
  | (w', calls, esc) => (w', { op := op, calls := calls, esc := esc, vals := w'.s.vals, status := w'.s.status })

def runW (cfg : Cfg) (defs : List Kind) (w : StW) : List Op → List Obs
  | [] => []
  | op :: ops => (stepW cfg defs w op).2 :: runW cfg defs (stepW cfg defs w op).1 ops

def finalStateW (cfg : Cfg) (defs : List Kind) (w : StW) : List Op → StW
  | [] => w
  | op :: ops => finalStateW cfg defs (stepW cfg defs w op).1 ops

/-! ## the property (C08, failure points "context pause/resume"): whatever the hooks of the contexts do, suspending and
    continuing a task never lets an exception out of the scheduler - a hook's error is the task's failure -/

def isSchedOp : Op → Bool
  | .suspend | .continue_ => true
  | _ => false

def escapes (ob : Obs) : Bool :=
  isSchedOp ob.op && (match ob.esc with | .exc _ => true | _ => false)

def specW (obs : List Obs) : Bool := obs.all fun ob => !escapes ob

def specClauseW (obs : List Obs) : String :=
  match obs.find? escapes with
  | some ob => "hook-error-escapes-scheduler@" ++ opName ob.op
  | none => "ok"

end AsynqModel.Contexts
