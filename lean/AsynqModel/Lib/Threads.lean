/-
  Model of the state of asynq that the property C16 is about, as ONE global state shared by all threads:

    asynq/scheduler.py      LocalTaskSchedulerState(threading.local)  `_state.current`, `_state.last_id`,
                            get_scheduler / reset / get_active_task, TaskScheduler._tasks/_batches/active_task
    asynq/batching.py       LocalDebugBatchState(threading.local)     `_debug_batch_state.batches`
                            DebugBatchItem.__init__, DebugBatch._try_switch_active_batch/_flush, sync()
    asynq/profiler.py       LocalProfileState(threading.local)        `_state.stats`, `_state.counter`
    asynq/asynq_to_async.py `_asyncio_mode` ContextVar, AsyncioMode.__enter__/__exit__, is_asyncio_mode
    asynq/tools.py          DeduplicateDecorator.tasks - ONE process-wide dict,
                            cache_key = (keygetter(..), current_thread(), id(fn))
    asynq/scoped_value.py   AsyncScopedValue._value, _AsyncScopedValueOverrideContext   } objects that are shared
    asynq/tools.py          alru_cache: the closure variable `cache`                      } BY DESIGN by whoever holds them
    asynq/futures.py        none_future._in_repr (FutureBase.__repr__) - mutable state of a process-wide object of the
                            LIBRARY itself (third audit A4; `Shared.nf`, `Op.nfRepr/nfEnter/nfExit`)

  `GState` has three parts: `locals` (the carriers indexed by the thread: what a `threading.local` / a ContextVar /
  an object owned by one thread holds - a map slot ↦ `TL`), `tasks` (the one deduplicate dict, keys carry a thread
  component) and `sh` (objects that every thread holding a reference reads and writes: a scoped value, an alru cache).
  `gStep kg perf t op g` is the operation `op` performed by thread `t` on that ONE state.  How thread `t` indexes the
  carriers (`kg.slot t`) and which thread component it puts into a deduplicate key (`kg.key t`) are PARAMETERS
  (`Keying`): the library as written, run by threads created through `threading.Thread`, is `Keying.real` (CPython's
  threading.local gives every thread its own slot, `threading.current_thread()` is a distinct object per thread);
  `Keying.cpython aliens` is the library as written when some threads were NOT created through `threading.Thread`
  (`_thread.start_new_thread`, threads of C extensions): for those `current_thread()` is the `_DummyThread` that CPython
  <= 3.12 caches PER OS THREAD IDENT, so two such threads that get the same ident one after the other put the same
  thread component into their deduplicate keys; a library whose deduplicate key lacks the thread is
  `Keying.noThreadInKey`, one whose thread-local holders became module state is `Keying.moduleState`.
  The state the threads start from is a parameter too (`gRunFrom .. g₀`): `GState.start modes` is the process in which
  the threads listed in `modes` were started with a COPY of their creator's context (`contextvars.copy_context().run`,
  which is what `asyncio.to_thread` does) and so begin with the creator's asyncio-mode flag instead of the default False.

  That `gStep` does not let threads interfere is NOT built into its shape - it is a theorem (Theorems/C16.lean):
  `gStep` of thread `t` commutes with the abstraction `abs kg t` to `t`'s own view (its carriers + its slice of the
  dict) exactly when `kg.slot` / `kg.key` separate the threads, and for both broken keyings non-interference is refuted.
  `localStep` is the reference semantics of a thread that has the state for itself.

  Tokens (Nat): tasks are numbered per thread in creation order, batch names / dedup functions / keys are numbers.
-/
namespace AsynqModel.Threads

abbrev ThreadId := Nat

/-! ## Generic part: runs -/

/-- a thread running its operations alone: final local state and the record (operation, observation) of each step -/
def runAlone {σ ω ο : Type} (step : σ → ω → σ × ο) (s : σ) : List ω → σ × List (ω × ο)
  | [] => (s, [])
  | op :: ops =>
    let r := step s op
    let rest := runAlone step r.1 ops
    (rest.1, (op, r.2) :: rest.2)

/-- all threads running on ONE state under a schedule (= an interleaving: the list of (thread, operation) in global
    order); `gstep t op` is what thread `t` doing `op` does to the whole state -/
def runGlobal {Γ ω ο : Type} (gstep : ThreadId → ω → Γ → Γ × ο) (g : Γ) :
    List (ThreadId × ω) → Γ × List (ThreadId × ω × ο)
  | [] => (g, [])
  | (t, op) :: sch =>
    let r := gstep t op g
    let rest := runGlobal gstep r.1 sch
    (rest.1, (t, op, r.2) :: rest.2)

/-- the operations of thread `t` in a schedule, in order -/
def opsOf {ω : Type} (t : ThreadId) (sch : List (ThreadId × ω)) : List ω :=
  sch.filterMap fun p => if p.1 = t then some p.2 else none

/-- the records of thread `t` in a global record list (per-thread projection) -/
def proj {ρ : Type} (t : ThreadId) (recs : List (ThreadId × ρ)) : List ρ :=
  recs.filterMap fun p => if p.1 = t then some p.2 else none

/-- the schedule in which only thread `t` runs (the other threads do nothing at all): "`t` alone" -/
def only {ω : Type} (t : ThreadId) (sch : List (ThreadId × ω)) : List (ThreadId × ω) :=
  (opsOf t sch).map fun op => (t, op)

/-! ## The state -/

/-- an entry of the profiler buffer `profiler._state.stats` -/
inductive Stat where
  | task (pid : Nat)     -- AsyncTask.dump_perf_stats: perf_stats of the task whose profiler id is `pid`
  | batch                -- BatchBase.dump_perf_stats (appended by TaskScheduler._flush_batch)
  | user (u : Nat)       -- profiler.append(..) called directly
  | other                -- anything else (never produced by the model; lets the driver parse any observation)
  deriving Repr, DecidableEq, Inhabited

/-- scheduler.py: `_state.last_id`, `_state.current` (a TaskScheduler) -/
structure Sched where
  lastId : Nat                  -- LocalTaskSchedulerState.last_id
  id : Nat                      -- the number in `TaskScheduler.name` ("<thread name> / <id>")
  stack : List Nat              -- TaskScheduler._tasks (bottom first)
  batches : List (Nat × Nat)    -- TaskScheduler._batches: scheduled (batch name, batch index)
  active : Option Nat           -- TaskScheduler.active_task
  saved : List (Option Nat)     -- the `old_task` locals of the `_continue_with_task` activations on this thread's
                                --   Python call stack (innermost first)
  deriving Repr, DecidableEq, Inhabited

/-- what the carriers indexed by ONE thread hold (threading.local attributes, the ContextVar value in the thread's
    context) together with the objects only that thread has references to (its tasks, its context-manager objects) -/
structure TL where
  sched : Sched
  dbg : List (Nat × (Nat × List Nat))   -- _debug_batch_state.batches: name ↦ active DebugBatch (index, results of its items)
  stats : List Stat                     -- profiler._state.stats
  counter : Nat                         -- profiler._state.counter
  nextTok : Nat                         -- number of tasks created by this thread (token of the next one)
  pids : List (Nat × Nat)               -- task token ↦ AsyncTask._id (profiler id; 0 when not profiling)
  cbs : List (Nat × (Nat × Nat))        -- task token ↦ (fn, key): the `callback` closures subscribed by DeduplicateDecorator.asynq on a miss
  amode : Bool                          -- `_asyncio_mode.get()` in this thread's context
  amodeSaved : List Bool                -- `Token.old_value` of the AsyncioMode objects entered and not yet left (innermost first)
  svSaved : List Nat                    -- `_old_value` of the _AsyncScopedValueOverrideContext objects this thread is inside of (innermost first)
  nfHeld : Bool                         -- this thread is inside the activation of `FutureBase.__repr__(none_future)` that set `_in_repr`
                                        --   (futures.py:166-184: it is past `self._in_repr = True` and before the `finally`)
  deriving Repr, DecidableEq, Inhabited

/-- a thread that has not touched asynq yet: `LocalTaskSchedulerState.__init__` (last_id = 0, then reset() creates
    TaskScheduler number 1), empty debug-batch table, empty profiler, ContextVar default False -/
def TL.init : TL :=
  { sched := { lastId := 1, id := 1, stack := [], batches := [], active := none, saved := [] },
    dbg := [], stats := [], counter := 0, nextTok := 0, pids := [], cbs := [], amode := false, amodeSaved := [],
    svSaved := [], nfHeld := false }

/-- a thread whose context is a copy of its creator's (`Thread(target=ctx.run, ..)`, `asyncio.to_thread`): the
    ContextVar `_asyncio_mode` starts with the creator's value `m`; there is no Token to reset it with.  The
    threading.local holders are untouched by a context copy. -/
def TL.initM (m : Bool) : TL := { TL.init with amode := m }

/-- objects shared BY DESIGN by every thread that holds a reference to them: one `AsyncScopedValue` and the closure
    cache of one `alru_cache` function.  The model mirrors the code (one value for all threads); the observer `spec`
    REPORTS a thread whose records differ from its run alone because of them (`interference:shared-object`). -/
structure Shared where
  sv : Nat               -- AsyncScopedValue._value          (scoped_value.py:35-43)
  lru : List Nat         -- keys in the `cache` closure variable of alru_cache's decorator (tools.py:230, maxsize never reached)
  nf : Bool              -- `asynq.none_future._in_repr` (futures.py:225, 166-184): mutable state of the LIBRARY'S OWN process-wide
                         --   constant future - every program that mentions `none_future` shares it, whether it wants to or not
  deriving Repr, DecidableEq, Inhabited

def Shared.init : Shared := { sv := 0, lru := [], nf := false }

inductive Op where
  -- scheduler.py
  | getSched                      -- get_scheduler()                       (observe its number / owner)
  | resetSched                    -- scheduler.reset()                     (`_state.current = TaskScheduler()`)
  | snap                          -- read len(_tasks), len(_batches), active_task of get_scheduler()
  | getActive                     -- get_active_task()
  | push (x : Nat)                -- TaskScheduler._execute: `self._tasks.append(root_task)`
  | pop                           -- TaskScheduler._execute: `self._tasks.pop()`
  | taskStart (t : Nat)           -- _continue_with_task: `old_task = self.active_task; self.active_task = task`
  | taskStop                      -- _continue_with_task: `self.active_task = old_task`
  | taskDone (t : Nat)            -- task `t` is computed: its on_computed callbacks run (the dedup `callback` removes its own entry), then
                                  --   _continue_with_task: `if task.is_computed(): task.dump_perf_stats()` (COLLECT_PERF_STATS)
  | newTask                       -- fn.asynq(..): AsyncTask.__init__ (profiler.incr_counter under COLLECT_PERF_STATS)
  -- batching.py
  | mkItem (name res : Nat)       -- DebugBatchItem(name, res) / sync(tag)
  | schedBatch (name : Nat)       -- TaskScheduler._schedule_batch(item.batch) for the active batch `name`
  | schedFlush (name : Nat)       -- _continue_with_batch: `_batches.remove(batch)`, _flush_batch(batch)
  | directFlush (name : Nat)      -- batch.flush() outside the scheduler (BatchItemBase._compute via item.value())
  -- profiler.py
  | profAppend (u : Nat) | profIncr | profFlush | profReset
  -- tools.py  DeduplicateDecorator
  | dedupCall (f k : Nat)         -- DeduplicateDecorator.asynq
  | dirty (f k : Nat)             -- DeduplicateDecorator.dirty
  -- asynq_to_async.py
  | amEnter | amExit | amGet      -- AsyncioMode.__enter__ / __exit__ / is_asyncio_mode()
  -- things a program reports that involve no library state at all (results, context events)
  | note (a b : Nat)
  -- objects shared by design: scoped_value.py, tools.py alru_cache
  | svGet                         -- AsyncScopedValue.get()
  | svSet (v : Nat)               -- AsyncScopedValue.set(v)
  | svEnter (v : Nat)             -- `with V.override(v)`: AsyncContext.__enter__ -> resume()
  | svExit                        -- leaving that block: AsyncContext.__exit__ -> pause()
  | lruCall (k : Nat)             -- a synchronous call F(k) of an @alru_cache() @asynq() function
  -- the library's own process-wide object `asynq.none_future` (futures.py:225): FutureBase.__repr__ (futures.py:166-184)
  | nfRepr                        -- `repr(none_future)`, the whole call without a thread switch inside it
  | nfEnter                       -- `repr(none_future)` up to the first call made inside `__repr__` (past `self._in_repr = True`),
                                  --   where the thread is preempted - or the whole call if it answers "<recursion>" at once
  | nfExit                        -- the rest of that call: the `finally: self._in_repr = False` of the activation that set it
  deriving Repr, DecidableEq, Inhabited

def Op.name : Op → String
  | .getSched => "getSched" | .resetSched => "resetSched" | .snap => "snap" | .getActive => "getActive"
  | .push _ => "push" | .pop => "pop" | .taskStart _ => "taskStart" | .taskStop => "taskStop"
  | .taskDone _ => "taskDone" | .newTask => "newTask" | .mkItem _ _ => "mkItem" | .schedBatch _ => "schedBatch"
  | .schedFlush _ => "schedFlush" | .directFlush _ => "directFlush" | .profAppend _ => "profAppend"
  | .profIncr => "profIncr" | .profFlush => "profFlush" | .profReset => "profReset"
  | .dedupCall _ _ => "dedupCall" | .dirty _ _ => "dirty"
  | .amEnter => "amEnter" | .amExit => "amExit" | .amGet => "amGet" | .note _ _ => "note"
  | .svGet => "svGet" | .svSet _ => "svSet" | .svEnter _ => "svEnter" | .svExit => "svExit" | .lruCall _ => "lruCall"
  | .nfRepr => "nfRepr" | .nfEnter => "nfEnter" | .nfExit => "nfExit"

/-- the operations on objects that are shared by design -/
def Op.isShared : Op → Bool
  | .svGet | .svSet _ | .svEnter _ | .svExit | .lruCall _ | .nfRepr | .nfEnter | .nfExit => true
  | _ => false

/-- which component an operation belongs to (used for the clause name of a failing spec) -/
def Op.component : Op → String
  | .getSched | .resetSched | .snap | .getActive | .push _ | .pop | .taskStart _ | .taskStop => "scheduler"
  | .profAppend _ | .profIncr | .profFlush | .profReset => "profiler"
  | .newTask | .taskDone _ => "task"
  | .mkItem _ _ | .schedBatch _ | .schedFlush _ | .directFlush _ => "debug-batch"
  | .dedupCall _ _ | .dirty _ _ => "deduplicate"
  | .amEnter | .amExit | .amGet => "asyncio-mode"
  | .note _ _ => "trace"
  | .svGet | .svSet _ | .svEnter _ | .svExit | .lruCall _ => "shared-object"
  | .nfRepr | .nfEnter | .nfExit => "none-future"

inductive Obs where
  | unit
  | nat (n : Nat)
  | sched (id : Nat) (own : Bool)          -- number in the scheduler's name; is the name that of the calling thread
  | snap (stack batches : Nat) (active : Option Nat)
  | active (a : Option Nat)
  | task (tok pid : Nat)                   -- a new AsyncTask: its token, its profiler id
  | bypass                                 -- asyncio mode: `.asynq()` returned a coroutine instead of a task
  | item (idx pos pid : Nat)               -- batch index, position in the batch, profiler id
  | flushed (idx : Nat) (items : List Nat) -- index of the flushed batch, results of its items (= its composition)
  | noBatch
  | stats (l : List Stat)
  | dedup (kind tok pid : Nat)             -- kind 0 = a new task (miss, or the stored task is running), 1 = the stored task
  | bool (b : Bool)
  | cache (hit : Bool) (v : Nat)           -- alru_cache call: was it answered from the cache, the value
  | raised (cls : Nat)                     -- the operation raised (1 = RuntimeError: a synchronous call in asyncio mode)
  | foreign                                -- implementation only: the record mentions an object (task, batch, item, scheduler)
                                           --   that the thread did not create itself (never produced by the model)
  | other
  deriving Repr, DecidableEq, Inhabited

/-! association lists (the Python dicts) -/
def alookup {α β : Type} [DecidableEq α] (k : α) : List (α × β) → Option β
  | [] => none
  | (k', v) :: r => if k' = k then some v else alookup k r

def aerase {α β : Type} [DecidableEq α] (k : α) : List (α × β) → List (α × β)
  | [] => []
  | (k', v) :: r => if k' = k then aerase k r else (k', v) :: aerase k r

def ainsert {α β : Type} [DecidableEq α] (k : α) (v : β) (l : List (α × β)) : List (α × β) :=
  (k, v) :: aerase k l

/-- tasks whose generator is executing on this thread (`AsyncTask.running`): the active task and the saved ones -/
def TL.running (l : TL) : List Nat :=
  (l.sched.active :: l.sched.saved).filterMap id

/-- `profiler.incr_counter()` when COLLECT_PERF_STATS, else id 0: new counter and the id handed out -/
def perfId (perf : Bool) (l : TL) : Nat × Nat :=
  if perf then (l.counter + 1, l.counter + 1) else (l.counter, 0)

/-- AsyncTask.__init__ on this thread: a new token, a profiler id -/
def freshTask (perf : Bool) (l : TL) : TL × Nat × Nat :=
  let (c, pid) := perfId perf l
  ({ l with counter := c, nextTok := l.nextTok + 1, pids := ainsert l.nextTok pid l.pids }, l.nextTok, pid)

/-- DebugBatch._compute of the active batch `name`: `_try_switch_active_batch` installs DebugBatch(name, index+1),
    `_flush` answers every item -/
def flushName (l : TL) (name : Nat) : Option (TL × Nat × List Nat) :=
  match alookup name l.dbg with
  | some (idx, items) => some ({ l with dbg := ainsert name (idx + 1, []) l.dbg }, idx, items)
  | none => none

/-- what an operation does to "the deduplicate table as the calling thread addresses it": the thread component of the
    real key is added where the action is applied (`applyG`) -/
inductive TblAct where
  | none
  | insert (fk : Nat × Nat) (tok : Nat)     -- `self.tasks[cache_key] = task`
  | erase (fk : Nat × Nat)                  -- `del self.tasks[cache_key]` / `self.tasks.pop(cache_key, None)`
  deriving Repr, DecidableEq, Inhabited

/-- one operation that touches no shared-by-design object, as the code is written: it reads and writes the calling
    thread's carriers `l` and addresses the deduplicate dict through `look` (= `self.tasks.get(cache_key)` with the
    calling thread in `cache_key`).  `perf` = `_debug.options.COLLECT_PERF_STATS` (process-wide by design). -/
def privStep (perf : Bool) (look : Nat × Nat → Option Nat) (l : TL) (op : Op) : TL × TblAct × Obs :=
  match op with
  | .getSched => (l, .none, .sched l.sched.id true)
  | .resetSched =>   -- LocalTaskSchedulerState.reset: TaskScheduler() takes number last_id + 1, empty queues
    ({ l with sched := { l.sched with lastId := l.sched.lastId + 1, id := l.sched.lastId + 1, stack := [],
                                        batches := [], active := none } }, .none, .unit)
  | .snap => (l, .none, .snap l.sched.stack.length l.sched.batches.length l.sched.active)
  | .getActive => (l, .none, .active l.sched.active)
  | .push x => ({ l with sched := { l.sched with stack := l.sched.stack ++ [x] } }, .none, .unit)
  | .pop => ({ l with sched := { l.sched with stack := l.sched.stack.dropLast } }, .none, .unit)
  | .taskStart t =>
    ({ l with sched := { l.sched with saved := l.sched.active :: l.sched.saved, active := some t } }, .none, .active (some t))
  | .taskStop =>
    match l.sched.saved with
    | a :: r => ({ l with sched := { l.sched with active := a, saved := r } }, .none, .unit)
    | [] => ({ l with sched := { l.sched with active := none } }, .none, .unit)
  | .taskDone t =>
    -- `callback(task)`: `if self.tasks.get(cache_key) is task: del self.tasks[cache_key]` - a completed task removes
    -- only its own entry (after dirty() the key may belong to a newer task that is still in flight)
    let act : TblAct := match alookup t l.cbs with
      | some fk => if look fk = some t then .erase fk else .none
      | none => .none
    if perf then ({ l with stats := l.stats ++ [.task ((alookup t l.pids).getD 0)] }, act, .unit) else (l, act, .unit)
  | .newTask =>      -- PureAsyncDecorator._call_pure: in asyncio mode a coroutine is returned, no task is created
    if l.amode then (l, .none, .bypass) else
    let (l', tok, pid) := freshTask perf l
    (l', .none, .task tok pid)
  | .mkItem name res =>   -- DebugBatchItem.__init__: batches.setdefault(name, DebugBatch(name)); BatchItemBase.__init__
    let (idx, items) := (alookup name l.dbg).getD (0, [])
    let (c, pid) := perfId perf l
    ({ l with dbg := ainsert name (idx, items ++ [res]) l.dbg, counter := c }, .none, .item idx items.length pid)
  | .schedBatch name =>
    match alookup name l.dbg with
    | some (idx, _) =>
      if l.sched.batches.contains (name, idx) then (l, .none, .unit)
      else ({ l with sched := { l.sched with batches := l.sched.batches ++ [(name, idx)] } }, .none, .unit)
    | none => (l, .none, .unit)
  | .schedFlush name =>
    match flushName l name with
    | some (l', idx, items) =>
      let l'' := { l' with sched := { l'.sched with batches := l'.sched.batches.erase (name, idx) } }
      ((if perf then { l'' with stats := l''.stats ++ [.batch] } else l''), .none, .flushed idx items)
    | none => (l, .none, .noBatch)
  | .directFlush name =>
    match flushName l name with
    | some (l', idx, items) => (l', .none, .flushed idx items)
    | none => (l, .none, .noBatch)
  | .profAppend u => ({ l with stats := l.stats ++ [.user u] }, .none, .unit)
  | .profIncr => ({ l with counter := l.counter + 1 }, .none, .nat (l.counter + 1))
  | .profFlush => ({ l with stats := [], counter := 0 }, .none, .stats l.stats)
  | .profReset => ({ l with stats := [], counter := 0 }, .none, .unit)
  | .dedupCall f k =>
    if l.amode then (l, .none, .bypass) else
    match look (f, k) with
    | some tok =>
      if l.running.contains tok then
        let (l', tok', pid) := freshTask perf l
        (l', .none, .dedup 0 tok' pid)
      else (l, .none, .dedup 1 tok ((alookup tok l.pids).getD 0))
    | none =>
      let (l', tok, pid) := freshTask perf l
      ({ l' with cbs := ainsert tok (f, k) l'.cbs }, .insert (f, k) tok, .dedup 0 tok pid)
  | .dirty f k => (l, .erase (f, k), .unit)
  | .amEnter => ({ l with amode := true, amodeSaved := l.amode :: l.amodeSaved }, .none, .unit)
  | .amExit =>
    match l.amodeSaved with
    | b :: r => ({ l with amode := b, amodeSaved := r }, .none, .unit)
    | [] => (l, .none, .unit)
  | .amGet => (l, .none, .bool l.amode)
  | .note _ _ => (l, .none, .unit)
  | .svGet | .svSet _ | .svEnter _ | .svExit | .lruCall _ | .nfRepr | .nfEnter | .nfExit =>
    (l, .none, .other)    -- not handled here: `sharedStep`

/-- the value an `F(k)` call of the cached function returns (a function of the argument only) -/
def lruValue (k : Nat) : Nat := 10 * k + 1

/-- one operation on a shared-by-design object: reads and writes `sh`, whoever the calling thread is.
    `none` = not such an operation. -/
def sharedStep (perf : Bool) (sh : Shared) (l : TL) (op : Op) : Option (TL × Shared × Obs) :=
  match op with
  | .svGet => some (l, sh, .nat sh.sv)                                     -- `return self._value`
  | .svSet v => some (l, { sh with sv := v }, .unit)                       -- `self._value = value`
  | .svEnter v =>    -- resume(): `self._old_value = self._target._value; self._target._value = self._value`
    some ({ l with svSaved := sh.sv :: l.svSaved }, { sh with sv := v }, .unit)
  | .svExit =>       -- pause(): `self._target._value = self._old_value`
    match l.svSaved with
    | old :: r => some ({ l with svSaved := r }, { sh with sv := old }, .unit)
    | [] => some (l, sh, .unit)
  | .lruCall k =>
    -- AsyncDecorator.__call__: RuntimeError in asyncio mode; else wrapper task (one profiler id), `cache[key]` or, on a
    -- KeyError, the task of the wrapped function (a second profiler id), `cache[key] = value`; completed tasks dump
    -- their perf stats (the inner one first)
    if l.amode then some (l, sh, .raised 1) else
    let hit := sh.lru.contains k
    if perf then
      let c := l.counter
      if hit then some ({ l with counter := c + 1, stats := l.stats ++ [.task (c + 1)] }, sh, .cache true (lruValue k))
      else some ({ l with counter := c + 2, stats := l.stats ++ [.task (c + 2), .task (c + 1)] },
                 { sh with lru := k :: sh.lru }, .cache false (lruValue k))
    else if hit then some (l, sh, .cache true (lruValue k))
    else some (l, { sh with lru := k :: sh.lru }, .cache false (lruValue k))
  -- FutureBase.__repr__ on `none_future` (futures.py:166-184): `if self._in_repr: return "<recursion>"`, else
  -- `self._in_repr = True`, format, `finally: self._in_repr = False`.  Observation: was the answer "<recursion>".
  | .nfRepr => some (l, sh, .bool sh.nf)          -- without a thread switch inside: the flag is back where it was
  | .nfEnter =>
    if sh.nf then some (l, sh, .bool true)        -- returns before the `try`: this activation will not reset the flag
    else some ({ l with nfHeld := true }, { sh with nf := true }, .bool false)
  | .nfExit =>
    if l.nfHeld then some ({ l with nfHeld := false }, { sh with nf := false }, .unit)
    else some (l, sh, .unit)
  | _ => none

/-- result of one operation: new carriers of the calling thread, action on the deduplicate dict, new shared objects,
    observation -/
structure Out where
  tl : TL
  act : TblAct
  sh : Shared
  obs : Obs
  deriving Repr, DecidableEq, Inhabited

/-- one operation of a thread, given what that thread can reach -/
def coreStep (perf : Bool) (look : Nat × Nat → Option Nat) (sh : Shared) (l : TL) (op : Op) : Out :=
  match sharedStep perf sh l op with
  | some (l', sh', o) => { tl := l', act := .none, sh := sh', obs := o }
  | none => let r := privStep perf look l op; { tl := r.1, act := r.2.1, sh := sh, obs := r.2.2 }

/-! ## The global step: ONE state for all threads -/

/-- the dict `DeduplicateDecorator.tasks` as it exists: key = (argument key, thread component, function) -/
abbrev SharedTbl := List ((Nat × Nat × Nat) × Nat)

structure GState where
  locals : List (Nat × TL)     -- the thread-indexed carriers: slot ↦ contents (absent = not initialised yet)
  tasks : SharedTbl            -- DeduplicateDecorator.tasks (a class attribute: one dict for the process)
  sh : Shared                  -- shared-by-design objects
  deriving Repr, DecidableEq, Inhabited

/-- the process before any thread touched asynq -/
def GState.init : GState := { locals := [], tasks := [], sh := Shared.init }

/-- how a thread addresses the state: the slot of the thread-indexed carriers it gets, the thread component of its
    deduplicate keys -/
structure Keying where
  slot : ThreadId → Nat
  key : ThreadId → Nat

/-- the library as written, all threads created through `threading.Thread`: threading.local / ContextVar give every
    thread its own slot, `threading.current_thread()` - a distinct Thread object per thread, alive as long as a key
    holds it - is part of `cache_key` (tools.py:349-350).  (Thread objects are the even numbers, see `Keying.cpython`.) -/
def Keying.real : Keying := { slot := id, key := fun t => 2 * t }

/-- the library as written when the threads listed in `aliens` (thread ↦ OS thread ident) were not created through
    `threading.Thread`: `threading.current_thread()` answers `_active[get_ident()]`, and for such a thread that is a
    `_DummyThread` created on first use and never removed (CPython <= 3.12) - ONE object per ident (odd numbers),
    whoever the thread on that ident is.  threading.local is per thread in all cases. -/
def Keying.cpython (aliens : List (ThreadId × Nat)) : Keying :=
  { slot := id, key := fun t => match alookup t aliens with | some i => 2 * i + 1 | none => 2 * t }

/-- no two threads that were not created through `threading.Thread` had the same OS thread ident (decidable) -/
def identsDistinct (aliens : List (ThreadId × Nat)) : Bool :=
  aliens.all fun a => aliens.all fun b => a.2 != b.2 || a.1 == b.1
/-- a library whose `cache_key` lacks the thread (for the necessity theorem) -/
def Keying.noThreadInKey : Keying := { slot := id, key := fun _ => 0 }
/-- a library whose thread-local holders are plain module state (for the necessity theorem) -/
def Keying.moduleState : Keying := { slot := fun _ => 0, key := id }

/-- the threads are kept apart by the keying -/
def Keying.Separates (kg : Keying) : Prop :=
  (∀ t u, kg.slot t = kg.slot u → t = u) ∧ (∀ t u, kg.key t = kg.key u → t = u)

/-- contents of carrier slot `s` (`threading.local.__init__` runs on first access: `TL.init`) -/
def getL (g : GState) (s : Nat) : TL := (alookup s g.locals).getD TL.init

/-- apply a table action to the one dict, with thread component `tk` in the key -/
def applyG (tk : Nat) : TblAct → SharedTbl → SharedTbl
  | .none, tbl => tbl
  | .insert fk v, tbl => ainsert (fk.2, tk, fk.1) v tbl
  | .erase fk, tbl => aerase (fk.2, tk, fk.1) tbl

/-- **the global step**: thread `t` performs `op` on the one state `g` -/
def gStep (kg : Keying) (perf : Bool) (t : ThreadId) (op : Op) (g : GState) : GState × Obs :=
  let r := coreStep perf (fun fk => alookup (fk.2, kg.key t, fk.1) g.tasks) g.sh (getL g (kg.slot t)) op
  ({ locals := ainsert (kg.slot t) r.tl g.locals, tasks := applyG (kg.key t) r.act g.tasks, sh := r.sh }, r.obs)

abbrev Rec := Op × Obs

/-- all threads under a schedule, from process state `g₀`: final state and global record list -/
def gRunFrom (kg : Keying) (perf : Bool) (g₀ : GState) (sch : List (ThreadId × Op)) : GState × List (ThreadId × Rec) :=
  runGlobal (gStep kg perf) g₀ sch

/-- ... from the initial process state -/
def gRun (kg : Keying) (perf : Bool) (sch : List (ThreadId × Op)) : GState × List (ThreadId × Rec) :=
  gRunFrom kg perf GState.init sch

/-- the process in which the threads listed in `modes` (thread ↦ asyncio-mode flag of its creator at the time of the
    copy) were started with a copied context; every other thread starts with a fresh one.  (For keyings with
    `slot = id`.) -/
def GState.start (modes : List (ThreadId × Bool)) : GState :=
  { locals := modes.map fun p => (p.1, TL.initM p.2), tasks := [], sh := Shared.init }

/-- the records of all threads under a schedule: the library as written, threads `aliens` not created through
    `threading.Thread`, threads `modes` started with a copied context -/
def interW (aliens : List (ThreadId × Nat)) (modes : List (ThreadId × Bool)) (perf : Bool)
    (sch : List (ThreadId × Op)) : List (ThreadId × Rec) :=
  (gRunFrom (Keying.cpython aliens) perf (GState.start modes) sch).2

/-- the records of thread `t` performing `ops` while no other thread does anything (same kind of thread, same start) -/
def aloneW (aliens : List (ThreadId × Nat)) (modes : List (ThreadId × Bool)) (perf : Bool) (t : ThreadId)
    (ops : List Op) : List Rec :=
  proj t (interW aliens modes perf (ops.map fun op => (t, op)))

/-- the records of all threads under a schedule (the library as written, `threading.Thread` threads, fresh contexts) -/
def inter (perf : Bool) (sch : List (ThreadId × Op)) : List (ThreadId × Rec) := (gRun Keying.real perf sch).2

/-- the records of thread `t` performing `ops` while no other thread does anything -/
def aloneOn (perf : Bool) (t : ThreadId) (ops : List Op) : List Rec :=
  proj t (inter perf (ops.map fun op => (t, op)))

/-! ## The view of one thread (the abstraction) and the reference semantics of a thread on its own -/

/-- what one thread can reach of the state if threads are kept apart: its carriers and a deduplicate table of its own -/
structure Local where
  tl : TL
  dedup : List ((Nat × Nat) × Nat)      -- (fn, key) ↦ task
  deriving Repr, DecidableEq, Inhabited

def Local.init : Local := { tl := TL.init, dedup := [] }

def applyL : TblAct → List ((Nat × Nat) × Nat) → List ((Nat × Nat) × Nat)
  | .none, tbl => tbl
  | .insert fk v, tbl => ainsert fk v tbl
  | .erase fk, tbl => aerase fk tbl

/-- reference: one operation of a thread that has everything for itself (meaningful for operations that touch no
    shared-by-design object; those are given a pristine `Shared.init`) -/
def localStep (perf : Bool) (l : Local) (op : Op) : Local × Obs :=
  let r := coreStep perf (fun fk => alookup fk l.dedup) Shared.init l.tl op
  ({ tl := r.tl, dedup := applyL r.act l.dedup }, r.obs)

/-- thread running its operations alone (reference semantics) -/
def alone (perf : Bool) (ops : List Op) : List Rec := (runAlone (localStep perf) Local.init ops).2

/-- the part of the one dict that thread component `tk` addresses -/
def slice (tk : Nat) : SharedTbl → List ((Nat × Nat) × Nat)
  | [] => []
  | ((k, u, f), v) :: r => if u = tk then ((f, k), v) :: slice tk r else slice tk r

/-- the view of thread `t` -/
def abs (kg : Keying) (t : ThreadId) (g : GState) : Local :=
  { tl := getL g (kg.slot t), dedup := slice (kg.key t) g.tasks }

/-! ## Adaptive computations: what a thread does next may depend on everything it has observed so far -/

/-- a computation: the next operation as a function of the thread's own records so far (oldest first); `none` = it
    does nothing when given a turn.  Results, context events, which batch its scheduler flushes next: all of it is
    whatever this function says, so nothing about them is assumed equal between two runs. -/
abbrev Strategy := List Rec → Option Op

/-- the computation alone, for `n` turns, from local state `l` with past records `hist` -/
def stratAlone (step : Local → Op → Local × Obs) (s : Strategy) : Nat → Local → List Rec → Local × List Rec
  | 0, l, hist => (l, hist)
  | n + 1, l, hist =>
    match s hist with
    | none => stratAlone step s n l hist
    | some op => let r := step l op; stratAlone step s n r.1 (hist ++ [(op, r.2)])

/-- all computations on the one state; `turns` = which thread moves at each instant; `recs` = global records so far -/
def stratGlobal (gstep : ThreadId → Op → GState → GState × Obs) (ss : ThreadId → Strategy) :
    List ThreadId → GState → List (ThreadId × Rec) → GState × List (ThreadId × Rec)
  | [], g, recs => (g, recs)
  | t :: turns, g, recs =>
    match ss t (proj t recs) with
    | none => stratGlobal gstep ss turns g recs
    | some op => let r := gstep t op g; stratGlobal gstep ss turns r.1 (recs ++ [(t, (op, r.2))])

/-! ## The property C16 as a Boolean predicate over recorded runs (no model state involved):
    `k ≥ 1` threads, one recorded run alone per thread, every record of the concurrent run belongs to one of the `k`
    threads, no record mentions an object of another thread, and for every thread what it did and saw in the
    concurrent run is exactly what it did and saw alone.  The comparison is made in two stages so that the clause names
    what interfered: first the records that cannot legitimately depend on an object the PROGRAM shares between threads
    (`strictPart`), then everything. -/

def isLru : Op → Bool
  | .lruCall _ => true
  | _ => false

/-- under COLLECT_PERF_STATS a call of a cached function takes one or two profiler ids depending on hit / miss, so
    from a thread's first such call on its profiler ids depend on the shared cache: only the records before it are
    independent of shared objects.  Without profiling all records are kept. -/
def cut (perf : Bool) (l : List Rec) : List Rec :=
  if perf then l.takeWhile fun r => !isLru r.1 else l

/-- the records of operations that are not on a shared-by-design object -/
def priv (l : List Rec) : List Rec := l.filter fun r => !r.1.isShared

/-- the records of a thread that no shared-by-design object can influence (theorem `C16_noninterference_strict`):
    ALL its operations on scheduler / tasks / debug batches / profiler / deduplicate / asyncio mode / trace, also those
    it performs after or between uses of a shared object -/
def strictPart (perf : Bool) (l : List Rec) : List Rec := priv (cut perf l)

/-- the records of a thread before it first touches a shared-by-design object (what the observer compared until the
    second audit; a prefix of `strictPart`) -/
def ownPrefix (l : List Rec) : List Rec := l.takeWhile fun r => !r.1.isShared

/-- first difference between two record lists: position and the operation there -/
def firstDiff : List Rec → List Rec → Nat → Option (Nat × String)
  | [], [], _ => none
  | x :: xs, y :: ys, i => if x = y then firstDiff xs ys (i + 1) else some (i, y.1.component)
  | _ :: _, [], i => some (i, "missing")
  | [], y :: _, i => some (i, y.1.component)

/-- the first thread (below `k`) whose concurrent run differs from its run alone in a record that no shared-by-design
    object can influence, or in the operations it performed -/
def specFind (perf : Bool) (aloneRecs : List (List Rec)) (conc : List (ThreadId × Rec)) :
    Nat → Option (ThreadId × Nat × String)
  | 0 => none
  | k + 1 =>
    match specFind perf aloneRecs conc k with
    | some r => some r
    | none =>
      match firstDiff (strictPart perf (aloneRecs.getD k [])) (strictPart perf (proj k conc)) 0 with
      | some (i, c) => some (k, i, c)
      | none =>
        if (aloneRecs.getD k []).map (·.1) = (proj k conc).map (·.1) then none else some (k, 0, "operations")

/-- the first thread (below `k`) whose concurrent run differs from its run alone at all -/
def fullFind (aloneRecs : List (List Rec)) (conc : List (ThreadId × Rec)) : Nat → Option ThreadId
  | 0 => none
  | k + 1 =>
    match fullFind aloneRecs conc k with
    | some r => some r
    | none => if aloneRecs.getD k [] = proj k conc then none else some k

/-- the first record whose observation mentions another thread's object: the component of its operation -/
def foreignIn (l : List Rec) : Option String :=
  (l.find? fun r => r.2 == Obs.foreign).map fun r => r.1.component

/-- everything except the last stage: why the recorded runs violate C16 for a reason that is NOT an object the program
    shares between its threads (`none` = they do not) -/
def specCheckOwn (perf : Bool) (k : Nat) (aloneRecs : List (List Rec)) (conc : List (ThreadId × Rec)) : Option String :=
  if k = 0 then some "no-threads"
  else if aloneRecs.length ≠ k then some "alone-runs-missing"
  else if conc.any (fun p => decide (k ≤ p.1)) then some "record-of-unknown-thread"
  else match foreignIn (conc.map (·.2)) with
  | some c => some ("observes-foreign:" ++ c)
  | none =>
    match aloneRecs.findSome? foreignIn with
    | some c => some ("observes-foreign-alone:" ++ c)
    | none =>
      match specFind perf aloneRecs conc k with
      | some (_, _, c) => some ("interference:" ++ c)
      | none => none

/-! ### after the cut (third audit D10): under COLLECT_PERF_STATS the records of a thread after its first cached call are
    not in `strictPart`, because the profiler ids handed out from there on depend on the shared cache (one id on a hit,
    two on a miss).  They are compared MODULO exactly that: profiler ids, the value of the profiler counter and the
    per-task entries of the profiler buffer are erased; everything else (which task is active, which task a
    deduplicated call hands out, batch compositions, scheduler numbers, asyncio mode ...) must equal the run alone.
    A difference found here has a clause name of its own, so the recorded finding `interference:shared-object` never
    explains a deduplicate hand-over or a wrong active task that happens after a cached call. -/

def Stat.isTask : Stat → Bool
  | .task _ => true
  | _ => false

/-- an observation with everything erased that a profiler id can legitimately influence -/
def maskObs (op : Op) : Obs → Obs
  | .task tok _ => .task tok 0
  | .item idx pos _ => .item idx pos 0
  | .dedup kind tok _ => .dedup kind tok 0
  | .stats l => .stats (l.filter fun s => !s.isTask)
  | .nat n => match op with | .profIncr => .nat 0 | _ => .nat n
  | o => o

/-- the records of a thread that are not themselves operations on a shared object, ALL of them (no cut), modulo
    profiler ids -/
def maskedPart (l : List Rec) : List Rec := (priv l).map fun r => (r.1, maskObs r.1 r.2)

/-- the first thread (below `k`) whose private records differ from its run alone in more than profiler ids -/
def maskedFind (aloneRecs : List (List Rec)) (conc : List (ThreadId × Rec)) : Nat → Option (ThreadId × Nat × String)
  | 0 => none
  | k + 1 =>
    match maskedFind aloneRecs conc k with
    | some r => some r
    | none =>
      match firstDiff (maskedPart (aloneRecs.getD k [])) (maskedPart (proj k conc)) 0 with
      | some (i, c) => some (k, i, c)
      | none => none

/-! ### the library's own `none_future` (third audit A4) -/

def isNf : Op → Bool
  | .nfRepr | .nfEnter | .nfExit => true
  | _ => false

/-- the records of `repr(none_future)` of a thread -/
def nfPart (l : List Rec) : List Rec := l.filter fun r => isNf r.1

/-- the first thread (below `k`) to which `repr(none_future)` answered differently than alone -/
def nfFind (aloneRecs : List (List Rec)) (conc : List (ThreadId × Rec)) : Nat → Option ThreadId
  | 0 => none
  | k + 1 =>
    match nfFind aloneRecs conc k with
    | some r => some r
    | none => if nfPart (aloneRecs.getD k []) = nfPart (proj k conc) then none else some k

/-- why the recorded runs violate C16 (`none` = they do not).  After `specCheckOwn`:
    `interference-after-cached-call:<component>` - under COLLECT_PERF_STATS a private record after the thread's first
    cached call differs from the run alone in more than a profiler id (nothing shared explains that);
    `interference:none-future-repr` - `repr(asynq.none_future)` answered "<recursion>" to a thread because ANOTHER thread
    was inside `FutureBase.__repr__` of that process-wide object of the LIBRARY (the program shares nothing of its own);
    `interference:shared-object` - the property AS STATED applied to programs that share an AsyncScopedValue / a cached
    function between threads: some thread's records differ from its run alone although nothing above does. -/
def specCheck (perf : Bool) (k : Nat) (aloneRecs : List (List Rec)) (conc : List (ThreadId × Rec)) : Option String :=
  match specCheckOwn perf k aloneRecs conc with
  | some c => some c
  | none =>
    match (if perf then maskedFind aloneRecs conc k else none) with
    | some (_, _, c) => some ("interference-after-cached-call:" ++ c)
    | none =>
      match nfFind aloneRecs conc k with
      | some _ => some "interference:none-future-repr"
      | none =>
        match fullFind aloneRecs conc k with
        | some _ => some "interference:shared-object"
        | none => none

/-- `Spec.C16` for `k` threads; `perf` = COLLECT_PERF_STATS of the recorded runs -/
def spec (perf : Bool) (k : Nat) (aloneRecs : List (List Rec)) (conc : List (ThreadId × Rec)) : Bool :=
  (specCheck perf k aloneRecs conc).isNone

/-- the part of `spec` that does not concern objects shared by the program -/
def specOwn (perf : Bool) (k : Nat) (aloneRecs : List (List Rec)) (conc : List (ThreadId × Rec)) : Bool :=
  (specCheckOwn perf k aloneRecs conc).isNone

def specClause (perf : Bool) (k : Nat) (aloneRecs : List (List Rec)) (conc : List (ThreadId × Rec)) : String :=
  (specCheck perf k aloneRecs conc).getD "ok"

/-! ## The locality inventory: which objects of asynq/*.py carry the thread-indexed components, and which
    process-wide / shared-by-design objects are known and why.  Compared on every run with an `ast` inventory of the
    current tree (kinds: see `inventory()` in harness/checks/c16.py). -/

/-- (module, qualified name, kind) of the carrier of every thread-indexed component -/
def components : List (String × String × String) :=
  [ ("scheduler", "_state", "tlocal"),                       -- TL.sched
    ("batching", "_debug_batch_state", "tlocal"),            -- TL.dbg
    ("profiler", "_state", "tlocal"),                        -- TL.stats, TL.counter
    ("asynq_to_async", "_asyncio_mode", "contextvar"),       -- TL.amode
    ("tools", "DeduplicateDecorator.tasks", "dict") ]        -- GState.tasks: process-wide dict whose keys carry the thread

/-- process-wide by design, shared by design or immutable: (module, name, kind, reason) -/
def knownShared : List (String × String × String × String) :=
  [ ("_debug", "options", "call:DebugOptions", "process-wide debug configuration by design"),
    ("debug", "options.*", "attrwrite", "writes to _debug.options (process-wide debug configuration by design)"),
    ("debug", "sys.*", "attrwrite", "sys.excepthook installation (process-wide by nature)"),
    ("async_task", "_empty_tuple", "call:tuple", "immutable"),
    ("async_task", "_empty_dictionary", "call:dict", "shared empty kwargs default, never written"),
    ("futures", "_none", "call:core_helpers.MarkerObject", "immutable marker"),
    ("futures", "none_future", "call:ConstFuture",
      "NOT immutable: a computed constant future that keeps no subscribers, but FutureBase.__repr__ writes its `_in_repr` flag (Shared.nf): OPEN FINDING interference:none-future-repr"),
    ("generator", "END_OF_GENERATOR", "call:qcore.MarkerObject", "immutable marker"),
    ("decorators", "logger", "call:logging.getLogger", "logging"),
    ("debug", "_use_original_exc_handler", "global", "process-wide diagnostics configuration"),
    ("debug", "_should_filter_traceback", "global", "process-wide diagnostics configuration"),
    ("debug", "_use_syntax_highlighting", "global", "process-wide diagnostics configuration"),
    ("debug", "is_attached", "global", "process-wide exception hook installation"),
    ("debug", "original_hook", "global", "process-wide exception hook installation"),
    -- objects shared BY DESIGN by whoever holds a reference (`Shared`, `Op.isShared`; reported by `spec` as
    -- `interference:shared-object` when a run shows their effect)
    ("scoped_value", "_AsyncScopedValueOverrideContext._target._value", "held",
      "AsyncScopedValue._value: the value lives in the object; threads sharing the object share the value (Shared.sv)"),
    ("scoped_value", "_AsyncPropertyOverrideContext._target.*", "held",
      "async_override sets an attribute of a caller-supplied object"),
    ("tools", "alru_cache:cache", "closure:call:LRUCache", "one cache per decorated function, for all its callers (Shared.lru)"),
    ("tools", "acached_per_instance:cache", "closure:dict", "one cache per decorated method, keyed by instance"),
    ("tools", "alazy_constant:wrapper.alazy_constant_cached_value", "fnattr", "one cached constant per decorated function"),
    ("tools", "alazy_constant:wrapper.alazy_constant_refresh_time", "fnattr", "one cached constant per decorated function") ]

/-- problems of an inventory `(module, name, kind)` and of the list of carriers that the run-time probes write in one
    thread and observe in another: `(true, c)` = a component whose carrier is missing, of another kind, or not probed;
    `(false, e)` = state that is neither a component nor known.  Kind "const" = a container that no code of its module
    ever mutates (a constant table): listed, never a problem. -/
def inventoryProblems (inv : List (String × String × String)) (probed : List (String × String)) :
    List (Bool × String × String × String) :=
  let missing := components.filterMap fun c => if inv.contains c then none else some (true, c)
  let unprobed := components.filterMap fun c =>
    if probed.contains (c.1, c.2.1) then none else some (true, c.1, c.2.1, "probed")
  let unknown := inv.filterMap fun e =>
    if components.contains e then none
    else if knownShared.any (fun k => k.1 == e.1 && k.2.1 == e.2.1 && k.2.2.1 == e.2.2) then none
    else if e.2.2 == "const" then none
    else some (false, e)
  missing ++ unprobed ++ unknown

end AsynqModel.Threads
