/-
  Model of the per-thread state of asynq (property C16):

    asynq/scheduler.py      LocalTaskSchedulerState(threading.local)  `_state.current`, `_state.last_id`,
                            get_scheduler / reset / get_active_task, TaskScheduler._tasks/_batches/active_task
    asynq/batching.py       LocalDebugBatchState(threading.local)     `_debug_batch_state.batches`
                            DebugBatchItem.__init__, DebugBatch._try_switch_active_batch/_flush, sync()
    asynq/profiler.py       LocalProfileState(threading.local)        `_state.stats`, `_state.counter`
    asynq/tools.py          DeduplicateDecorator.tasks, cache_key = (keygetter(..), current_thread(), id(fn))
    asynq/asynq_to_async.py `_asyncio_mode` ContextVar, AsyncioMode.__enter__/__exit__, is_asyncio_mode

  The global state is `ThreadId → Local`; an operation `op` performed by thread `t` is
  `update g t (localStep (g t) op)` (`stepOf`).  THAT EVERY OPERATION HAS THIS SHAPE IS THE MODELLING CLAIM
  (each Python function above reads and writes only the current thread's slot); it is what the Python side of the
  check ties to the code (lock-step histories, write-in-A/observe-in-B probes, concurrent program runs, AST inventory).
  Everything is first proved for an arbitrary step function (`Sys`), then instantiated with `localStep`.

  Tokens (Nat): tasks are numbered per thread in creation order, batch names / dedup functions / keys are numbers.
-/
namespace AsynqModel.Threads

abbrev ThreadId := Nat

/-! ## Generic part: any per-thread step function -/

/-- replace the slot of thread `t` -/
def update {σ : Type} (g : ThreadId → σ) (t : ThreadId) (v : σ) : ThreadId → σ :=
  fun u => if u = t then v else g u

/-- one operation of thread `t` on the global state: only slot `t` is read, only slot `t` is written -/
def stepOf {σ ω ο : Type} (step : σ → ω → σ × ο) (t : ThreadId) (op : ω) (g : ThreadId → σ) :
    (ThreadId → σ) × ο :=
  let r := step (g t) op
  (update g t r.1, r.2)

/-- a thread running its operations alone: final local state and the record (operation, observation) of each step -/
def runAlone {σ ω ο : Type} (step : σ → ω → σ × ο) (s : σ) : List ω → σ × List (ω × ο)
  | [] => (s, [])
  | op :: ops =>
    let r := step s op
    let rest := runAlone step r.1 ops
    (rest.1, (op, r.2) :: rest.2)

/-- all threads running under a schedule (= an interleaving: the list of (thread, operation) in global order) -/
def runInterleaved {σ ω ο : Type} (step : σ → ω → σ × ο) (g : ThreadId → σ) :
    List (ThreadId × ω) → (ThreadId → σ) × List (ThreadId × ω × ο)
  | [] => (g, [])
  | (t, op) :: sch =>
    let r := stepOf step t op g
    let rest := runInterleaved step r.1 sch
    (rest.1, (t, op, r.2) :: rest.2)

/-- the operations of thread `t` in a schedule, in order -/
def opsOf {ω : Type} (t : ThreadId) (sch : List (ThreadId × ω)) : List ω :=
  sch.filterMap fun p => if p.1 = t then some p.2 else none

/-- the records of thread `t` in a global record list (per-thread projection) -/
def proj {ρ : Type} (t : ThreadId) (recs : List (ThreadId × ρ)) : List ρ :=
  recs.filterMap fun p => if p.1 = t then some p.2 else none

/-- `sch` is an interleaving of the per-thread programs `progs` -/
def IsInterleaving {ω : Type} (sch : List (ThreadId × ω)) (progs : ThreadId → List ω) : Prop :=
  ∀ t, opsOf t sch = progs t

/-! ## The concrete local state machine -/

/-- an entry of the profiler buffer `profiler._state.stats` -/
inductive Stat where
  | task (pid : Nat)     -- AsyncTask.dump_perf_stats: perf_stats of the task whose profiler id is `pid`
  | batch                -- BatchBase.dump_perf_stats (appended by TaskScheduler._flush_batch)
  | user (u : Nat)       -- profiler.append(..) called directly
  | other                -- anything else (never produced by the model; lets the driver parse any observation)
  deriving Repr, DecidableEq, Inhabited

/-- scheduler.py: `_state.last_id`, `_state.current` (a TaskScheduler) -/
structure Sched where
  lastId : Nat                  -- LocalTaskSchedulerState.last_id
  id : Nat                      -- the number in `TaskScheduler.name` ("<thread name> / <id>")
  stack : List Nat              -- TaskScheduler._tasks (bottom first)
  batches : List (Nat × Nat)    -- TaskScheduler._batches: scheduled (batch name, batch index)
  active : Option Nat           -- TaskScheduler.active_task
  saved : List (Option Nat)     -- the `old_task` locals of the `_continue_with_task` activations on this thread's
                                --   Python call stack (innermost first)
  deriving Repr, DecidableEq, Inhabited

structure Local where
  sched : Sched
  dbg : List (Nat × (Nat × List Nat))   -- _debug_batch_state.batches: name ↦ active DebugBatch (index, results of its items)
  stats : List Stat                     -- profiler._state.stats
  counter : Nat                         -- profiler._state.counter
  dedup : List ((Nat × Nat) × Nat)      -- the entries of DeduplicateDecorator.tasks whose key names THIS thread: (fn, key) ↦ task
  nextTok : Nat                         -- number of tasks created by this thread (token of the next one)
  pids : List (Nat × Nat)               -- task token ↦ AsyncTask._id (profiler id; 0 when not profiling)
  cbs : List (Nat × (Nat × Nat))        -- task token ↦ (fn, key): the `callback` closures subscribed by DeduplicateDecorator.asynq on a miss
  amode : Bool                          -- `_asyncio_mode.get()` in this thread's context
  amodeSaved : List Bool                -- `Token.old_value` of the AsyncioMode objects entered and not yet left (innermost first)
  deriving Repr, DecidableEq, Inhabited

/-- a thread that has not touched asynq yet: `LocalTaskSchedulerState.__init__` (last_id = 0, then reset() creates
    TaskScheduler number 1), empty debug-batch table, empty profiler, ContextVar default False -/
def Local.init : Local :=
  { sched := { lastId := 1, id := 1, stack := [], batches := [], active := none, saved := [] },
    dbg := [], stats := [], counter := 0, dedup := [], nextTok := 0, pids := [], cbs := [], amode := false, amodeSaved := [] }

inductive Op where
  -- scheduler.py
  | getSched                      -- get_scheduler()                       (observe its number / owner)
  | resetSched                    -- scheduler.reset()                     (`_state.current = TaskScheduler()`)
  | snap                          -- read len(_tasks), len(_batches), active_task of get_scheduler()
  | getActive                     -- get_active_task()
  | push (x : Nat)                -- TaskScheduler._execute: `self._tasks.append(root_task)`
  | pop                           -- TaskScheduler._execute: `self._tasks.pop()`
  | taskStart (t : Nat)           -- _continue_with_task: `old_task = self.active_task; self.active_task = task`
  | taskStop                      -- _continue_with_task: `self.active_task = old_task`
  | taskDone (t : Nat)            -- task `t` is computed: its on_computed callbacks run (the dedup `callback` removes its own entry), then
                                  --   _continue_with_task: `if task.is_computed(): task.dump_perf_stats()` (COLLECT_PERF_STATS)
  | newTask                       -- fn.asynq(..): AsyncTask.__init__ (profiler.incr_counter under COLLECT_PERF_STATS)
  -- batching.py
  | mkItem (name res : Nat)       -- DebugBatchItem(name, res) / sync(tag)
  | schedBatch (name : Nat)       -- TaskScheduler._schedule_batch(item.batch) for the active batch `name`
  | schedFlush (name : Nat)       -- _continue_with_batch: `_batches.remove(batch)`, _flush_batch(batch)
  | directFlush (name : Nat)      -- batch.flush() outside the scheduler (BatchItemBase._compute via item.value())
  -- profiler.py
  | profAppend (u : Nat) | profIncr | profFlush | profReset
  -- tools.py  DeduplicateDecorator
  | dedupCall (f k : Nat)         -- DeduplicateDecorator.asynq
  | dirty (f k : Nat)             -- DeduplicateDecorator.dirty
  -- asynq_to_async.py
  | amEnter | amExit | amGet      -- AsyncioMode.__enter__ / __exit__ / is_asyncio_mode()
  -- things a program reports that involve no per-thread library state (results, context events)
  | note (a b : Nat)
  deriving Repr, DecidableEq, Inhabited

def Op.name : Op → String
  | .getSched => "getSched" | .resetSched => "resetSched" | .snap => "snap" | .getActive => "getActive"
  | .push _ => "push" | .pop => "pop" | .taskStart _ => "taskStart" | .taskStop => "taskStop"
  | .taskDone _ => "taskDone" | .newTask => "newTask" | .mkItem _ _ => "mkItem" | .schedBatch _ => "schedBatch"
  | .schedFlush _ => "schedFlush" | .directFlush _ => "directFlush" | .profAppend _ => "profAppend"
  | .profIncr => "profIncr" | .profFlush => "profFlush" | .profReset => "profReset"
  | .dedupCall _ _ => "dedupCall" | .dirty _ _ => "dirty"
  | .amEnter => "amEnter" | .amExit => "amExit" | .amGet => "amGet" | .note _ _ => "note"

/-- which per-thread component an operation belongs to (used for the clause name of a failing spec) -/
def Op.component : Op → String
  | .getSched | .resetSched | .snap | .getActive | .push _ | .pop | .taskStart _ | .taskStop => "scheduler"
  | .profAppend _ | .profIncr | .profFlush | .profReset => "profiler"
  | .newTask | .taskDone _ => "task"
  | .mkItem _ _ | .schedBatch _ | .schedFlush _ | .directFlush _ => "debug-batch"
  | .dedupCall _ _ | .dirty _ _ => "deduplicate"
  | .amEnter | .amExit | .amGet => "asyncio-mode"
  | .note _ _ => "trace"

inductive Obs where
  | unit
  | nat (n : Nat)
  | sched (id : Nat) (own : Bool)          -- number in the scheduler's name; is the name that of the calling thread
  | snap (stack batches : Nat) (active : Option Nat)
  | active (a : Option Nat)
  | task (tok pid : Nat)                   -- a new AsyncTask: its token, its profiler id
  | bypass                                 -- asyncio mode: `.asynq()` returned a coroutine instead of a task
  | item (idx pos pid : Nat)               -- batch index, position in the batch, profiler id
  | flushed (idx : Nat) (items : List Nat) -- index of the flushed batch, results of its items (= its composition)
  | noBatch
  | stats (l : List Stat)
  | dedup (kind tok pid : Nat)             -- kind 0 = a new task (miss, or the stored task is running), 1 = the stored task
  | bool (b : Bool)
  | raised (cls : Nat)                     -- implementation only: the operation raised (never produced by the model)
  | other
  deriving Repr, DecidableEq, Inhabited

/-! association lists (the Python dicts) -/
def alookup {α β : Type} [DecidableEq α] (k : α) : List (α × β) → Option β
  | [] => none
  | (k', v) :: r => if k' = k then some v else alookup k r

def aerase {α β : Type} [DecidableEq α] (k : α) : List (α × β) → List (α × β)
  | [] => []
  | (k', v) :: r => if k' = k then aerase k r else (k', v) :: aerase k r

def ainsert {α β : Type} [DecidableEq α] (k : α) (v : β) (l : List (α × β)) : List (α × β) :=
  (k, v) :: aerase k l

/-- tasks whose generator is executing on this thread (`AsyncTask.running`): the active task and the saved ones -/
def Local.running (l : Local) : List Nat :=
  (l.sched.active :: l.sched.saved).filterMap id

/-- `profiler.incr_counter()` when COLLECT_PERF_STATS, else id 0: new counter and the id handed out -/
def perfId (perf : Bool) (l : Local) : Nat × Nat :=
  if perf then (l.counter + 1, l.counter + 1) else (l.counter, 0)

/-- AsyncTask.__init__ on this thread: a new token, a profiler id -/
def freshTask (perf : Bool) (l : Local) : Local × Nat × Nat :=
  let (c, pid) := perfId perf l
  ({ l with counter := c, nextTok := l.nextTok + 1, pids := ainsert l.nextTok pid l.pids }, l.nextTok, pid)

/-- DebugBatch._compute of the active batch `name`: `_try_switch_active_batch` installs DebugBatch(name, index+1),
    `_flush` answers every item -/
def flushName (l : Local) (name : Nat) : Option (Local × Nat × List Nat) :=
  match alookup name l.dbg with
  | some (idx, items) => some ({ l with dbg := ainsert name (idx + 1, []) l.dbg }, idx, items)
  | none => none

/-- one operation of a thread on ITS OWN state.  `perf` = `_debug.options.COLLECT_PERF_STATS` (process-wide by design). -/
def localStep (perf : Bool) (l : Local) (op : Op) : Local × Obs :=
  match op with
  | .getSched => (l, .sched l.sched.id true)
  | .resetSched =>   -- LocalTaskSchedulerState.reset: TaskScheduler() takes number last_id + 1, empty queues
    ({ l with sched := { l.sched with lastId := l.sched.lastId + 1, id := l.sched.lastId + 1, stack := [],
                                        batches := [], active := none } }, .unit)
  | .snap => (l, .snap l.sched.stack.length l.sched.batches.length l.sched.active)
  | .getActive => (l, .active l.sched.active)
  | .push x => ({ l with sched := { l.sched with stack := l.sched.stack ++ [x] } }, .unit)
  | .pop => ({ l with sched := { l.sched with stack := l.sched.stack.dropLast } }, .unit)
  | .taskStart t =>
    ({ l with sched := { l.sched with saved := l.sched.active :: l.sched.saved, active := some t } }, .active (some t))
  | .taskStop =>
    match l.sched.saved with
    | a :: r => ({ l with sched := { l.sched with active := a, saved := r } }, .unit)
    | [] => ({ l with sched := { l.sched with active := none } }, .unit)
  | .taskDone t =>
    -- `callback(task)`: `if self.tasks.get(cache_key) is task: del self.tasks[cache_key]` - a completed task removes
    -- only its own entry (after dirty() the key may belong to a newer task that is still in flight)
    let l := match alookup t l.cbs with
      | some fk => if alookup fk l.dedup = some t then { l with dedup := aerase fk l.dedup } else l
      | none => l
    if perf then ({ l with stats := l.stats ++ [.task ((alookup t l.pids).getD 0)] }, .unit) else (l, .unit)
  | .newTask =>      -- PureAsyncDecorator._call_pure: in asyncio mode a coroutine is returned, no task is created
    if l.amode then (l, .bypass) else
    let (l', tok, pid) := freshTask perf l
    (l', .task tok pid)
  | .mkItem name res =>   -- DebugBatchItem.__init__: batches.setdefault(name, DebugBatch(name)); BatchItemBase.__init__
    let (idx, items) := (alookup name l.dbg).getD (0, [])
    let (c, pid) := perfId perf l
    ({ l with dbg := ainsert name (idx, items ++ [res]) l.dbg, counter := c }, .item idx items.length pid)
  | .schedBatch name =>
    match alookup name l.dbg with
    | some (idx, _) =>
      if l.sched.batches.contains (name, idx) then (l, .unit)
      else ({ l with sched := { l.sched with batches := l.sched.batches ++ [(name, idx)] } }, .unit)
    | none => (l, .unit)
  | .schedFlush name =>
    match flushName l name with
    | some (l', idx, items) =>
      let l'' := { l' with sched := { l'.sched with batches := l'.sched.batches.erase (name, idx) } }
      ((if perf then { l'' with stats := l''.stats ++ [.batch] } else l''), .flushed idx items)
    | none => (l, .noBatch)
  | .directFlush name =>
    match flushName l name with
    | some (l', idx, items) => (l', .flushed idx items)
    | none => (l, .noBatch)
  | .profAppend u => ({ l with stats := l.stats ++ [.user u] }, .unit)
  | .profIncr => ({ l with counter := l.counter + 1 }, .nat (l.counter + 1))
  | .profFlush => ({ l with stats := [], counter := 0 }, .stats l.stats)
  | .profReset => ({ l with stats := [], counter := 0 }, .unit)
  | .dedupCall f k =>
    if l.amode then (l, .bypass) else
    match alookup (f, k) l.dedup with
    | some tok =>
      if l.running.contains tok then
        let (l', tok', pid) := freshTask perf l
        (l', .dedup 0 tok' pid)
      else (l, .dedup 1 tok ((alookup tok l.pids).getD 0))
    | none =>
      let (l', tok, pid) := freshTask perf l
      ({ l' with dedup := ainsert (f, k) tok l'.dedup, cbs := ainsert tok (f, k) l'.cbs }, .dedup 0 tok pid)
  | .dirty f k => ({ l with dedup := aerase (f, k) l.dedup }, .unit)
  | .amEnter => ({ l with amode := true, amodeSaved := l.amode :: l.amodeSaved }, .unit)
  | .amExit =>
    match l.amodeSaved with
    | b :: r => ({ l with amode := b, amodeSaved := r }, .unit)
    | [] => (l, .unit)
  | .amGet => (l, .bool l.amode)
  | .note _ _ => (l, .unit)

abbrev Global := ThreadId → Local

/-- every thread starts from `Local.init` -/
def Global.init : Global := fun _ => Local.init

abbrev Rec := Op × Obs

/-- thread running its operations alone -/
def alone (perf : Bool) (ops : List Op) : List Rec := (runAlone (localStep perf) Local.init ops).2

/-- all threads under a schedule -/
def inter (perf : Bool) (sch : List (ThreadId × Op)) : List (ThreadId × Rec) :=
  (runInterleaved (localStep perf) Global.init sch).2

/-! ## The property C16 as a Boolean predicate over recorded runs (no model state involved):
    for every thread, what it did and saw in the concurrent run is exactly what it did and saw alone. -/

/-- first difference between two record lists: position and the operation there -/
def firstDiff : List Rec → List Rec → Nat → Option (Nat × String)
  | [], [], _ => none
  | x :: xs, y :: ys, i => if x = y then firstDiff xs ys (i + 1) else some (i, y.1.component)
  | _ :: _, [], i => some (i, "missing")
  | [], y :: _, i => some (i, y.1.component)

/-- the first thread (below `k`) whose projection of the concurrent run differs from its run alone -/
def specFind (aloneRecs : List (List Rec)) (conc : List (ThreadId × Rec)) : Nat → Option (ThreadId × Nat × String)
  | 0 => none
  | k + 1 =>
    match specFind aloneRecs conc k with
    | some r => some r
    | none =>
      match firstDiff (aloneRecs.getD k []) (proj k conc) 0 with
      | some (i, c) => some (k, i, c)
      | none => none

/-- `Spec.C16` for `k` threads -/
def spec (k : Nat) (aloneRecs : List (List Rec)) (conc : List (ThreadId × Rec)) : Bool :=
  (specFind aloneRecs conc k).isNone

def specClause (k : Nat) (aloneRecs : List (List Rec)) (conc : List (ThreadId × Rec)) : String :=
  match specFind aloneRecs conc k with
  | none => "ok"
  | some (_, _, c) => "interference:" ++ c

/-! ## A process-wide table keyed with the thread (DeduplicateDecorator.tasks as it is written) -/

/-- the dict as it exists in the code: key = (argument key, thread, function) -/
abbrev SharedTbl := List ((Nat × ThreadId × Nat) × Nat)

/-- the part of the shared table that thread `t` can reach (its keys all carry `current_thread() = t`) -/
def slice (t : ThreadId) : SharedTbl → List ((Nat × Nat) × Nat)
  | [] => []
  | ((k, u, f), v) :: r => if u = t then ((f, k), v) :: slice t r else slice t r

/-! ## The locality inventory: which module-level objects of asynq/*.py carry the per-thread components, and which
    process-wide objects are known and why.  Compared on every run with an `ast` inventory of the current tree. -/

/-- (module, qualified name, kind) of the carrier of every per-thread component -/
def components : List (String × String × String) :=
  [ ("scheduler", "_state", "tlocal"),                       -- Local.sched
    ("batching", "_debug_batch_state", "tlocal"),            -- Local.dbg
    ("profiler", "_state", "tlocal"),                        -- Local.stats, Local.counter
    ("asynq_to_async", "_asyncio_mode", "contextvar"),       -- Local.amode
    ("tools", "DeduplicateDecorator.tasks", "dict") ]        -- Local.dedup: process-wide dict whose keys carry the thread
                                                             --   (C16_dedup_slice_*); per-thread scope is probed at run time

/-- process-wide by design or immutable: (module, name, kind, reason) -/
def knownShared : List (String × String × String × String) :=
  [ ("_debug", "options", "call:DebugOptions", "process-wide debug configuration by design"),
    ("async_task", "_empty_tuple", "call:tuple", "immutable"),
    ("async_task", "_empty_dictionary", "call:dict", "shared empty kwargs default, never written"),
    ("futures", "_none", "call:core_helpers.MarkerObject", "immutable marker"),
    ("futures", "none_future", "call:ConstFuture", "computed constant future, no subscribers kept"),
    ("generator", "END_OF_GENERATOR", "call:qcore.MarkerObject", "immutable marker"),
    ("decorators", "logger", "call:logging.getLogger", "logging"),
    ("debug", "_use_original_exc_handler", "global", "process-wide diagnostics configuration"),
    ("debug", "_should_filter_traceback", "global", "process-wide diagnostics configuration"),
    ("debug", "_use_syntax_highlighting", "global", "process-wide diagnostics configuration"),
    ("debug", "is_attached", "global", "process-wide exception hook installation"),
    ("debug", "original_hook", "global", "process-wide exception hook installation") ]

/-- problems of an inventory `(module, name, kind)`: `(true, c)` = a component whose carrier is missing or of another
    kind, `(false, e)` = a shared mutable object that is neither a component nor known.  Kind "const" = a container
    that no code of its module ever mutates (a constant table): listed, never a problem. -/
def inventoryProblems (inv : List (String × String × String)) : List (Bool × String × String × String) :=
  let missing := components.filterMap fun c => if inv.contains c then none else some (true, c)
  let unknown := inv.filterMap fun e =>
    if components.contains e then none
    else if knownShared.any (fun k => k.1 == e.1 && k.2.1 == e.2.1 && k.2.2.1 == e.2.2) then none
    else if e.2.2 == "const" then none
    else some (false, e)
  missing ++ unknown

end AsynqModel.Threads
