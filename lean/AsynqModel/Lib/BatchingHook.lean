import AsynqModel.Lib.Batching
/-!
  The model of asynq/batching.py with the protected hook `_cancel()` of the subclass (batching.py:123-125, 145-155):
  `BatchBase._computed` calls `self._cancel()` - when the batch finishes with an error - BEFORE it completes the
  leftover items and BEFORE `FutureBase._computed` announces the batch, and nothing guards that call.

  `hook = none`    : `_cancel()` returns (the `pass` of BatchBase, DebugBatch's debug line): the model is `step`.
  `hook = some x`  : the subclass's `_cancel()` raises the Exception `errs[x]` (kind = user only; DebugBatch._cancel is
                     library code).  The code as it is: the exception leaves `_computed`, so `set_error` - and with it
                     `cancel()`, or `_compute` in its `except BaseException` clause and with it `error()` / `value()` /
                     `flush()` / `item.value()` - raises it; the batch HAS its outcome already (`set_error` stored it
                     before `_computed` ran), its leftover items stay pending for ever, nobody is told, and `flush()`
                     skips `self.items.clear()`.
-/
namespace AsynqModel.Batching

/-- `BatchBase._compute` (batching.py:109-116) of an uncomputed batch of the harness subclass whose `_cancel()` raises:
    as `compute`, but a body that raised r leads to `set_error(r)` → `_computed` → `_try_switch_active_batch()`,
    `_cancel()` raises: the third component is what leaves `_compute` -/
def computeH (x : Nat) (scripts : List Script) (s : St) (b : Nat) : St × List Ev × Option Err :=
  let s1 := switch s b
  let s2 := s1.incRuns b
  let (s3, e1, r) := runScript b (scripts.getD b []) s2
  let evs := Ev.body b s1.active :: (e1 ++ [Ev.bodyEnd b r (s3.bout b)])
  if (s3.bout b).isSome then (s3, evs, none)
  else
    match r with
    | none => let (s4, e2) := completeBatch s3 b (.val 0); (s4, evs ++ e2, none)   -- set_value(None): no `_cancel()`
    | some e => (switch (s3.setBatchOut b (.err e)) b, evs, some (.user x))

/-- one operation of the history when `_cancel()` of the harness subclass raises `errs[x]` -/
def stepHook (x : Nat) (scripts : List Script) (s : St) (op : Op) : St × Res × List Ev :=
  match op with
  | .cancel b e =>       -- batching.py:96-107: set_error(error) → _computed → _cancel() raises
    match s.batches[b]? with
    | none => (s, .invalid, [])
    | some B =>
      if B.out.isSome then (s, .unit, [])
      else (switch (s.setBatchOut b (.err (errOfCancel e))) b, .raised (.user x), [])
  | .flush b =>
    match s.batches[b]? with
    | none => (s, .invalid, [])
    | some B =>
      if B.out.isSome then (s, .raised .batching, [])
      else
        match computeH x scripts s b with
        | (s1, e1, none) => (s1.clearUnlessKept s.keep b, .unit, e1)
        | (s1, e1, some z) => (s1, .raised z, e1)      -- `self.items.clear()` is skipped (batching.py:88-91)
  | .itemValue i =>
    match s.items[i]? with
    | none => (s, .invalid, [])
    | some it =>
      if it.out.isSome then (s, readValue it.out, [])
      else if (s.bout it.batch).isSome then (s, readValue (s.iout i), [])
      else
        match computeH x scripts s it.batch with
        | (s1, e1, none) => let s2 := s1.clearUnlessKept s.keep it.batch; (s2, readValue (s2.iout i), e1)
        | (s1, e1, some z) => (s1, .raised z, e1)
  | .batchValue b =>
    match s.batches[b]? with
    | none => (s, .invalid, [])
    | some B =>
      if B.out.isSome then (s, readValue B.out, [])
      else
        match computeH x scripts s b with
        | (s1, e1, none) => (s1, readValue (s1.bout b), e1)
        | (s1, e1, some z) => (s1, .raised z, e1)
  | .batchError b =>
    match s.batches[b]? with
    | none => (s, .invalid, [])
    | some B =>
      if B.out.isSome then (s, readError B.out, [])
      else
        match computeH x scripts s b with
        | (s1, e1, none) => (s1, readError (s1.bout b), e1)
        | (s1, e1, some z) => (s1, .raised z, e1)
  | op => step scripts s op

/-- the model with the hook: `none` = `_cancel()` returns.  REPAIRED TREE: `BatchBase._computed` catches an Exception
    out of `self._cancel()` and reports it like a failing on_computed callback, so a raising hook changes nothing
    observable (`stepHook` is the behaviour of the tree before the repair, kept for reference) -/
def stepH (_hook : Option Nat) (scripts : List Script) (s : St) (op : Op) : St × Res × List Ev :=
  step scripts s op

def observeH (hook : Option Nat) (scripts : List Script) (s : St) (op : Op) : St × Obs :=
  let (s1, r, evs) := stepH hook scripts s op
  (s1, { op := op, res := r, evs := evs, post := s1 })

def runH (hook : Option Nat) (scripts : List Script) (s : St) : List Op → List Obs
  | [] => []
  | op :: ops => let (s1, o) := observeH hook scripts s op; o :: runH hook scripts s1 ops

def finalStateH (hook : Option Nat) (scripts : List Script) (s : St) : List Op → St
  | [] => s
  | op :: ops => finalStateH hook scripts (observeH hook scripts s op).1 ops

end AsynqModel.Batching
