import AsynqModel.Core.Syntax
/-
  Model for property C15 (`fn.asyncio()` under an event loop matches the asynq result).

  Mirrors, branch for branch,
    asynq/asynq_to_async.py : is_asyncio_mode, _gather, resolve_awaitables, AsyncioMode
    asynq/decorators.py     : convert_asynq_to_async, PureAsyncDecorator.asyncio / _call_pure,
                              AsyncDecorator.__call__ / asynq, AsyncProxyDecorator.asyncio / _call_pure
  and compares them with the reference evaluation `bodyR` / `ysR` of THIS file ("what fn(args) gives": sequential
  depth-first evaluation of the task tree with asynq's `extract_futures` / `unwrap` rules, asynq/async_task.py `_continue`).
  The reference is tied to the real `fn(args)` and `fn.asynq(args).value()` by the correspondence check (conventions `call`
  and `value` of harness/checks/c15.py); there is no theorem linking it to `Core.Seq` (only `Core.Syntax.Val` is imported).

  Programs are BATCH-FREE and TREE-SHAPED: every future that is yielded is created in the yield itself
  (a child task, a ConstFuture, an ErrorFuture, a lazy Future, None, a non-future, a nested tuple/list/dict of those, an
  instance of a SUBCLASS of tuple/list/dict, the result of an async_proxy function that returns a future / None / a container).  The same
  syntax is interpreted on the real library by harness/checks/c15.py.

  The code as it is makes the two engines differ in three places, all modelled as they are (Theorems/C15.lean section B;
  two more were repaired in /repo and the model follows the repaired code: `Ys.gco` - a child whose explicit asyncio_fn is a
  generator-based coroutine was rejected by resolve_awaitables until 6607af4 -, `observeR true` - a `pure=True` METHOD had no
  `.asyncio` attribute until fec982c):
  BaseException-only errors of awaited children (`except Exception` in convert_asynq_to_async), container subclasses
  (`isinstance` in resolve_awaitables vs `type(..) is` in unwrap / extract_futures), async_proxy functions returning a
  non-future (`await fut` in unwrap_coroutine).  (Futures that are not ConstFutures - an ErrorFuture, a lazy `Future(provider)`,
  `Ys.ofut` - were a fourth place until /repo f8c8dff: both engines now call `.value()`.)

  Trusted / assumed (DESIGN.md 5.C15 L): the asyncio event loop (`await x` = run x to completion,
  `ensure_future` runs the coroutine in a COPY of the current contextvars context, `asyncio.wait(ALL_COMPLETED)`
  returns when all are done), CPython generator and `with` semantics, ContextVar.set/reset.
-/
namespace AsynqModel.Asyncio
open AsynqModel.Core (Val)

/-- exception identities -/
inductive Err where
  | u (n : Nat)      -- pre-made user exception instance n (an `Exception`)
  | b (n : Nat)      -- pre-made user exception instance n of a class derived from BaseException ONLY (not an `Exception`)
  | typeerr          -- TypeError of `unwrap` ("Cannot unwrap") / `resolve_awaitables` ("Unknown structured awaitable type")
  | syncRefused      -- RuntimeError "asyncio mode does not support synchronous calls"
  | other            -- anything else (only produced on ill-formed programs, see `bodyA`)
  deriving Repr, DecidableEq, Inhabited

/-- `not isinstance(e, Exception)`: neither `except Exception` in a body nor `except Exception as exc` in the loop of
    `convert_asynq_to_async` catches it -/
def Err.isBase : Err → Bool
  | .b _ => true
  | _ => false

/-- how a computation ends -/
inductive Out where
  | ok (v : Val)
  | err (e : Err)    -- an `Exception`
  | esc (v : Val)    -- `AsyncTaskResult(v)` (a GeneratorExit, i.e. NOT an `Exception`) travelling as an exception
  deriving Repr, DecidableEq, Inhabited

/-- which decorator / access path the function of a call goes through -/
inductive Kind where
  | gen      -- @asynq() on a generator function (AsyncDecorator)
  | meth     -- the same as a method, reached through AsyncDecoratorBinder (instance prepended)
  | pure     -- @asynq(pure=True) on a generator function (PureAsyncDecorator; `fn(args)` returns the task)
  | proxy    -- @async_proxy() function returning `inner.asynq(args)` of a `gen` function (AsyncProxyDecorator)
  | plain    -- @asynq() on a function that is not a generator (`needs_wrapper = False`, `_fn_wrapper`)
  | dedup    -- @deduplicate() over @asynq() on a generator function (asynq/tools.py DeduplicateDecorator, a subclass of
             --   AsyncDecorator whose `fn` is the inner AsyncDecorator OBJECT: `asynq()` / `asyncio()` forward to it, `__call__`
             --   is inherited)
  deriving Repr, DecidableEq, Inhabited

/-- The kind of Python object a body returns for `ret tag` / `res tag` (harness: `VALUE_KINDS[tag / 10]` in checks/c15.py).
    Every one of them is the term `node tag env` to the model: neither engine may look into a returned value - an exception
    instance RETURNED by a task is a value like any other, a falsy / unhashable / awaitable / future-like object too.
    The theorems quantify over every tag, hence over every kind. -/
inductive VKind where
  | plain | exc | baseexc | cancelled | stopiter | falsy | len0 | boolraises | eqhostile | tupsub | lstsub | dictsub
  | awaitable | constfuture
  deriving Repr, DecidableEq, Inhabited

def valueKind (tag : Nat) : VKind :=
  match tag / 10 with
  | 1 => .exc | 2 => .baseexc | 3 => .cancelled | 4 => .stopiter | 5 => .falsy | 6 => .len0 | 7 => .boolraises
  | 8 => .eqhostile | 9 => .tupsub | 10 => .lstsub | 11 => .dictsub | 12 => .awaitable | 13 => .constfuture
  | _ => .plain

/-- `inspect.isgeneratorfunction(fn)` of the function that finally runs the body -/
def Kind.isGen : Kind → Bool
  | .plain => false
  | _ => true

structure Call where
  kind : Kind
  afn : Bool       -- decorated with an explicit `asyncio_fn=g` (g logs `afn` and awaits the plain function's `.asyncio()`)
  label : Nat      -- static label of the call site = identity of the task (programs are trees: used at most once)
  sfn : Bool := false
                   -- declared with `sync_fn=f` (AsyncAndSyncPairDecorator; as a method / classmethod / staticmethod the copy bound
                   --   by its `__get__`, called through AsyncAndSyncPairDecoratorBinder): a plain synchronous call is `f(args)`;
                   --   the harness' f logs `sfn` and makes the plain synchronous call of the function declared without sync_fn.
                   --   `.asynq()` / `.asyncio()` of such a function are those of AsyncDecorator (the flag is read by no other path).
                   --   The ROOT call of a case never carries it (with a sync_fn, `fn(args)` IS `f(args)` by definition)
  deriving Repr, DecidableEq, Inhabited

mutual
/-- body of a task (first-order: the only branching is success / failure of a yield or of a synchronous call) -/
inductive Prog where
  | ret (tag : Nat)                              -- return node(tag, everything received so far)
  | res (tag : Nat)                              -- the same through asynq.result(...)
  | raise (e : Nat)                              -- raise user error e
  | raiseB (e : Nat)                             -- raise user error e of the BaseException-only class
  | reraise                                      -- re-raise the exception caught last (user error 0 if none)
  | yld (hb : Bool) (y : Ys) (k h : Prog)        -- try: v = yield y / except Exception (hb: except BaseException): h / else: k
  | sync (c : Call) (child : Prog) (k h : Prog)  -- try: v = child_fn(args) (plain synchronous call) / except Exception: h / else: k
/-- a yielded structure -/
inductive Ys where
  | none
  | junk                       -- an object that is neither a future nor None
  | const (v : Nat)            -- ConstFuture(v)
  | pconst (v : Nat)           -- proxy_fn.asynq(v) of an @async_proxy() function returning ConstFuture(v)
  | task (c : Call) (p : Prog) -- child_fn.asynq(args)   (pure: child_fn(args))
  | tup (l : YsL)
  | lst (l : YsL)
  | dict (ks : List Nat) (l : YsL)
  | sub (y : Ys)               -- the container y (tup / lst / dict) as an instance of a strict SUBCLASS of tuple / list / dict
                               --   (a namedtuple, an OrderedDict): `type(v) is tuple` vs `isinstance(x, tuple)`
  | pval (y : Ys)              -- pval_fn.asynq() of an @async_proxy() function that RETURNS the object y (None or a
                               --   tuple / list / dict of futures) instead of one future
  | ofut (isErr : Bool) (n : Nat)
                               -- a future made in the yield that is NOT a ConstFuture (asynq/futures.py):
                               --   isErr: ErrorFuture(user error n);  otherwise Future(lambda: n), computed by `.value()`
  | gco (y : Ys)               -- the child task y (`.task c p`, c declared with an explicit `asyncio_fn=g`) where g is written as
                               --   a GENERATOR-BASED coroutine (`@types.coroutine def g(..): r = yield from ...; return r`):
                               --   under asynq the AsyncTask of the function as ever; while the flag is on `.asynq()` gives
                               --   `g(args)`, a generator object - not an instance of collections.abc.Awaitable, but
                               --   `inspect.isawaitable(x)` is True and `await x` accepts it: since /repo 6607af4
                               --   resolve_awaitables awaits it like every other form of an asyncio_fn (an ordinary child)
inductive YsL where
  | nil
  | cons (y : Ys) (l : YsL)
end

/-- what the instrumented task bodies (harness) log -/
inductive Ev where
  | start (t : Nat) (mode : Bool)                 -- body of task t starts; is_asyncio_mode() seen there
  | run (t i : Nat) (dc mode : Bool) (recv : Out) -- t resumed for the i-th time with `recv`; dc = every task yielded
                                                  --   together at that yield had finished; is_asyncio_mode() seen
  | fin (t : Nat) (o : Out)                       -- task t ended: its body returned / called result() / raised, or an
                                                  --   error its handler does not catch arrived at its yield
  | afn (t : Nat)                                 -- the explicit asyncio_fn of call site t was entered
  | syncX (t : Nat) (o : Out)                     -- a plain synchronous call made inside t came back with o
  | sfn (t : Nat)                                 -- the `sync_fn` of call site t was entered (a synchronous implementation RAN)
  | bad (s : String)                              -- an observation the vocabulary cannot express (never produced by the model)
  deriving Repr, DecidableEq, Inhabited

def Ev.label : Ev → Nat
  | .start t _ => t
  | .run t _ _ _ _ => t
  | .fin t _ => t
  | .afn t => t
  | .syncX t _ => t
  | .sfn t => t
  | .bad _ => 0

structure St where
  log : List Ev := []      -- newest first
  mode : Bool := false     -- `_asyncio_mode.get()` in the current contextvars context
  deriving Repr, Inhabited

def St.emit (s : St) (e : Ev) : St := { s with log := e :: s.log }

def isFin (t : Nat) : Ev → Bool
  | .fin t' _ => t' == t
  | _ => false

/-- has the body of task t finished? -/
def St.finished (s : St) (t : Nat) : Bool := s.log.any (isFin t)

/-- The exception with which a plain synchronous call `c(args)` is refused while the flag is on - the same for every callee:
    AsyncDecorator.__call__ / AsyncAndSyncPairDecorator.__call__ `raise RuntimeError(_sync_call_in_asyncio_mode_message(self.fn))`
    (the message describes the function that `self.fn` finally wraps, so it can be built for a DeduplicateDecorator too) -/
def refusal (_c : Call) : Err := .syncRefused

/-- The state in which the callee of a plain synchronous call `c(args)` starts when the call is NOT refused:
    * AsyncDecorator.__call__ (no sync_fn): `return self._call_pure(args, kwargs).value()` - the body starts;
    * AsyncAndSyncPairDecorator.__call__ (`sync_fn=f`; AsyncAndSyncPairDecoratorBinder.__call__ forwards to it):
      `return self.sync_fn(*args, **kwargs)` - f runs (the harness' f logs `sfn` and calls the function declared without
      sync_fn synchronously, whose body then starts). -/
def syncStart (c : Call) (s : St) : St :=
  (if c.sfn then s.emit (.sfn c.label) else s).emit (.start c.label s.mode)

mutual
/-- labels of the tasks yielded together in one structure that the ASYNQ scheduler takes as futures to compute
    (`extract_futures`, async_task.py: `type(value) is tuple or type(value) is list`, `type(value) is dict` - an instance of a
    subclass is skipped, so nothing inside it is ever scheduled; what an async_proxy function returned is the yielded object) -/
def Ys.labelsR : Ys → List Nat
  | .none => []
  | .junk => []
  | .const _ => []
  | .pconst _ => []
  | .task c _ => [c.label]
  | .tup l => YsL.labelsR l
  | .lst l => YsL.labelsR l
  | .dict _ l => YsL.labelsR l
  | .sub _ => []
  | .pval y => Ys.labelsR y
  | .ofut _ _ => []
  | .gco y => Ys.labelsR y
def YsL.labelsR : YsL → List Nat
  | .nil => []
  | .cons y l => Ys.labelsR y ++ YsL.labelsR l
end

mutual
/-- the same for `resolve_awaitables` (asynq_to_async.py: `isinstance(x, list)` ... - a subclass instance is resolved like
    its base class; the object an async_proxy function returned is never looked into: `await fut` of `unwrap_coroutine`) -/
def Ys.labelsA : Ys → List Nat
  | .none => []
  | .junk => []
  | .const _ => []
  | .pconst _ => []
  | .task c _ => [c.label]
  | .tup l => YsL.labelsA l
  | .lst l => YsL.labelsA l
  | .dict _ l => YsL.labelsA l
  | .sub y => Ys.labelsA y
  | .pval _ => []
  | .ofut _ _ => []
  | .gco y => Ys.labelsA y     -- (since /repo 6607af4) awaited like any other child
def YsL.labelsA : YsL → List Nat
  | .nil => []
  | .cons y l => Ys.labelsA y ++ YsL.labelsA l
end

/-- "all awaitables yielded together have completed" as the harness evaluates it when the yield returns: every task of
    `labs` (the tasks of the structure that the engine took as awaitables) has logged its end -/
def St.dc (s : St) (labs : List Nat) : Bool := labs.all s.finished

/-- outcome of a list of sub-structures -/
inductive OutL where
  | ok (vs : List Val)
  | err (e : Err)
  | esc (v : Val)
  deriving Repr, DecidableEq, Inhabited

/-- all elements have been evaluated; the first failure in list order is the one that is raised:
    `[task.result() for task in tasks]` in `_gather`, the loops of `unwrap` -/
def combine (a : Out) (b : OutL) : OutL :=
  match a with
  | .ok v =>
    match b with
    | .ok vs => .ok (v :: vs)
    | .err e => .err e
    | .esc w => .esc w
  | .err e => .err e
  | .esc w => .esc w

def OutL.wrap (f : List Val → Val) : OutL → Out
  | .ok vs => .ok (f vs)
  | .err e => .err e
  | .esc w => .esc w

/-- the value a body returns: a free term over everything it received, so any mis-delivery shows -/
def retVal (tag : Nat) (env : List Val) : Val := .node tag env

/-! ## Reference: what `fn(args)` / `fn.asynq(args).value()` give (asynq scheduler, async_task.py)

  The scheduler computes every future of the yielded structure (`extract_futures`) before the task is
  resumed (properties C01-C03); `AsyncTask._continue` then calls `unwrap(self._last_value)`: left to right,
  depth first, the first failing future raises, a non-future raises TypeError; the value / exception is sent /
  thrown into the generator.  `StopIteration` and `AsyncTaskResult` both end the task with a value. -/

mutual
/-- `AsyncTask._continue` on the body of task t (`gen = false`: the body is a plain function run by `_fn_wrapper`) -/
def bodyR (gen : Bool) (t : Nat) (env : List Val) (caught : Option Err) (i : Nat) : Prog → St → Out × St
  | .ret tag, s =>        -- StopIteration(value): `_queue_exit(error.value)`
    let o := Out.ok (retVal tag env)
    (o, s.emit (.fin t o))
  | .res tag, s =>        -- `except GeneratorExit: if error_type is AsyncTaskResult: self._queue_exit(error.result)`
    let o := Out.ok (retVal tag env)
    (o, s.emit (.fin t o))
  | .raise e, s =>        -- `except BaseException: self._accept_error(error)`
    let o := Out.err (.u e)
    (o, s.emit (.fin t o))
  | .raiseB e, s =>       -- the same branch: `_continue` catches BaseException
    let o := Out.err (.b e)
    (o, s.emit (.fin t o))
  | .reraise, s =>
    let o := Out.err (caught.getD (.u 0))
    (o, s.emit (.fin t o))
  | .yld hb y k h, s =>
    if !gen then
      let o := Out.err .other     -- a function that is not a generator cannot yield (ill-formed program)
      (o, s.emit (.fin t o))
    else
      let (r, s1) := ysR y s      -- dependencies computed, then `unwrap(self._last_value)`
      let d := s1.dc (Ys.labelsR y)
      match r with
      | .ok v => bodyR gen t (env ++ [v]) caught (i + 1) k (s1.emit (.run t (i + 1) d s1.mode (.ok v)))   -- generator.send(value)
      | .err e =>
        -- generator.throw(error): EVERY error of a dependency is thrown into the generator at the yield; the body's handler
        -- catches it unless it is BaseException-only and the handler is `except Exception` - then the task fails with it
        if e.isBase && !hb then
          let o := Out.err e
          (o, s1.emit (.fin t o))
        else bodyR gen t env (some e) (i + 1) h (s1.emit (.run t (i + 1) d s1.mode (.err e)))
      | .esc v => (.esc v, s1)    -- never happens (see `Proofs.ysR_noEsc`): a task turns AsyncTaskResult into its value
  | .sync c child k h, s =>
    -- AsyncDecorator.__call__: `if is_asyncio_mode(): raise RuntimeError(...)  else: return self._call_pure(args, kwargs).value()`
    -- AsyncAndSyncPairDecorator.__call__ (c.sfn): the same guard, `else: return self.sync_fn(*args, **kwargs)` (`syncStart`)
    let (r, s1) :=
      if s.mode then ((Out.err (refusal c), s) : Out × St)
      else bodyR c.kind.isGen c.label [] none 0 child (syncStart c s)
    let s2 := s1.emit (.syncX t r)
    match r with
    | .ok v => bodyR gen t (env ++ [v]) caught i k s2
    | .err e =>
      if e.isBase then            -- the handler of a synchronous call is `except Exception`
        let o := Out.err e
        (o, s2.emit (.fin t o))
      else bodyR gen t env (some e) i h s2
    | .esc v => (.esc v, s2)
/-- evaluate every future of the structure, then `unwrap` it -/
def ysR : Ys → St → Out × St
  | .none, s => (.ok .none, s)                 -- `if value is None: return None`
  | .junk, s => (.err .typeerr, s)             -- `raise TypeError("Cannot unwrap an object of type ...")`
  | .const v, s => (.ok (.a v), s)             -- `future.value()`
  | .pconst v, s => (.ok (.a v), s)            -- AsyncProxyDecorator._call_pure: `return self.fn(...)` = the ConstFuture
  | .task c p, s =>
    -- `_call_pure`: `if is_asyncio_mode(): return self.asyncio(...)` - a coroutine, which `unwrap` rejects;
    -- otherwise an AsyncTask (for `proxy`: the task returned by the inner function), run by the scheduler
    if s.mode then (.err .typeerr, s)
    else bodyR c.kind.isGen c.label [] none 0 p (s.emit (.start c.label s.mode))
  | .tup l, s => let (r, s1) := yslR l s; (r.wrap .tup, s1)
  | .lst l, s => let (r, s1) := yslR l s; (r.wrap .lst, s1)
  | .dict ks l, s => let (r, s1) := yslR l s; (r.wrap (.dict ks), s1)
  | .sub _, s => (.err .typeerr, s)            -- `type(value) is tuple` ... all fail: the final `raise TypeError("Cannot unwrap ...")`;
                                               --   `extract_futures` skipped it too, so nothing inside it has run
  | .pval y, s => ysR y s                      -- AsyncProxyDecorator._call_pure: `return self.fn(...)` = the object itself is yielded
  | .ofut isErr n, s =>                        -- `unwrap`: `isinstance(value, FutureBase)`: `value.value()` - an ErrorFuture raises
    if isErr then (.err (.u n), s) else (.ok (.a n), s)   --   its error, a lazy Future calls its provider and returns the value
  | .gco y, s => ysR y s                       -- flag off: `_call_pure` builds the AsyncTask of `self.fn` - `asyncio_fn` is not read
def yslR : YsL → St → OutL × St
  | .nil, s => (.ok [], s)
  | .cons y l, s =>
    let (a, s1) := ysR y s
    let (b, s2) := yslR l s1
    (combine a b, s2)
end

/-! ## asyncio: `fn.asyncio(args)` awaited on an event loop -/

/-- `AsyncioMode.__enter__`: `self._token = _asyncio_mode.set(True)`; the token remembers the old value -/
def enterMode (s : St) : Bool × St := (s.mode, { s with mode := true })
/-- `AsyncioMode.__exit__`: `_asyncio_mode.reset(self._token)` (run on every exit of the `with` block) -/
def exitMode (tok : Bool) (s : St) : St := { s with mode := tok }

/-- `decorator.asyncio(*args)` for call site c, where `run gen s` runs the body of the function:
    * `self.asyncio_fn` given (`afn`): the harness' g logs and awaits the plain function's `.asyncio(*args)`;
    * AsyncProxyDecorator.asyncio (`proxy`, no asyncio_fn): `unwrap_coroutine`: `fut = await asyncio_fn(...)` where asyncio_fn is
      `convert_asynq_to_async(self.fn)` of a non-generator: `with AsyncioMode(): return fn(...)`; inside, the flag is on, so
      `inner.asynq(...)` takes the asyncio branch of `_call_pure` and `fut` is the inner function's coroutine, awaited next;
    * then `convert_asynq_to_async(fn).wrapped`: `with AsyncioMode(): <loop or plain call>`. -/
def callA (c : Call) (run : Bool → St → Out × St) (s : St) : Out × St :=
  let s0 := if c.afn then s.emit (.afn c.label) else s
  let s1 :=
    if c.kind == .proxy && !c.afn then
      let (tok, sIn) := enterMode s0
      exitMode tok sIn
    else s0
  let (tok, s2) := enterMode s1
  let (o, s3) := run c.kind.isGen (s2.emit (.start c.label s2.mode))
  (o, exitMode tok s3)

mutual
/-- `convert_asynq_to_async(fn).wrapped` inside `with AsyncioMode():`
    gen = true : the `while True:` loop driving the generator with send / throw;
    gen = false: `return fn(*_args, **_kwargs)`. -/
def bodyA (gen : Bool) (t : Nat) (env : List Val) (caught : Option Err) (i : Nat) : Prog → St → Out × St
  | .ret tag, s =>        -- `except StopIteration as exc: return exc.value`
    let o := Out.ok (retVal tag env)
    (o, s.emit (.fin t o))
  | .res tag, s =>        -- `except async_task.AsyncTaskResult as exc: return exc.result` (both branches of convert_asynq_to_async)
    let o := Out.ok (retVal tag env)
    (o, s.emit (.fin t o))
  | .raise e, s =>
    let o := Out.err (.u e)
    (o, s.emit (.fin t o))
  | .raiseB e, s =>
    let o := Out.err (.b e)
    (o, s.emit (.fin t o))
  | .reraise, s =>
    let o := Out.err (caught.getD (.u 0))
    (o, s.emit (.fin t o))
  | .yld _hb y k h, s =>
    if !gen then
      let o := Out.err .other
      (o, s.emit (.fin t o))
    else
      let (r, s1) := resolveA y s      -- `send = await resolve_awaitables(result)`
      let d := s1.dc (Ys.labelsA y)
      match r with
      | .ok v => bodyA gen t (env ++ [v]) caught (i + 1) k (s1.emit (.run t (i + 1) d s1.mode (.ok v)))   -- `exception = None`; generator.send(send)
      | .err e =>
        -- `except Exception as exc: exception = exc`; generator.throw(exception) - but an error that is not an `Exception`
        -- is NOT caught there: it leaves `wrapped` (through `with AsyncioMode()`), the generator is abandoned and the body's
        -- handler - even an `except BaseException` one - never sees it
        if e.isBase then
          let o := Out.err e
          (o, s1.emit (.fin t o))
        else bodyA gen t env (some e) (i + 1) h (s1.emit (.run t (i + 1) d s1.mode (.err e)))
      | .esc v => (.esc v, s1)         -- not an `Exception`: propagates out of the loop; the generator is abandoned
  | .sync c child k h, s =>
    -- AsyncDecorator.__call__ / AsyncAndSyncPairDecorator.__call__ (allow_sync_call=False): refused while the flag is on -
    -- BEFORE anything of the callee (its body, its sync_fn) runs
    let (r, s1) :=
      if s.mode then ((Out.err (refusal c), s) : Out × St)
      else bodyR c.kind.isGen c.label [] none 0 child (syncStart c s)
    let s2 := s1.emit (.syncX t r)
    match r with
    | .ok v => bodyA gen t (env ++ [v]) caught i k s2
    | .err e =>
      if e.isBase then
        let o := Out.err e
        (o, s2.emit (.fin t o))
      else bodyA gen t env (some e) i h s2
    | .esc v => (.esc v, s2)
/-- `resolve_awaitables(x)` -/
def resolveA : Ys → St → Out × St
  | .task c p, s =>
    -- the body called `child.asynq(args)`: `_call_pure` returns `self.asyncio(...)` only while the flag is on;
    -- otherwise x is an AsyncTask and falls through to the final `raise TypeError`
    if s.mode then callA c (fun g s' => bodyA g c.label [] none 0 p s') s   -- `isinstance(x, Awaitable): return await x`
    else (.err .typeerr, s)
  | .const v, s => (.ok (.a v), s)      -- `isinstance(x, ConstFuture): return x.value()`
  | .pconst v, s =>
    -- AsyncProxyDecorator.asyncio / unwrap_coroutine: `fut = await asyncio_fn(...)`; `isinstance(fut, ConstFuture): return fut.value()`
    if s.mode then
      let (tok, sIn) := enterMode s
      (.ok (.a v), exitMode tok sIn)
    else (.ok (.a v), s)                -- flag off: `self.fn(...)` = the ConstFuture itself
  | .lst l, s => let (r, s1) := gatherA l s; (r.wrap .lst, s1)          -- `await _gather([...])`
  | .tup l, s => let (r, s1) := gatherA l s; (r.wrap .tup, s1)          -- `tuple(await _gather([...]))`
  | .dict ks l, s => let (r, s1) := gatherA l s; (r.wrap (.dict ks), s1) -- `_gather` over `x.values()`, zipped with `x.keys()`
  | .none, s => (.ok .none, s)          -- `if x is None: return None`
  | .junk, s => (.err .typeerr, s)      -- `raise TypeError("Unknown structured awaitable type: ", type(x))`
  | .sub y, s => resolveA y s           -- `isinstance(x, list)` / `isinstance(x, tuple)` / `isinstance(x, dict)` hold for a subclass
                                        --   instance: resolved like the base class (the result is a plain tuple / list / dict)
  | .pval y, s =>
    -- AsyncProxyDecorator.asyncio / unwrap_coroutine: `fut = await asyncio_fn(...)` (the function runs inside
    -- `with AsyncioMode()`, the flag is restored); fut is neither a ConstFuture nor awaitable: `return await fut` raises
    -- TypeError("object ... can't be used in 'await' expression"); the coroutines inside fut are never awaited
    if s.mode then (.err .other, s)
    else resolveA y s                   -- flag off: `self.fn(...)` = the object itself
  | .ofut isErr n, s =>                 -- `isinstance(x, (ConstFuture, ErrorFuture, Future)): return x.value()`
    if isErr then (.err (.u n), s) else (.ok (.a n), s)
  | .gco y, s => resolveA y s
    -- flag on: `_call_pure` returned `self.asyncio(...)` = `self.asyncio_fn(*args)` = the generator object of a generator-based
    -- coroutine (nothing of it has run).  `if inspect.isawaitable(x): return await x` (since /repo 6607af4; before, the test
    -- was `isinstance(x, Awaitable)`, False for such an object, and the final `raise TypeError` was reached): the generator
    -- runs g, which logs `afn` and awaits the plain function's `.asyncio()` - the `.task` clause with `c.afn`.
    -- flag off: x is the AsyncTask (the `.task` clause: TypeError)
/-- `_gather(awaitables)`: every awaitable becomes a task (`ensure_future`: runs in a COPY of the context, so what it
    does to the flag is invisible here), `asyncio.wait(ALL_COMPLETED)`, then `[task.result() for task in tasks]` -/
def gatherA : YsL → St → OutL × St
  | .nil, s => (.ok [], s)              -- `if len(awaitables) == 0: return []`
  | .cons y l, s =>
    let (a, s1) := resolveA y s
    let s1' := { s1 with mode := s.mode }
    let (b, s2) := gatherA l s1'
    (combine a b, s2)
end

/-! ## "all awaited, then the first failure in structure order": `_gather` spelled out -/

/-- the outcomes of the awaitables handed to `_gather`, in list order (each ran to completion in its own copy of the context) -/
def elemsA : YsL → St → List Out
  | .nil, _ => []
  | .cons y l, s => (resolveA y s).1 :: elemsA l { (resolveA y s).2 with mode := s.mode }

/-- `[task.result() for task in tasks]`: the values if every one succeeded, else the first failure in list order -/
def firstFailure : List Out → OutL
  | [] => .ok []
  | o :: os => combine o (firstFailure os)

def Out.isOk : Out → Bool
  | .ok _ => true
  | _ => false

/-- `o` as the outcome of a whole list -/
def Out.asFailure : Out → OutL
  | .ok _ => .ok []
  | .err e => .err e
  | .esc v => .esc v

mutual
/-- a value has the shape of the structure it was resolved from (task / future leaves may hold any value) -/
def shapeOk : Ys → Val → Bool
  | .none, v => v == .none
  | .junk, _ => false
  | .const n, v => v == .a n
  | .pconst n, v => v == .a n
  | .task _ _, _ => true
  | .tup l, .tup vs => shapeOkL l vs
  | .lst l, .lst vs => shapeOkL l vs
  | .dict ks l, .dict ks' vs => ks == ks' && shapeOkL l vs
  | .tup _, _ => false
  | .lst _, _ => false
  | .dict _ _, _ => false
  | .sub y, v => shapeOk y v
  | .pval y, v => shapeOk y v
  | .ofut _ n, v => v == .a n
  | .gco y, v => shapeOk y v
def shapeOkL : YsL → List Val → Bool
  | .nil, [] => true
  | .cons y l, v :: vs => shapeOk y v && shapeOkL l vs
  | .nil, _ :: _ => false
  | .cons _ _, [] => false
end

/-! ## the four ways a computation is started and what is observed -/

inductive Conv where
  | call      -- fn(args)
  | value     -- fn.asynq(args).value()
  | aio       -- `await fn.asyncio(args)` inside an observer coroutine (same context), under asyncio.run
  | aiorun    -- asyncio.run(fn.asyncio(args)); the flag is read outside afterwards
  | aiotask   -- ensure_future(fn.asyncio(args)) beside a watcher coroutine that samples the flag at every loop iteration
  deriving Repr, DecidableEq, Inhabited

def Conv.isAio : Conv → Bool
  | .call | .value => false
  | _ => true

structure Obs where
  conv : Conv
  before : Bool      -- is_asyncio_mode() before the call
  out : Out
  after : Bool       -- is_asyncio_mode() afterwards (aiotask: "the watcher ever saw the flag on, or it is on afterwards")
  canary : Out       -- a plain synchronous call of a trivial @asynq() function made right afterwards
  log : List Ev      -- oldest first
  deriving Repr, DecidableEq, Inhabited

/-- `fn(args)`: AsyncDecorator.__call__ (the root function of a case is declared without sync_fn: `c.sfn` is not read) -/
def topCall (c : Call) (p : Prog) (s : St) : Out × St :=
  if s.mode then (.err (refusal c), s)
  else bodyR c.kind.isGen c.label [] none 0 p (s.emit (.start c.label s.mode))

/-- `fn.asynq(args).value()`: `_call_pure` gives an AsyncTask only while the flag is off (a coroutine has no `.value()`) -/
def topValue (c : Call) (p : Prog) (s : St) : Out × St :=
  if s.mode then (.err .other, s)
  else bodyR c.kind.isGen c.label [] none 0 p (s.emit (.start c.label s.mode))

/-- `await fn.asyncio(args)` -/
def topA (c : Call) (p : Prog) (s : St) : Out × St :=
  callA c (fun g s' => bodyA g c.label [] none 0 p s') s

/-- label used by the canary call (never used by a program) -/
def canaryLabel : Nat := 1000000
def canaryCall : Call := { kind := .gen, afn := false, label := canaryLabel }
/-- the canary: `canary()` where `@asynq() def canary(): return node(0)` -/
def canary (s : St) : Out := (topCall canaryCall (.ret 0) { s with log := [] }).1

def observe1 (cv : Conv) (c : Call) (p : Prog) : Obs :=
  let s0 : St := {}
  match cv with
  | .call =>
    let (o, s) := topCall c p s0
    { conv := cv, before := s0.mode, out := o, after := s.mode, canary := canary s, log := s.log.reverse }
  | .value =>
    let (o, s) := topValue c p s0
    { conv := cv, before := s0.mode, out := o, after := s.mode, canary := canary s, log := s.log.reverse }
  | .aio =>
    let (o, s) := topA c p s0
    { conv := cv, before := s0.mode, out := o, after := s.mode, canary := canary s, log := s.log.reverse }
  | .aiorun | .aiotask =>
    -- the coroutine runs as a task in a copy of the caller's context
    let (o, s) := topA c p s0
    let s' := { s with mode := s0.mode }
    { conv := cv, before := s0.mode, out := o, after := s'.mode, canary := canary s', log := s.log.reverse }

def allConvs : List Conv := [.call, .value, .aio, .aiorun, .aiotask]

def observe (c : Call) (p : Prog) : List Obs := allConvs.map (fun cv => observe1 cv c p)

/-- The ROOT of a case reached as `obj.m.asyncio(args)` / `Cls.m.asyncio(obj, args)` where `m` is declared
    `@asynq(pure=True)` inside a class (`pm = true`): attribute access on a method goes through `DecoratorBase.__get__`, which
    returns `binder_cls(self, instance)` = a `PureAsyncDecoratorBinder` (decorators.py).  Since /repo fec982c that class
    defines `asyncio` like `AsyncDecoratorBinder` does (`self.decorator.asyncio(self.instance, *args)`, without the instance
    through the class): the root is what `Kind.pure` is, whatever `pm`.  (Before, the expression raised AttributeError: no
    event, outcome `Err.other` - `oldPureMethodObs` below, which the observer rejects.) -/
def observeR (_pm : Bool) (c : Call) (p : Prog) : List Obs := observe c p

/-- what a case with a pure-method root looked like before /repo fec982c (kept to show that the observer rejects it) -/
def oldPureMethodObs (c : Call) (p : Prog) : List Obs :=
  (observe c p).map (fun ob => if ob.conv.isAio then { ob with out := .err .other, log := [] } else ob)

/-! ## The property C15 as a Boolean observer over the observations of one program -/

def isSyncX : Ev → Bool
  | .syncX _ _ => true
  | _ => false

def isSfn : Ev → Bool
  | .sfn _ => true
  | _ => false

/-- every body saw the flag `m` -/
def modeSeen (m : Bool) : Ev → Bool
  | .start _ m' => m' == m
  | .run _ _ _ m' _ => m' == m
  | _ => true

def dcOk : Ev → Bool
  | .run _ _ dc _ _ => dc
  | _ => true

/-- under asyncio a plain synchronous call comes back with the RuntimeError, and no `sync_fn` has run -/
def syncRefusedOk : Ev → Bool
  | .syncX _ o => o == .err .syncRefused
  | .sfn _ => false
  | _ => true

def syncAllowedOk : Ev → Bool
  | .syncX _ o => o != .err .syncRefused
  | _ => true

def noBad : Ev → Bool
  | .bad _ => false
  | _ => true

def canaryOk (o : Out) : Bool := o == .ok (retVal 0 [])

def isEsc : Out → Bool
  | .esc _ => true
  | _ => false

/-- What the two engines have to AGREE on, task by task: that the body started, what every yield delivered (the value with
    its shape, or the exception), and how the task ended.  The flag seen, the `dc` bit, `afn` and `syncX` are judged by
    the other clauses and are not part of the projection. -/
inductive PEv where
  | start (t : Nat)
  | run (t i : Nat) (recv : Out)
  | fin (t : Nat) (o : Out)
  deriving Repr, DecidableEq, Inhabited

def PEv.label : PEv → Nat
  | .start t => t
  | .run t _ _ => t
  | .fin t _ => t

def projEv : Ev → Option PEv
  | .start t _ => some (.start t)
  | .run t i _ _ r => some (.run t i r)
  | .fin t o => some (.fin t o)
  | _ => none

/-- projection of a log on the start / run / fin events -/
def proj (l : List Ev) : List PEv := l.filterMap projEv

/-- `e` goes before the first event of a task with a label that is not smaller -/
def insertP (e : PEv) : List PEv → List PEv
  | [] => [e]
  | x :: xs => if e.label ≤ x.label then e :: x :: xs else x :: insertP e xs

/-- canonical per-task form: stable (insertion) sort by task label = the per-task sub-logs one after the other, each in its
    own order (the interleaving of different tasks is the event loop's / the scheduler's business and is not compared) -/
def canonP (l : List PEv) : List PEv := l.foldr insertP []

def onTask (t : Nat) (l : List PEv) : List PEv := l.filter (fun e => e.label == t)

/-- the part of a log (oldest first) before the first synchronous call (used by theorem `C15_deliveries_agree_partial` about
    the MODEL only: where the first refusal falls relative to the events of OTHER tasks depends on how the event loop
    interleaves sibling coroutines, so the observer `spec` does not read it) -/
def cutSync (l : List Ev) : List Ev := l.takeWhile (fun e => !isSyncX e)

/-- `e` goes before the first event of a task with a label that is not smaller -/
def insertE (e : Ev) : List Ev → List Ev
  | [] => [e]
  | x :: xs => if e.label ≤ x.label then e :: x :: xs else x :: insertE e xs

/-- canonical per-task form of a whole log (stable insertion sort by task label): what the correspondence check compares -
    together with the first event of the log - between the model and the implementation (Drv/Asyncio.lean `diffObs`).
    `spec` reads nothing of a log beyond that: theorem `C15_spec_respects_correspondence`. -/
def canonE (l : List Ev) : List Ev := l.foldr insertE []

/-- the run belongs to the outcome: the task whose event opens the log is the one that ends last of its label, and it ends
    with the outcome the caller saw -/
def rootOk (ob : Obs) : Bool :=
  match ob.log with
  | [] => false
  | e0 :: _ => (ob.log.filter (fun e => e.label == e0.label)).getLast? == some (.fin e0.label ob.out)

/-- clauses about one way of running the program; `ref` = the outcome of `fn(args)`, `refC` = `canonP` of the projection of its
    log.  Of `ob.log` it reads: membership (`all` / `any`), the per-task sub-logs (`canonP (proj _)`, the filter of `rootOk`) and
    the first event (`rootOk`) - never the relative order of events of different tasks. -/
def specObs (ref : Out) (refC : List PEv) (ob : Obs) : Except String Unit :=
  if !ob.log.all noBad then .error "observation" else
  -- the flag is confined to the running coroutine: off before, off afterwards (on failure too), on inside
  if ob.before then .error "mode-before" else
  if ob.after then .error "mode-after" else
  if !canaryOk ob.canary then .error "mode-after-sync-call" else
  if !ob.log.all (modeSeen ob.conv.isAio) then .error "mode-inside" else
  -- everything yielded together has completed when the yield returns / raises
  if !ob.log.all dcOk then .error "siblings-complete" else
  if ob.conv.isAio then
    -- a plain synchronous call while the flag is on is refused
    if !ob.log.all syncRefusedOk then .error "sync-refused" else
    -- AsyncTaskResult never leaves a computation
    if isEsc ob.out then .error "result-escapes" else
    if ob.log.any isSyncX then
      -- the run attempted a synchronous call and was refused: from there on it legitimately differs from fn(args), and WHERE
      -- "there" is relative to the events of other tasks is the event loop's business; what remains HERE is that the outcome
      -- is the one the root task ended with - every event of such a run is judged by the program-aware clause
      -- `sync-run-deliveries` of `specObsP` below (exact comparison with the model's run)
      if !rootOk ob then .error "root-outcome" else .ok ()
    else
      -- same value / same exception as fn(args) ...
      if ob.out != ref then .error "equiv" else
      -- ... and the same in EVERY task: same values (with their shapes) and same exceptions delivered at every yield (so the
      -- failure raised at a yield is the one fn(args) raises there: the first in structure order), same end of every task
      if canonP (proj ob.log) != refC then .error "deliveries" else
      if !rootOk ob then .error "root-outcome" else .ok ()
  else
    if !ob.log.all syncAllowedOk then .error "sync-allowed" else
    if isEsc ob.out then .error "result-escapes" else
    if ob.out != ref then .error "conventions" else
    if canonP (proj ob.log) != refC then .error "conventions-deliveries" else
    if !rootOk ob then .error "root-outcome" else .ok ()

def specList (ref : Out) (refC : List PEv) : List Obs → Except String Unit
  | [] => .ok ()
  | ob :: obs =>
    match specObs ref refC ob with
    | .ok () => specList ref refC obs
    | .error e => .error e

def convsPresent (obs : List Obs) : Bool := obs.map (·.conv) == allConvs

def specClause (obs : List Obs) : String :=
  if !convsPresent obs then "conventions-missing" else
  match obs with
  | [] => "conventions-missing"
  | ob :: _ =>
    match specList ob.out (canonP (proj ob.log)) obs with
    | .ok () => "ok"
    | .error e => e

/-- `Spec.C15` -/
def spec (obs : List Obs) : Bool := specClause obs == "ok"

/-- what the correspondence check compares of two observations of the same way of running (Drv/Asyncio.lean `diffObs`):
    every field, the first event of the log and the canonical per-task form of the log -/
def sameView (a b : Obs) : Bool :=
  a.conv == b.conv && a.before == b.before && a.out == b.out && a.after == b.after && a.canary == b.canary &&
  a.log.head? == b.log.head? && canonE a.log == canonE b.log

def sameViews : List Obs → List Obs → Bool
  | [], [] => true
  | a :: as, b :: bs => sameView a b && sameViews as bs
  | _, _ => false

/-! ## syntactic classes of programs -/

mutual
/-- no plain synchronous call anywhere -/
def Prog.noSync : Prog → Bool
  | .yld _ y k h => Ys.noSync y && Prog.noSync k && Prog.noSync h
  | .sync _ _ _ _ => false
  | _ => true
def Ys.noSync : Ys → Bool
  | .task _ p => Prog.noSync p
  | .tup l => YsL.noSync l
  | .lst l => YsL.noSync l
  | .dict _ l => YsL.noSync l
  | .sub y => Ys.noSync y
  | .pval y => Ys.noSync y
  | .gco y => Ys.noSync y
  | _ => true
def YsL.noSync : YsL → Bool
  | .nil => true
  | .cons y l => Ys.noSync y && YsL.noSync l
end

mutual
/-- every handler of the program is `except Exception` (none catches BaseException) -/
def Prog.excOnly : Prog → Bool
  | .yld hb y k h => !hb && Ys.excOnly y && Prog.excOnly k && Prog.excOnly h
  | .sync _ child k h => Prog.excOnly child && Prog.excOnly k && Prog.excOnly h
  | _ => true
def Ys.excOnly : Ys → Bool
  | .task _ p => Prog.excOnly p
  | .tup l => YsL.excOnly l
  | .lst l => YsL.excOnly l
  | .dict _ l => YsL.excOnly l
  | .sub y => Ys.excOnly y
  | .pval y => Ys.excOnly y
  | .gco y => Ys.excOnly y
  | _ => true
def YsL.excOnly : YsL → Bool
  | .nil => true
  | .cons y l => Ys.excOnly y && YsL.excOnly l
end

mutual
/-- no BaseException-only error is raised anywhere in the program -/
def Prog.noRaiseB : Prog → Bool
  | .raiseB _ => false
  | .yld _ y k h => Ys.noRaiseB y && Prog.noRaiseB k && Prog.noRaiseB h
  | .sync _ child k h => Prog.noRaiseB child && Prog.noRaiseB k && Prog.noRaiseB h
  | _ => true
def Ys.noRaiseB : Ys → Bool
  | .task _ p => Prog.noRaiseB p
  | .tup l => YsL.noRaiseB l
  | .lst l => YsL.noRaiseB l
  | .dict _ l => YsL.noRaiseB l
  | .sub y => Ys.noRaiseB y
  | .pval y => Ys.noRaiseB y
  | .gco y => Ys.noRaiseB y
  | _ => true
def YsL.noRaiseB : YsL → Bool
  | .nil => true
  | .cons y l => Ys.noRaiseB y && YsL.noRaiseB l
end

/-- the side condition of the `_partial` theorems about BaseException: no handler of the program catches BaseException, or
    the program raises no BaseException-only error -/
def Prog.safe (p : Prog) : Bool := p.excOnly || p.noRaiseB

mutual
/-- every yielded container is a plain tuple / list / dict (no instance of a subclass: `.sub`), every async_proxy function
    returns one future (no `.pval`): the second side condition of the `_partial` theorems (`.ofut` - ErrorFuture, lazy Future -
    and `.gco` - a child whose asyncio_fn is a generator-based coroutine - are inside since the repairs of resolve_awaitables,
    /repo f8c8dff and 6607af4) -/
def Prog.plainY : Prog → Bool
  | .yld _ y k h => Ys.plainY y && Prog.plainY k && Prog.plainY h
  | .sync _ child k h => Prog.plainY child && Prog.plainY k && Prog.plainY h
  | _ => true
def Ys.plainY : Ys → Bool
  | .task _ p => Prog.plainY p
  | .tup l => YsL.plainY l
  | .lst l => YsL.plainY l
  | .dict _ l => YsL.plainY l
  | .sub _ => false
  | .pval _ => false
  | .gco y => Ys.plainY y
  | _ => true
def YsL.plainY : YsL → Bool
  | .nil => true
  | .cons y l => Ys.plainY y && YsL.plainY l
end

/-! ## call sites the library gives a defined meaning to (harness: `valid_call`, `Gen.call_for`) -/

/-- a declaration that exists: `asyncio_fn=` is a parameter of @asynq() / @async_proxy() (not of `pure=True`, not of
    @deduplicate()); `sync_fn=` is a parameter of @asynq() on a function / method / non-generator -/
def Call.valid (c : Call) : Bool :=
  (!c.afn || c.kind == .gen || c.kind == .meth || c.kind == .proxy || c.kind == .plain) &&
  (!c.sfn || c.kind == .gen || c.kind == .meth || c.kind == .plain)

/-- the callee of a PLAIN SYNCHRONOUS call is an @asynq() function in the sense of the property: not `pure=True` (whose plain
    call returns the task / - while the flag is on - an un-awaited coroutine: there is nothing synchronous to refuse) and, with
    `Call.valid`, not an @async_proxy(sync_fn=..) pair (AsyncAndSyncPairProxyDecorator.__call__ runs sync_fn whatever the flag) -/
def Call.validSync (c : Call) : Bool := c.valid && c.kind != .pure

mutual
/-- every call site of the program is one the harness sends (`valid_call`; synchronous callees: `Call.validSync`).  The model
    gives the remaining `Call` terms a meaning too (a refusal), which the code does not have: the statements about refused
    synchronous calls carry this hypothesis (necessity: DESIGN.md 5 C15 - shown on the real code, not in the model) -/
def Prog.validCalls : Prog → Bool
  | .yld _ y k h => Ys.validCalls y && Prog.validCalls k && Prog.validCalls h
  | .sync c child k h => c.validSync && Prog.validCalls child && Prog.validCalls k && Prog.validCalls h
  | _ => true
def Ys.validCalls : Ys → Bool
  | .task c p => c.valid && Prog.validCalls p
  | .tup l => YsL.validCalls l
  | .lst l => YsL.validCalls l
  | .dict _ l => YsL.validCalls l
  | .sub y => Ys.validCalls y
  | .pval y => Ys.validCalls y
  | .gco y => Ys.validCalls y
  | _ => true
def YsL.validCalls : YsL → Bool
  | .nil => true
  | .cons y l => Ys.validCalls y && YsL.validCalls l
end

/-! ## the program-aware part of the observer -/

mutual
/-- labels of the tasks an asyncio run may start below a body: every task of a yielded structure, at any depth, through
    continuations and handlers - but NOT the callee of a plain synchronous call, nor anything inside that callee's body -/
def Prog.live : Prog → List Nat
  | .yld _ y k h => Ys.live y ++ (Prog.live k ++ Prog.live h)
  | .sync _ _ k h => Prog.live k ++ Prog.live h
  | _ => []
def Ys.live : Ys → List Nat
  | .task c p => c.label :: Prog.live p
  | .tup l => YsL.live l
  | .lst l => YsL.live l
  | .dict _ l => YsL.live l
  | .sub y => Ys.live y
  | .pval y => Ys.live y
  | .gco y => Ys.live y
  | _ => []
def YsL.live : YsL → List Nat
  | .nil => []
  | .cons y l => Ys.live y ++ YsL.live l
end

def isAfn : Ev → Bool
  | .afn _ => true
  | _ => false

/-- Clauses that need the PROGRAM (the case) beside the observations, for one asyncio run `ob`; `m` = the model's run of the
    same program the same way:
    * `refused-callee-ran`: every event belongs to the root or to a task of `Prog.live` - nothing of the callee of a (refused)
      synchronous call is ever logged (theorem `C15_refused_callee_never_runs`);
    * `asyncio-fn`: the explicit `asyncio_fn`s entered are those of the model's run, task by task (EXACT: holds of the model
      by reflexivity; "with or without an explicit asyncio_fn" as a statement about OUTCOMES is in the equivalence theorems,
      which quantify over `Call.afn` at every call site);
    * `sync-run-deliveries`: a run that attempted a synchronous call legitimately differs from `fn(args)` from the refusal on,
      so `specObs` cannot compare it with `fn(args)`; it is compared - per task, every event - with the model's run (EXACT:
      holds of the model by reflexivity; what the model's run is like is stated by `C15_deliveries_agree_partial` (prefix of
      `fn(args)` up to the first refusal), `C15_asyncio_run_good`, `C15_refused_callee_never_runs`, `C15_run_ends_with_outcome`). -/
def specObsC (L : List Nat) (isAio : Bool) (co cm : List Ev) (same : Bool) : Except String Unit :=
  if !isAio then .ok () else
  if !co.all (fun e => L.contains e.label) then .error "refused-callee-ran" else
  if co.filter isAfn != cm.filter isAfn then .error "asyncio-fn" else
  if co.any isSyncX && !same then .error "sync-run-deliveries" else .ok ()

/-- `L` = the labels of the root and of `Prog.live` (computed once per case) -/
def specObsPL (L : List Nat) (m ob : Obs) : Except String Unit :=
  specObsC L ob.conv.isAio (canonE ob.log) (canonE m.log) (sameView m ob)

def specObsP (c : Call) (p : Prog) (m ob : Obs) : Except String Unit := specObsPL (c.label :: p.live) m ob

def specListP (L : List Nat) : List Obs → List Obs → Except String Unit
  | m :: ms, ob :: obs =>
    match specObsPL L m ob with
    | .ok () => specListP L ms obs
    | .error e => .error e
  | _, _ => .ok ()

/-- the whole observer with the model's observations `ms` of the case handed in (the driver computes them once) -/
def specClausePWith (ms : List Obs) (c : Call) (p : Prog) (obs : List Obs) : String :=
  let r := specClause obs
  if r != "ok" then r else
  match specListP (c.label :: p.live) ms obs with
  | .ok () => "ok"
  | .error e => e

/-- the whole observer of C15 on the observations `obs` of the case `(c, p)`: the observation-only clauses `specClause` first,
    then the program-aware ones -/
def specClauseP (c : Call) (p : Prog) (obs : List Obs) : String := specClausePWith (observe c p) c p obs

/-- `Spec.C15` for a case -/
def specP (c : Call) (p : Prog) (obs : List Obs) : Bool := specClauseP c p obs == "ok"

/-- the same for a case whose root may be a `pure=True` method (`observeR`): what Drv/Asyncio.lean evaluates -/
def specClausePR (pm : Bool) (c : Call) (p : Prog) (obs : List Obs) : String := specClausePWith (observeR pm c p) c p obs
def specPR (pm : Bool) (c : Call) (p : Prog) (obs : List Obs) : Bool := specClausePR pm c p obs == "ok"

end AsynqModel.Asyncio
