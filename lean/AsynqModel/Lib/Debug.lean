/-
  Model of asynq's diagnostics (property C18):

  1. `asynq/debug.py:356-444`  filter_traceback            (pattern matcher over traceback lines)
  2. `asynq/async_task.py:164-283, 309-338`, `asynq/debug.py:115-141, 165-234`, `qcore/errors.py`
                                 traceback gluing (`_continue`, `_continue_on_generator`, `_accept_error`,
                                 `prepare_for_reraise`, `reraise`), `AsyncTask.traceback()` /
                                 `format_asynq_stack()`, `extract_tb`, `format_error`
  3. `__str__/__repr__/dump` of futures.py, async_task.py, batching.py, scheduler.py, scoped_value.py,
     generator.py as total functions of an abstract lifecycle state.

  Core Lean only.  Objects, exceptions, pattern strings, marker strings and attribute names are identity tokens (Nat).
-/
namespace AsynqModel.Debug

/-! ## 1. filter_traceback

A traceback line is abstracted to "which of the pattern strings does it contain" (`text_to_match[j] in tb_list[i+j]`
is the only question the code asks about a line) plus an identity (its index in the input). -/

abbrev Pat := Nat

/-- one entry of `REPLACEMENTS`: `(text_to_match, replacement)` -/
structure Repl where
  pats : List Pat
  marker : Nat
  deriving Repr, DecidableEq, Inhabited

structure Line where
  id : Nat
  has : List Pat
  deriving Repr, DecidableEq, Inhabited

inductive Out where
  | copy (l : Line)     -- `output.append(tb_list[i])`
  | marker (m : Nat)    -- `output.append("  " + replacement + "\n")`
  | unknown             -- a line that is neither an input line nor a marker (never produced by the model)
  deriving Repr, DecidableEq, Inhabited

/-- debug.py:428-435, the inner `while j < len(text_to_match) and (i + j) < len(tb_list)` loop followed by
    `matches and j == len(text_to_match)`: do the lines starting at `i` begin with a COMPLETE run of the patterns? -/
def matchRun : List Pat → List Line → Bool
  | [], _ => true                                   -- j == len(text_to_match), matches still True
  | _ :: _, [] => false                             -- ran out of lines: j < len(text_to_match)
  | p :: ps, l :: ls => l.has.contains p && matchRun ps ls   -- `if text_to_match[j] not in tb_list[i + j]: break`

/-- debug.py:427-440, `for text_to_match, replacement in REPLACEMENTS:` - the first replacement that matches wins -/
def firstMatch : List Repl → List Line → Option Repl
  | [], _ => none
  | r :: rs, ls => if matchRun r.pats ls then some r else firstMatch rs ls

/-- debug.py:421-444, the outer `while i < len(tb_list)` loop.  `skip` lines are still covered by the run that was
    just replaced (`i = i + j`); otherwise either a marker is emitted and the run skipped, or the line is copied.
    ONLY FOR TABLES WITH `tablesOK`: an entry with an empty pattern list matches everywhere with `j = 0`, Python then
    executes `i = i + 0` and emits markers for ever, while this total function moves on by one line
    (`r.pats.length - 1 = 0`).  Outside `tablesOK` the model does not mirror the code; `filterClause` refuses such
    tables ("empty-pattern-list") before looking at any output, and the harness does not call the real function. -/
def go (tbl : List Repl) : Nat → List Line → List Out
  | _, [] => []
  | k + 1, _ :: ls => go tbl k ls
  | 0, l :: ls =>
    match firstMatch tbl (l :: ls) with
    | some r => .marker r.marker :: go tbl (r.pats.length - 1) ls
    | none => .copy l :: go tbl 0 ls

def filterTb (tbl : List Repl) (lines : List Line) : List Out := go tbl 0 lines

/-- every pattern list is non-empty (with an empty one the Python loop would emit markers forever: `i = i + 0`) -/
def tablesOK (tbl : List Repl) : Bool := tbl.all fun r => !r.pats.isEmpty

/-- `ls` is exactly one complete run of `pats`: same length, the j-th line contains the j-th pattern -/
inductive Complete : List Pat → List Line → Prop where
  | nil : Complete [] []
  | cons {p ps l ls} : p ∈ l.has → Complete ps ls → Complete (p :: ps) (l :: ls)

/-- **the statement of the filter clause**: `out` is `inp` with some disjoint complete runs each replaced by the
    marker of its table entry; every other line is copied, unchanged and in order -/
inductive Renders (tbl : List Repl) : List Line → List Out → Prop where
  | nil : Renders tbl [] []
  | keep {l inp out} : Renders tbl inp out → Renders tbl (l :: inp) (.copy l :: out)
  | run {r seg inp out} : r ∈ tbl → r.pats ≠ [] → Complete r.pats seg → Renders tbl inp out →
      Renders tbl (seg ++ inp) (.marker r.marker :: out)

/-- Boolean observer for `Renders` (what the driver evaluates on the implementation's output) -/
def rendersB (tbl : List Repl) : List Line → List Out → Bool
  | inp, [] => inp.isEmpty
  | inp, .copy l :: out =>
    match inp with
    | [] => false
    | x :: rest => x == l && rendersB tbl rest out
  | inp, .marker m :: out =>
    tbl.any fun r => r.marker == m && !r.pats.isEmpty && matchRun r.pats inp && rendersB tbl (inp.drop r.pats.length) out
  | _, .unknown :: _ => false

/-- no entry of the table has a complete run at any position of `lines` -/
def noCompleteRun (tbl : List Repl) : List Line → Bool
  | [] => true
  | l :: ls => (tbl.all fun r => !matchRun r.pats (l :: ls)) && noCompleteRun tbl ls

/-- why an output is not a rendering (first offence in a left-to-right walk); "ok" if it is one -/
def filterWhy (tbl : List Repl) : List Line → List Out → String
  | inp, [] => if inp.isEmpty then "ok" else "input-lines-dropped"
  | inp, .copy l :: out =>
    match inp with
    | [] => "line-not-from-input"
    | x :: rest => if x == l then filterWhy tbl rest out else "line-changed-or-out-of-order"
  | inp, .marker m :: out =>
    match tbl.find? (fun r => r.marker == m && !r.pats.isEmpty && matchRun r.pats inp) with
    | some r => filterWhy tbl (inp.drop r.pats.length) out
    | none => "marker-replaces-incomplete-run"
  | _, .unknown :: _ => "line-not-from-input"

/-- an output that IS a rendering but not the model's: what is the first difference?  (`model`, then `impl`) -/
def exactWhy : List Out → List Out → String
  | [], [] => "ok"
  | .marker _ :: _, .copy _ :: _ => "complete-run-not-collapsed"      -- a line is copied where a complete run starts
  | .marker m :: ms, .marker m' :: os => if m == m' then exactWhy ms os else "marker-not-first-match"
  | m :: ms, o :: os => if m == o then exactWhy ms os else "not-the-model-output"
  | _, _ => "not-the-model-output"

/-- `Spec.C18` (filter part): the implementation's output IS the model's output (`C18_filter_observer_exact`), which is
    a rendering (`C18_filter_sound`: only complete runs are collapsed, every other line copied in order) in which
    every complete run met by the left-to-right scan is collapsed and the first table entry wins
    (`C18_filter_first_match`).  The clause names say which part of that an output misses: not a rendering at all
    (`filterWhy`), or a rendering that left a complete run standing / took the marker of a later entry. -/
def filterClause (tbl : List Repl) (inp : List Line) (out : List Out) : String :=
  if !tablesOK tbl then "empty-pattern-list"
  else if out == filterTb tbl inp then "ok"
  else if rendersB tbl inp out then
    let w := exactWhy (filterTb tbl inp) out
    if w == "ok" then "not-the-model-output" else w
  else
    let w := filterWhy tbl inp out
    if w == "ok" then "not-a-rendering" else w

/-! ## 2. traceback gluing and the asynq stack

A *chain*: level 0 is called synchronously by the caller, level `i` awaits level `i+1` (by `yield child.asynq()` or by
calling `child()` synchronously inside its body), the innermost level may await an `ErrorFuture` (`bottom`).
A traceback is the list of FRAME OBJECTS of its entries, outermost first, consecutive entries of the same frame object
counted once (CPython adds a second entry for the same frame on `raise e` inside a handler). -/

inductive LibFn where
  | call | value | raiseIfError | reraise | cont | cog | unwrap | ctxs
  deriving Repr, DecidableEq, Inhabited

inductive Frame where
  | caller                    -- the function that called level 0 and caught the exception
  | lib (f : LibFn)           -- a frame of asynq / qcore (their modules set `__traceback_hide__`)
  | task (lv : Nat)           -- the generator frame of level `lv`
  | helper (lv k : Nat)       -- k-th nested plain function called from the body of level `lv`
  | orphan (lv : Nat)         -- a task created by level `lv` that nobody awaited while `lv` was alive
  | hook (lv : Nat)           -- `pause()` / `resume()` of an AsyncContext entered by level `lv`, called by the scheduler
  | hookHelper (lv k : Nat)   -- k-th nested plain function called from that hook
  deriving Repr, DecidableEq, Inhabited

inductive Handler where
  | pass                -- no try/except around the await
  | bare                -- `except: raise`
  | named               -- `except E as e: raise e`
  | raiseNew (h : Nat)  -- `except: <call h nested helpers>; raise New()`
  | swallow             -- `except: pass`
  deriving Repr, DecidableEq, Inhabited

inductive Await where
  | yld | sync
  deriving Repr, DecidableEq, Inhabited

structure Level where
  await : Await
  handler : Handler
  own : Option Nat      -- after the await (if it did not fail, or the failure was swallowed) raise an own exception from `h` nested helpers
  orphan : Bool         -- creates an orphan task first
  deriving Repr, DecidableEq, Inhabited

/-- an exception object: identity, the attributes asynq/qcore put on it, and its `__traceback__` -/
structure Err where
  tok : Nat
  hasTask : Bool          -- hasattr(error, "_task")
  hasType : Bool          -- hasattr(error, "_type_")   (then `_traceback` exists too)
  tb : List Frame         -- error._traceback
  cur : List Frame        -- error.__traceback__
  deriving Repr, DecidableEq, Inhabited

def ownTok (lv : Nat) : Nat := 10 * lv + 1
def newTok (lv : Nat) : Nat := 10 * lv + 2
def bottomTok : Nat := 3
def hookTok : Nat := 4

/-- what the innermost level awaits -/
inductive Bottom where
  | none                              -- nothing
  | errFuture                         -- `ErrorFuture(e)`, `e` never raised
  /-- a batch item, inside `with ctx:`; the scheduler suspends the blocked task (`_pause_contexts`) or continues it after
      the flush (`_resume_contexts`) and that hook of `ctx` raises from `h` nested helpers -/
  | hook (onResume : Bool) (h : Nat)
  deriving Repr, DecidableEq, Inhabited

def fresh (tok : Nat) : Err := { tok := tok, hasTask := false, hasType := false, tb := [], cur := [] }

/-- CPython: an exception leaving frames `fs` (outermost first) gets one traceback entry per frame, in front -/
def unwind (fs : List Frame) (e : Err) : Err := { e with cur := fs ++ e.cur }

/-- frames between the generator frame of `lv` and a `raise` reached through `h` nested helper calls -/
def raisedIn (lv h : Nat) : List Frame := .task lv :: (List.range h).map (fun k => .helper lv (k + 1))

/-- qcore/errors.py `reraise`: `raise error.with_traceback(error._traceback)` if prepared, else `raise error` -/
def reraise (e : Err) : Err := unwind [.lib .reraise] (if e.hasType then { e with cur := e.tb } else e)

/-- futures.py `FutureBase.value()` of a future computed with error `e` → `raise_if_error` → `reraise` -/
def valueRaises (e : Err) : Err := unwind [.lib .value, .lib .raiseIfError] (reraise e)

/-- qcore/errors.py `prepare_for_reraise(error)` called with `sys.exc_info()[2] = tb` -/
def prepareForReraise (e : Err) (tb : List Frame) : Err :=
  if e.hasType then e else { e with hasType := true, tb := tb }

/-- async_task.py:257-283 `_accept_error` (task not computed yet), `sys.exc_info()[2] = tb` -/
def acceptError (e : Err) (tb : List Frame) : Err :=
  if !e.hasTask then prepareForReraise { e with hasTask := true } tb   -- bottommost level: attach the traceback
  else { e with tb := tb }                                             -- `error._traceback = sys.exc_info()[2]`

/-- the deepest frame of a non-empty traceback (`while tb.tb_next is not None: tb = tb.tb_next`) -/
def deepest : Frame → List Frame → Frame
  | f, [] => f
  | _, g :: gs => deepest g gs

/-- frames of an exception raised by the context hook of level `lv` through `h` nested helper calls -/
def hookFrames (lv h : Nat) : List Frame := .hook lv :: (List.range h).map (fun k => .hookHelper lv (k + 1))

/-- async_task.py:391-424 `_pause_contexts` / `_resume_contexts` of level `lv` when a hook raises: inside the
    `except BaseException as e:` clause `prepare_for_reraise(error)` captures the traceback (this library frame, the hook,
    its helpers); AFTER the loop, outside any except clause, `self._accept_error(error)` runs with
    `sys.exc_info()[2] = None` (modelled as the empty traceback).  The task is failed directly: nothing is thrown into
    its generator (it is closed by `_computed`). -/
def hookFails (lv h : Nat) : Err :=
  let tb := .lib .ctxs :: hookFrames lv h
  acceptError (prepareForReraise (unwind tb (fresh hookTok)) tb) []

/-- how the error `e` of the awaited future arrives in the generator frame of level `lv`, and whether
    `_continue_on_generator` recorded the frame first (`self._frame = debug.get_frame(self._generator)`, line 219) -/
def arrive (aw : Await) (lv : Nat) (viaCall : Bool) (e : Err) : Err × Option Frame :=
  match aw with
  | .yld =>
    -- `_continue`: `unwrap(self._last_value)` raises, caught as `error`; `_continue_on_generator(None, error)`:
    -- `throw(error._type_, error, error._traceback)` if it has `_task`, else `throw(type(error), error)` (CPython 3.12
    -- resets `__traceback__` when no traceback is passed)
    let e1 := unwind [.lib .cont, .lib .unwrap] (valueRaises e)
    let e2 := { e1 with cur := if e1.hasTask then e1.tb else [] }
    (unwind [.task lv] e2, some (.task lv))
  | .sync =>
    -- the body itself calls `child()` (`AsyncDecorator.__call__` → `value()`) or `ErrorFuture(..).value()`
    let e1 := if viaCall then unwind [.lib .call] (valueRaises e) else valueRaises e
    (unwind [.task lv] e1, none)

/-- which frame `_continue_on_generator`'s `except:` clause stores in `_frame` when it is still None -/
inductive FrameRule where
  | deepest    -- async_task.py before the fix: `while tb.tb_next is not None: tb = tb.tb_next`
  | own        -- async_task.py as repaired: the walk stops before the first asynq frame (`debug._should_skip_frame`),
               -- i.e. inside the task's own synchronous frames (read from the source by the harness)
  deriving Repr, DecidableEq, Inhabited

/-- the deepest frame reached from `f` without entering a library frame (where another asynq call begins) -/
def ownDeepest : Frame → List Frame → Frame
  | f, [] => f
  | f, g :: gs => match g with
    | .lib _ => f
    | _ => ownDeepest g gs

/-- an exception leaves the generator of a task whose `_frame` is `slot`: `_continue_on_generator`'s `except:` clause
    (lines 230-245) fills `_frame` if it is still None; `_continue` catches the exception
    (`except BaseException as error: self._accept_error(error)`).  Returns the error stored on the task and the frame
    `_traceback_line` will show from now on. -/
def escape (rule : FrameRule) (slot : Option Frame) (e : Err) : Err × Frame :=
  let line := match slot with
    | some f => f
    | none => match rule with
      | .deepest => deepest (.lib .cog) e.cur
      | .own => ownDeepest (.lib .cog) e.cur
  let tb := .lib .cont :: .lib .cog :: e.cur
  (acceptError { e with cur := tb } tb, line)

inductive StackKind where
  | start | handler | orphan
  deriving Repr, DecidableEq, Inhabited

/-- what one entry of `format_asynq_stack()` is reduced to: the level of the task it shows -/
def levelTok : Frame → Nat
  | .task lv => lv
  | .helper lv _ => lv
  | .orphan lv => 1000 + lv
  | _ => 999

def isUser : Frame → Bool
  | .lib _ => false
  | _ => true

/-- debug.py:152-188 `extract_tb`: frames whose module sets `__traceback_hide__` are skipped -/
def visible (fs : List Frame) : List Frame := fs.filter fun f => match f with | .lib _ => false | _ => true

def userFrames (fs : List Frame) : List Frame := fs.filter isUser

inductive Event where
  | stack (kind : StackKind) (lv : Nat) (levels : List Nat)
  /-- none = the call returned; some (tok, raw, vis, fmt) = exception `tok` reached the caller with user frames `raw`
      (traceback walk), `vis` (asynq.debug.extract_tb), `fmt` (frames named in `format_error(e)`) -/
  | result (r : Option (Nat × List Frame × List Frame × List Frame))
  deriving Repr, DecidableEq, Inhabited

structure Run where
  out : Option Err          -- error stored on the task of this level (none: it returned)
  events : List Event
  lines : List Frame        -- what `_traceback_line()` shows for this level and the deeper ones once all are finished
  deriving Repr, Inhabited

/-- the task of level `lv` finishes after its await: own exception or return -/
def finish (rule : FrameRule) (lv : Nat) (L : Level) (slot : Option Frame) : Option Err × Frame :=
  match L.own with
  | some h => let (e, line) := escape rule slot (unwind (raisedIn lv h) (fresh (ownTok lv))); (some e, line)
  | none => (none, slot.getD (.task lv))   -- `_frame` None, generator None: `str(self)`, which names the task

/-- one level of the chain, given the finished run of the levels below it (`last`: there is no level below) -/
def step (rule : FrameRule) (lv : Nat) (anc : List Frame) (L : Level) (last : Bool) (child : Run) : Run :=
  let here := anc ++ [.task lv]       -- `AsyncTask.traceback()`: creator's list, then the own line
  let evStart := Event.stack .start lv (here.map levelTok)
  let evHandler := Event.stack .handler lv (here.map levelTok)
  match child.out with
  | none =>
    let (o, line) := finish rule lv L none
    { out := o, events := evStart :: child.events, lines := line :: child.lines }
  | some e =>
    let (e3, slot) := arrive L.await lv (!last) e
    match L.handler with
    | .pass =>
      let (e', line) := escape rule slot e3
      { out := some e', events := evStart :: child.events, lines := line :: child.lines }
    | .bare | .named =>
      let (e', line) := escape rule slot e3
      { out := some e', events := evStart :: child.events ++ [evHandler], lines := line :: child.lines }
    | .raiseNew h =>
      let (e', line) := escape rule slot (unwind (raisedIn lv h) (fresh (newTok lv)))
      { out := some e', events := evStart :: child.events ++ [evHandler], lines := line :: child.lines }
    | .swallow =>
      let (o, line) := finish rule lv L slot
      { out := o, events := evStart :: child.events ++ [evHandler], lines := line :: child.lines }

/-- the innermost level blocks on a batch item inside `with ctx:`; the hook fails the task from outside; its handler /
    own raise never run; `_frame` stays None and the generator is closed: its line is `str(self)` -/
def hookRun (lv : Nat) (anc : List Frame) (h : Nat) : Run :=
  { out := some (hookFails lv h), events := [Event.stack .start lv ((anc ++ [Frame.task lv]).map levelTok)], lines := [Frame.task lv] }

/-- run the levels `lv, lv+1, ...`; `anc` = `self.creator.traceback()` of level `lv` (all creators are suspended in
    their await, so their lines do not change meanwhile) -/
def run (rule : FrameRule) (bottom : Bottom) : Nat → List Frame → List Level → Run
  | _, _, [] => { out := if bottom == .errFuture then some (fresh bottomTok) else none, events := [], lines := [] }
  | lv, anc, L :: rest =>
    match rest, bottom with
    | [], .hook _ h => hookRun lv anc h
    | _, _ => step rule lv anc L rest.isEmpty (run rule bottom (lv + 1) (anc ++ [.task lv]) rest)

/-- the exception as the synchronous caller of level 0 catches it (`AsyncDecorator.__call__` → `value()`) -/
def callerView (e : Err) : List Frame := (unwind [.caller, .lib .call] (valueRaises e)).cur

def resultEvent (o : Option Err) : Event :=
  match o with
  | none => .result none
  | some e =>
    let tb := callerView e
    -- `format_error(e)` formats `e._traceback` (debug.py:120-122)
    .result (some (e.tok, userFrames tb, userFrames (visible tb), userFrames e.tb))

/-- orphans are run by the caller after the chain is finished, outermost first -/
def orphanEvents (lines : List Frame) : Nat → List Level → List Event
  | _, [] => []
  | i, L :: rest =>
    let evs := orphanEvents lines (i + 1) rest
    if L.orphan then Event.stack StackKind.orphan i ((lines.take (i + 1) ++ [Frame.orphan i]).map levelTok) :: evs else evs

def runTop (rule : FrameRule) (bottom : Bottom) (levels : List Level) : List Event :=
  let r := run rule bottom 0 [] levels
  r.events ++ [resultEvent r.out] ++ orphanEvents r.lines 0 levels

/-! ### reference semantics: which exception reaches the awaiter and the frames it must show -/

/-- sequential reading of the chain from level `lv` down: (exception token, user frames from level `lv` to the raiser) -/
def refStep (lv : Nat) (L : Level) (child : Option (Nat × List Frame)) : Option (Nat × List Frame) :=
  let ownR := L.own.map fun h => (ownTok lv, raisedIn lv h)
  match child with
  | none => ownR
  | some (tok, fs) =>
    match L.handler with
    | .pass | .bare | .named => some (tok, .task lv :: fs)     -- crossing a level adds exactly its frame in front
    | .raiseNew h => some (newTok lv, raisedIn lv h)
    | .swallow => ownR

def ref (bottom : Bottom) : Nat → List Level → Option (Nat × List Frame)
  | _, [] => if bottom == .errFuture then some (bottomTok, []) else none
  | lv, L :: rest =>
    match rest, bottom with
    | [], .hook _ h => some (hookTok, hookFrames lv h)     -- the traceback ends at the hook's (helper's) frame
    | _, _ => refStep lv L (ref bottom (lv + 1) rest)

def Handler.passes : Handler → Bool
  | .pass | .bare | .named => true
  | _ => false

/-- the `format_asynq_stack()` calls the generated bodies make, in the sequential reading: every level asks once when it
    starts (all its creators are suspended in their await) and once more in its `except` clause if there is one and
    the level below delivered an exception; each answer is the levels `0 .. lv`, outermost first -/
def refEvents (bottom : Bottom) : Nat → List Level → List Event
  | _, [] => []
  | lv, L :: rest =>
    match rest, bottom with
    | [], .hook _ _ => [.stack .start lv (List.range (lv + 1))]
    | _, _ =>
      .stack .start lv (List.range (lv + 1)) :: refEvents bottom (lv + 1) rest ++
        (if (ref bottom (lv + 1) rest).isSome && L.handler != .pass then [.stack .handler lv (List.range (lv + 1))] else [])

/-- what the caller must see: nothing, or the reference exception with the caller's frame followed by the reference
    frames - in the raw traceback, in `extract_tb` of it, and (without the caller) in what `format_error` prints -/
def refResult (r : Option (Nat × List Frame)) : Event :=
  match r with
  | none => .result none
  | some (tok, fs) => .result (some (tok, .caller :: fs, .caller :: fs, fs))

/-- a task created by level `i` and run by the caller after the chain has finished lists `0 .. i` and itself -/
def refOrphans : Nat → List Level → List Event
  | _, [] => []
  | i, L :: rest =>
    if L.orphan then .stack .orphan i (List.range (i + 1) ++ [1000 + i]) :: refOrphans (i + 1) rest
    else refOrphans (i + 1) rest

/-- **the reference observation of a chain** (no traceback machinery, no `_frame`, no `_task` / `_traceback` attributes) -/
def refTop (bottom : Bottom) (levels : List Level) : List Event :=
  refEvents bottom 0 levels ++ [refResult (ref bottom 0 levels)] ++ refOrphans 0 levels

/-- level `lv` lets the exception of a SYNCHRONOUSLY called child pass: `_continue_on_generator` finds `_frame` still
    None and stores the deepest frame of the glued traceback - the raiser's, not one of level `lv` -/
def unsafeHere (bottom : Bottom) (lv : Nat) (L : Level) (rest : List Level) : Bool :=
  L.await == .sync && L.handler.passes && (ref bottom (lv + 1) rest).isSome

/-- no task asks for its stack after a creator - or a creator's creator ... - was left with such a foreign `_frame`:
    from the outermost level with `unsafeHere` downwards nobody creates an orphan (decidable; depends on the chain's
    reference behaviour, not only on its syntax: a synchronous call that does not fail is harmless) -/
def stackSafe (bottom : Bottom) : Nat → List Level → Bool
  | _, [] => true
  | lv, L :: rest =>
    if unsafeHere bottom lv L rest then (L :: rest).all (fun M => !M.orphan)
    else stackSafe bottom (lv + 1) rest

/-- the name of a WRONG answer given to an orphan (`exp` = the reference answer, `ls ≠ exp`).
    "stack-foreign-entry-sync" is the signature of the one recorded defect (`_continue_on_generator` storing the deepest
    frame of the glued traceback, `FrameRule.deepest`); it is given ONLY to the very answer the model of that defective
    code predicts for this orphan of this chain, and only on chains outside `stackSafe`.  Any other wrong answer - on a
    chain where the theorem `C18_glue_refines_partial` says the code is right, or a wrong answer that is not the
    predicted one - is "stack-orphan-wrong" (audit 2, N8: the old `firstWrong` looked only at the await style of the
    level at the first wrong index, so the recorded finding swallowed every new defect there). -/
def orphanWrongName (bottom : Bottom) (levels : List Level) (lv : Nat) (ls : List Nat) : String :=
  if !stackSafe bottom 0 levels && (runTop .deepest bottom levels).contains (.stack .orphan lv ls)
  then "stack-foreign-entry-sync" else "stack-orphan-wrong"

/-- diagnosis of ONE event of the implementation that sits in the right slot (same kind and level as the reference) -/
def glueEventClause (bottom : Bottom) (levels : List Level) : Event → String
  | .stack .orphan lv ls =>
    if ls == List.range (lv + 1) ++ [1000 + lv] then "ok" else orphanWrongName bottom levels lv ls
  | .stack _ lv ls => if ls == List.range (lv + 1) then "ok" else "stack-in-body"
  | .result r =>
    match r, ref bottom 0 levels with
    | none, none => "ok"
    | some (tok, raw, vis, fmt), some (tok', fs) =>
      if tok != tok' then "wrong-exception"
      else if raw != .caller :: fs then "glued-traceback"
      else if vis != raw then "extract-tb"
      else if fmt != fs then "format-error-frames"
      else "ok"
    | none, some _ => "exception-lost"
    | some _, none => "unexpected-exception"

def Event.isResult : Event → Bool
  | .result _ => true
  | _ => false

def sameSlot : Event → Event → Bool
  | .stack k lv _, .stack k' lv' _ => k == k' && lv == lv'
  | .result _, .result _ => true
  | _, _ => false

/-- why an event list is not the reference one (first offence walking both lists); the names of the clauses are the
    stable part of a finding's signature -/
def glueWhy (bottom : Bottom) (levels : List Level) : List Event → List Event → String
  | [], [] => "ok"
  | [], _ :: _ => "unexpected-event"
  | e :: _, [] => if e.isResult then "no-result" else "stack-event-missing"
  | e :: es, g :: gs =>
    if sameSlot e g then
      let c := glueEventClause bottom levels g
      if c == "ok" then glueWhy bottom levels es gs else c
    else if e.isResult then "unexpected-event"         -- a stack event nobody should have produced, before the result
    else if g.isResult then "stack-event-missing"      -- the result arrived although a body still had to report
    else "stack-event-wrong-slot"                       -- a stack event of another level / kind than the one due

/-- `Spec.C18` (glue part): the implementation's events ARE the reference events - every due `format_asynq_stack()`
    answer is there, in order, with the right levels, nothing else is there, and the one result is the reference one -/
def glueClause (bottom : Bottom) (levels : List Level) (events : List Event) : String :=
  if events == refTop bottom levels then "ok"
  else
    let w := glueWhy bottom levels (refTop bottom levels) events
    if w == "ok" then "not-the-reference-events" else w

def glueSpec (bottom : Bottom) (levels : List Level) (events : List Event) : Bool :=
  glueClause bottom levels events == "ok"

/-! ### later retrievals of the error of a chain that already failed (round 5: second / third consumer of one task)

The exception object stored on a failed task is handed to EVERY consumer of that task; each synchronous consumer
(`task.value()`, `task()`, `task.raise_if_error()`, a later task that awaits / calls the finished task) raises the SAME
object again, and raising mutates its `__traceback__`.  futures.py `raise_if_error` therefore goes through
qcore `reraise`, which resets `__traceback__` to the glued `_traceback` before every raise (`reraise` above). -/

/-- what a later consumer does with the (outermost) failed task -/
inductive Retrieval where
  | direct                  -- the synchronous caller asks the same task again
  | viaTask (aw : Await)    -- a NEW task awaits (`yield task`) / calls (`task.value()` in its body) the failed task and
                            -- lets the error pass; the caller calls that new task, which is the outermost task from now on
  deriving Repr, DecidableEq, Inhabited

/-- level number (frame token) of the task created by the `i`-th later retrieval -/
def againLv (i : Nat) : Nat := 100 + i

/-- the exception OBJECT after a synchronous caller caught it: `__traceback__` is now what that caller saw
    (`callerView e = (seen e).cur`), `_traceback` / `_task` / `_type_` are untouched -/
def seen (e : Err) : Err := unwind [.caller, .lib .call] (valueRaises e)

/-- the error stored on the task the `i`-th later retrieval asks; `e` = the object as the previous consumer left it -/
def retrieveErr (rule : FrameRule) (i : Nat) (r : Retrieval) (e : Err) : Err :=
  match r with
  | .direct => e            -- the same task, the same stored object
  | .viaTask aw =>
    -- the body of the new task: `yield task` / `task.value()`; no handler; `_accept_error` of the new task glues
    let (e3, slot) := arrive aw (againLv i) false e
    (escape rule slot e3).1

/-- the results of the later retrievals, each as the synchronous caller catches it -/
def retrievals (rule : FrameRule) : Nat → Err → List Retrieval → List Event
  | _, _, [] => []
  | i, e, r :: rs =>
    let e' := retrieveErr rule i r e
    resultEvent (some e') :: retrievals rule (i + 1) (seen e') rs

/-- a chain followed by later retrievals (made after the orphans ran) -/
def runTopAgain (rule : FrameRule) (bottom : Bottom) (levels : List Level) (rs : List Retrieval) : List Event :=
  runTop rule bottom levels ++
    match (run rule bottom 0 [] levels).out with
    | some e => retrievals rule 0 (seen e) rs
    | none => rs.map fun _ => Event.result none      -- the chain returned: every later consumer gets the value

/-- reference: every later consumer sees the same exception with the caller's frame followed by the frames of the
    task levels it crosses NOW (one more for every new task put on top), ending at the raising frame - nothing of
    what an earlier consumer saw -/
def refRetrievals : Nat → Nat → List Frame → List Retrieval → List Event
  | _, _, _, [] => []
  | i, tok, fs, r :: rs =>
    let fs' := match r with
      | .direct => fs
      | .viaTask _ => .task (againLv i) :: fs
    refResult (some (tok, fs')) :: refRetrievals (i + 1) tok fs' rs

def refAgain (bottom : Bottom) (levels : List Level) (rs : List Retrieval) : List Event :=
  match ref bottom 0 levels with
  | some (tok, fs) => refRetrievals 0 tok fs rs
  | none => rs.map fun _ => Event.result none

def refTopAgain (bottom : Bottom) (levels : List Level) (rs : List Retrieval) : List Event :=
  refTop bottom levels ++ refAgain bottom levels rs

/-- diagnosis of one later result against the reference one -/
def retrievalClause : Event → Event → String
  | .result none, .result none => "ok"
  | .result (some (tok', raw', _, fmt')), .result (some (tok, raw, vis, fmt)) =>
    if tok != tok' then "retrieval-wrong-exception"
    else if raw != raw' then "retrieval-glued-traceback"
    else if vis != raw then "retrieval-extract-tb"
    else if fmt != fmt' then "retrieval-format-error-frames"
    else "ok"
  | .result (some _), .result none => "retrieval-exception-lost"
  | .result none, .result (some _) => "retrieval-unexpected-exception"
  | _, _ => "retrieval-not-a-result"

def retrievalsWhy : List Event → List Event → String
  | [], [] => "ok"
  | [], _ :: _ => "retrieval-unexpected-event"
  | _ :: _, [] => "retrieval-missing"
  | e :: es, g :: gs =>
    let c := retrievalClause e g
    if c == "ok" then retrievalsWhy es gs else c

/-- `Spec.C18` (glue part, with later retrievals): the implementation's events ARE the reference events; the name of
    the first offence otherwise (the chain's own events are judged by `glueClause`) -/
def againClause (bottom : Bottom) (levels : List Level) (rs : List Retrieval) (events : List Event) : String :=
  if events == refTopAgain bottom levels rs then "ok"
  else
    let n := (refTop bottom levels).length
    let c := glueClause bottom levels (events.take n)
    if c != "ok" then c
    else
      let w := retrievalsWhy (refAgain bottom levels rs) (events.drop n)
      if w == "ok" then "not-the-reference-events" else w

/-! ## 3. str / repr / dump as total functions of an abstract lifecycle state -/

inductive ValKind where
  | plain     -- any ordinary object
  | self      -- the future itself
  | cycle     -- a container that holds the future itself
  deriving Repr, DecidableEq, Inhabited

inductive Outc where
  | val (v : ValKind)
  | err
  deriving Repr, DecidableEq, Inhabited

/-- what `FutureBase.__repr__` reads -/
structure FutSt where
  inRepr : Bool
  out : Option Outc
  deriving Repr, DecidableEq, Inhabited

/-- what `AsyncTask.__str__` / `dump` read -/
structure TaskSt where
  out : Option Outc
  depsOpen : Nat        -- dependencies that are not computed (`is_blocked()` iff > 0)
  deps : Nat            -- len(self._dependencies)
  alive : Bool          -- `can_continue()`: `_generator is not None`
  iter : Nat            -- iteration_index
  deriving Repr, DecidableEq, Inhabited

structure BatchSt where
  computed : Bool
  err : Bool
  items : Nat
  deriving Repr, DecidableEq, Inhabited

structure SchedSt where
  tasks : Nat
  batches : Nat
  active : Bool
  deriving Repr, DecidableEq, Inhabited

/-- `error._traceback`, the attribute asynq (`_accept_error`) and qcore (`prepare_for_reraise`) keep on an exception -/
inductive TbAttr where
  | absent    -- no `_traceback` attribute
  | isNone    -- the attribute exists and is None
  | real      -- it holds a traceback object
  | garbage   -- it holds something that is neither None nor a traceback (nothing in asynq / qcore writes that)
  deriving Repr, DecidableEq, Inhabited

/-- inputs of `format_error(error, tb=None)` -/
structure FeIn where
  isNone : Bool
  isExc : Bool                -- isinstance(error, BaseException)
  tbAttr : TbAttr             -- `error._traceback`
  tbArg : Bool                -- a traceback object passed as `tb` (False: `tb=None`)
  deriving Repr, DecidableEq, Inhabited

/-- the only thing about a held value that matters to `"...%s..." % value`: is it a tuple, and of what length
    (anything else - dict, string containing `%`, None, list, number - is formatted as one argument) -/
inductive PayShape where
  | tuple (n : Nat)
  | other
  deriving Repr, DecidableEq, Inhabited

/-- objects whose text is one format string over a held value -/
inductive Holder where
  | scopedValue       -- AsyncScopedValue
  | scopedOverride    -- _AsyncScopedValueOverrideContext
  | propOverride      -- _AsyncPropertyOverrideContext
  | genValue          -- asynq.generator.Value
  deriving Repr, DecidableEq, Inhabited

inductive Fmt where
  | wrapped   -- the right operand of `%` is a tuple built by the code, or the value already converted by str()/repr()
  | bare      -- the held value itself is the right operand of `%`
  deriving Repr, DecidableEq, Inhabited

/-- the objects whose `__str__` / `__repr__` format a user value with plain `repr()` / `str()` / `%r` -/
inductive BadHolder where
  | future            -- futures.py:166-180 FutureBase.__repr__: `"= " + repr(self.value())` (Future, ConstFuture, batch items)
  | errorFuture       -- futures.py:176 `"error = " + repr(self.error())`
  | task              -- async_task.py:366-371 AsyncTask.__str__: `repr(self.value())` / `repr(self.error())`; repr: FutureBase.__repr__
  | scopedValue       -- scoped_value.py:52-56 `% str(self._value)` / `% repr(self._value)`
  | scopedOverride    -- scoped_value.py:72-76 `value=%r`
  | propOverride      -- scoped_value.py:93-97 `value=%r`
  | genValue          -- generator.py:86-87 `"<Value: %r>" % (self.value,)`
  deriving Repr, DecidableEq, Inhabited

inductive Obj where
  | fut (s : FutSt)           -- Future, ConstFuture, ErrorFuture, batch items (no `__str__`: `str` = `repr`)
  | task (t : TaskSt)
  | batch (b : BatchSt)
  | sched (s : SchedSt)
  | plain                     -- a text without any field (END_OF_GENERATOR, an idle DUMP_* run)
  | holder (k : Holder) (p : PayShape)
  | asyncGen (init reads : List Nat)   -- attributes set by `_AsyncGenerator.__init__` / read by its `__repr__`
  | fmtErr (i : FeIn)
  /-- a ConstFuture / ErrorFuture describing itself from inside its own constructor (`set_value` → `_computed` →
      `debug.str(self)` under DUMP_COMPUTED); `inReprSet`: does `_in_repr` exist at that moment? -/
  | constInit (inReprSet : Bool)
  /-- an object holding a value (or error) whose OWN `__repr__` / `__str__` raises (audit 3, A5).  `viaDump`: the
      operation is `dump()`, which goes through `debug.write(debug.str(self))` = qcore.safe_str and never lets the
      failure out; otherwise `str(x)` / `repr(x)`, whose format expression calls `repr` / `str` of the held value -/
  | badHeld (k : BadHolder) (viaDump : Bool)
  deriving Repr, DecidableEq, Inhabited

inductive Op where
  | str | repr | dump
  deriving Repr, DecidableEq, Inhabited

inductive Exc where
  | attributeError
  | typeError
  /-- not an exception: the call returned a text that describes ANOTHER value than the one held (the harness reports
      it as `Misdescribed`); the check counts it with the failures of the diagnostic -/
  | misdescribed
  | other
  deriving Repr, DecidableEq, Inhabited

inductive FutShown where
  | recursion | notComputed | value | valueSelf | valueRec | error
  deriving Repr, DecidableEq, Inhabited

inductive TaskStatus where
  | computedValue | computedError | blocked | waiting | almostFinished
  deriving Repr, DecidableEq, Inhabited

inductive BatchStatus where
  | cancelled | flushed | pending
  deriving Repr, DecidableEq, Inhabited

inductive FeShown where
  | none | withTraceback | onlyException | empty
  deriving Repr, DecidableEq, Inhabited

inductive Section where
  | line | deps | noDeps | items | noItems | tasks | noTasks
  deriving Repr, DecidableEq, Inhabited

inductive Shown where
  | fut (s : FutShown)
  | task (s : TaskStatus) (n : Nat) (iter : Nat)    -- n = "blocked x%i"; iter: "before 1st yield" iff iter - 1 = 0
  | batch (s : BatchStatus) (items : Nat)
  | sched (tasks batches : Nat) (active : Bool)
  | text
  | fe (s : FeShown)
  | dump (s : Section)
  deriving Repr, DecidableEq, Inhabited

inductive Res where
  | ok (s : Shown)
  | raised (x : Exc)
  deriving Repr, DecidableEq, Inhabited

def Res.isOk : Res → Bool
  | .ok _ => true
  | .raised _ => false

/-- futures.py:162-180 `FutureBase.__repr__` -/
def futRepr (s : FutSt) : FutShown :=
  if s.inRepr then .recursion
  else match s.out with
    | some (.val .self) => .valueSelf          -- `self.value() is self`
    | some (.val .cycle) => .valueRec          -- `repr(self.value())` re-enters with `_in_repr` set: "<recursion>"
    | some (.val .plain) => .value
    | some .err => .error
    | none => .notComputed

/-- async_task.py:340-364 `AsyncTask.__str__` -/
def taskStr (t : TaskSt) : Shown :=
  match t.out with
  | some (.val _) => .task .computedValue 0 t.iter
  | some .err => .task .computedError 0 t.iter
  | none =>
    if t.depsOpen > 0 then .task .blocked t.deps t.iter
    else if t.alive then .task .waiting 0 t.iter
    else .task .almostFinished 0 t.iter

/-- batching.py:166-175 `BatchBase.__str__` -/
def batchStr (b : BatchSt) : Shown :=
  .batch (if b.computed && b.err then .cancelled else if b.computed then .flushed else .pending) b.items

/-- debug.py:115-141 `format_error`: which kind of text it returns when it returns -/
def formatError (i : FeIn) : FeShown :=
  if i.isNone then .none
  else if i.tbAttr != .absent || i.tbArg then
    -- `tb = tb or error._traceback; traceback.format_exception(error.__class__, error, tb)`
    if i.tbArg || i.tbAttr == .real then .withTraceback else .onlyException
  else if i.isExc then .onlyException      -- `traceback.format_exception_only`
  else .empty

/-- does `format_error` raise?  debug.py:120-122: `traceback.format_exception(error.__class__, error, tb)`
    (a) reads `error.__traceback__` / `__cause__` / `__suppress_context__`: AttributeError for anything that is no
    exception; (b) walks `tb = tb or error._traceback` with `tb.tb_frame` / `tb.tb_next`: AttributeError for a stored
    `_traceback` that is neither None nor a traceback, unless a real traceback was passed (`tb or ..` short-circuits).
    (Not an exception and no traceback anywhere: debug.py:125-126 `tb_list = []`, no failure.) -/
def feRaises (i : FeIn) : Bool :=
  !i.isNone && ((!i.isExc && (i.tbAttr != .absent || i.tbArg)) || (i.tbAttr == .garbage && !i.tbArg))

def subset (a b : List Nat) : Bool := a.all fun x => b.contains x

/-- how each holder builds its text -/
def fmtOf : Holder → Fmt
  | .scopedValue => .wrapped      -- scoped_value.py:52-56  `"AsyncScopedValue(%s)" % str(self._value)` / `% repr(self._value)`
  | .scopedOverride => .wrapped   -- scoped_value.py:72-76  `"...(target=%r, value=%r)" % (self._target, self._value)`
  | .propOverride => .wrapped     -- scoped_value.py:93-97  `% (self._target, self._property_name, self._value)`
  | .genValue => .wrapped         -- generator.py:86-87     `"<Value: %r>" % (self.value,)`

/-- CPython: `fmt % x` where `fmt` has exactly one conversion -/
def pct : Fmt → PayShape → Res
  | .wrapped, _ => .ok .text
  | .bare, .other => .ok .text
  | .bare, .tuple 0 => .raised .typeError        -- "not enough arguments for format string"
  | .bare, .tuple 1 => .raised .misdescribed     -- formats the ELEMENT: `<Value: 1>` for `Value((1,))`
  | .bare, .tuple (_ + 2) => .raised .typeError  -- "not all arguments converted during string formatting"

/-- `str(x)`, `repr(x)`, `x.dump()` -/
def render : Obj → Op → Res
  | .fut _, .dump => .ok (.dump .line)                      -- futures.py:182-183
  | .fut s, _ => .ok (.fut (futRepr s))
  | .task t, .str => .ok (taskStr t)
  | .task t, .repr => .ok (.fut (futRepr { inRepr := false, out := t.out }))   -- AsyncTask has no `__repr__`
  | .task t, .dump => .ok (.dump (if t.deps > 0 then .deps else .noDeps))     -- async_task.py:366-377
  | .batch b, .str => .ok (batchStr b)
  | .batch b, .repr => .ok (.fut (futRepr { inRepr := false, out := if b.computed then some (if b.err then .err else .val .plain) else none }))
  | .batch b, .dump => .ok (.dump (if b.items > 0 then .items else .noItems))   -- batching.py:177-185
  | .sched s, .dump => .ok (.dump (if s.tasks > 0 then .tasks else .noTasks))   -- scheduler.py:266-277
  | .sched s, _ => .ok (.sched s.tasks s.batches s.active)                      -- scheduler.py:254-264
  | .plain, _ => .ok .text
  | .holder k p, _ => pct (fmtOf k) p
  | .asyncGen init reads, _ =>
    -- generator.py:173-177: `"<@async_generator() %s %s>" % (self.generator, "stopped" if self.stopped else "")`
    if subset reads init then .ok .text else .raised .attributeError
  | .fmtErr i, _ => if feRaises i then .raised .attributeError else .ok (.fe (formatError i))
  | .constInit inReprSet, _ =>
    -- futures.py:162-163 `if self._in_repr:` while futures.py:208-215 / 227-234 assign `_in_repr` after `set_value(..)`
    if inReprSet then .ok .text else .raised .attributeError
  | .badHeld _ viaDump, _ =>
    -- the code as it is: every one of the format expressions named at `BadHolder` lets the exception of the held
    -- value's `__repr__` out of `str(x)` / `repr(x)`; `dump()` survives (safe_str)
    if viaDump then .ok (.dump .line) else .raised .other

/-- is the cell inside the statement?  "format_error accepts any EXCEPTION with or without traceback": the first
    argument is None or an exception, and `_traceback` - the private attribute in which asynq keeps the glued traceback -
    is absent, None or a traceback.  What the function does outside that is still modelled and compared, not judged. -/
def inStatement : Obj → Bool
  | .fmtErr i => (i.isNone || i.isExc) && i.tbAttr != .garbage
  | _ => true

/-- `Spec.C18` (totality part): the diagnostic of an object inside the statement produced a text (and, where the
    harness can tell, a text about the value the object holds) -/
def reprClause (kind op : String) (o : Obj) (r : Res) : String :=
  if !inStatement o then "ok"
  else match r with
    | .ok _ => "ok"
    | .raised _ =>
      match o with
      -- the recorded open finding (known_findings.json, signature repr/held-value-repr-raises): str / repr of an
      -- object that holds a value whose own repr raises; `dump()` of such an object is NOT covered by the name
      | .badHeld _ false => "held-value-repr-raises"
      | _ =>
        let n := s!"raises:{kind}.{op}"
        if n == "held-value-repr-raises" then "raises" else n    -- (never: `n` begins with "raises:"; keeps the recorded name exact)

/-! ## 4. chains whose exceptions REJECT attribute assignment (audit 3, A2; repaired in /repo b55deef)

`@dataclass(frozen=True) class E(Exception)`, a class whose `__setattr__` raises, ...: `error._task = self` (and qcore
`prepare_for_reraise`: `error._traceback = ..`, `error._type_ = ..`) raises for such an object.  Before b55deef the
assignment stood unguarded in `_accept_error` inside `_continue`'s `except BaseException` clause: its error left the
scheduler and reached the caller of the outermost task INSTEAD of the exception (token `rejectTok`), no awaiter was
continued, the scheduler kept the abandoned tasks.  The repaired code (async_task.py `_prepare_for_reraise(error, task)`:
`try: error._task = task; prepare_for_reraise(error) / except Exception: pass`; `try: error._traceback = ..`) goes on
WITHOUT the attributes: the error is stored on the task and delivered to every awaiter as always, but
`hasattr(error, "_task")` stays false, so every `_continue_on_generator` throws it with `throw(type(error), error)`
(CPython resets `__traceback__`), `reraise` finds no `_type_` and raises the object with the `__traceback__` it has, and
`format_error` finds no `_traceback`.  Everything else (`arrive`, `reraise`, `valueRaises`, the frame rule) is the code of
section 2 unchanged - only `acceptError` is the identity. -/

inductive ExcClass where
  | accepts    -- attribute assignment works (every ordinary exception class): the model `run` above
  | rejects    -- attribute assignment raises
  deriving Repr, DecidableEq, Inhabited

/-- token of the exception raised by the rejected assignment (what the harness reports for FrozenInstanceError at the
    caller): the behaviour BEFORE the repair -/
def rejectTok : Nat := 997

/-- `escape` for an object that cannot carry the attributes: `_accept_error` stores the error on the task, the guarded
    writes change nothing (`__traceback__` is what CPython made it while the exception unwound) -/
def escapeR (rule : FrameRule) (slot : Option Frame) (e : Err) : Err × Frame :=
  let line := match slot with
    | some f => f
    | none => match rule with
      | .deepest => deepest (.lib .cog) e.cur
      | .own => ownDeepest (.lib .cog) e.cur
  ({ e with cur := .lib .cont :: .lib .cog :: e.cur }, line)

def finishR (rule : FrameRule) (lv : Nat) (L : Level) (slot : Option Frame) : Option Err × Frame :=
  match L.own with
  | some h => let (e, line) := escapeR rule slot (unwind (raisedIn lv h) (fresh (ownTok lv))); (some e, line)
  | none => (none, slot.getD (.task lv))

/-- `step` with `escapeR` / `finishR` -/
def stepR (rule : FrameRule) (lv : Nat) (anc : List Frame) (L : Level) (last : Bool) (child : Run) : Run :=
  let here := anc ++ [.task lv]
  let evStart := Event.stack .start lv (here.map levelTok)
  let evHandler := Event.stack .handler lv (here.map levelTok)
  match child.out with
  | none =>
    let (o, line) := finishR rule lv L none
    { out := o, events := evStart :: child.events, lines := line :: child.lines }
  | some e =>
    let (e3, slot) := arrive L.await lv (!last) e
    match L.handler with
    | .pass =>
      let (e', line) := escapeR rule slot e3
      { out := some e', events := evStart :: child.events, lines := line :: child.lines }
    | .bare | .named =>
      let (e', line) := escapeR rule slot e3
      { out := some e', events := evStart :: child.events ++ [evHandler], lines := line :: child.lines }
    | .raiseNew h =>
      let (e', line) := escapeR rule slot (unwind (raisedIn lv h) (fresh (newTok lv)))
      { out := some e', events := evStart :: child.events ++ [evHandler], lines := line :: child.lines }
    | .swallow =>
      let (o, line) := finishR rule lv L slot
      { out := o, events := evStart :: child.events ++ [evHandler], lines := line :: child.lines }

/-- `hookFails` without the attributes: `_prepare_for_reraise(error)` and `_accept_error` write nothing; the object keeps
    the `__traceback__` of its way out of the hook -/
def hookFailsR (lv h : Nat) : Err := unwind (.lib .ctxs :: hookFrames lv h) (fresh hookTok)

def runR (rule : FrameRule) (bottom : Bottom) : Nat → List Frame → List Level → Run
  | _, _, [] => { out := if bottom == .errFuture then some (fresh bottomTok) else none, events := [], lines := [] }
  | lv, anc, L :: rest =>
    match rest, bottom with
    | [], .hook _ h =>
      { out := some (hookFailsR lv h), events := [Event.stack .start lv ((anc ++ [Frame.task lv]).map levelTok)], lines := [Frame.task lv] }
    | _, _ => stepR rule lv anc L rest.isEmpty (runR rule bottom (lv + 1) (anc ++ [.task lv]) rest)

/-- the chains generated for rejecting exception classes -/
def rejectDomain (_bottom : Bottom) (levels : List Level) : Bool := !levels.isEmpty

/-- the whole observation of a chain of rejecting exceptions on the repaired code -/
def rejectTop (rule : FrameRule) (bottom : Bottom) (levels : List Level) : List Event :=
  let r := runR rule bottom 0 [] levels
  r.events ++ [resultEvent r.out] ++ orphanEvents r.lines 0 levels

/-- the model of the code as it is, by exception class -/
def runTopC (cls : ExcClass) (rule : FrameRule) (bottom : Bottom) (levels : List Level) : List Event :=
  match cls with
  | .accepts => runTop rule bottom levels
  | .rejects => rejectTop rule bottom levels

/-- `a` is `b` with some elements left out -/
def isSubseq : List Frame → List Frame → Bool
  | [], _ => true
  | _ :: _, [] => false
  | x :: xs, y :: ys => if x == y then isSubseq xs ys else isSubseq (x :: xs) ys

/-- one event of a chain of rejecting exceptions against the reference event in the same slot: the SAME reference as
    for every class, at full strength (the property text has no exception for classes that refuse attributes).
    `model` = the observation the model of the code predicts for this chain.  One deviation has the name of the recorded
    open finding `exception-rejecting-attributes-traceback-incomplete`: the right exception arrived, the traceback begins
    with the caller and the awaiter and shows reference frames only, in reference order, `extract_tb` agrees,
    `format_error` names reference frames only - but frames are MISSING - and it is exactly the result the model of the
    code predicts.  A foreign frame, a wrong order, a wrong start, another exception, no exception, or missing frames
    the model does not predict keep their own names. -/
def rejectEventClause (bottom : Bottom) (levels : List Level) (model : List Event) : Event → String
  | .result r =>
    match r, ref bottom 0 levels with
    | none, none => "ok"
    | some (tok, raw, vis, fmt), some (tok', fs) =>
      if tok != tok' then "wrong-exception"
      else if raw == .caller :: fs && vis == raw && fmt == fs then "ok"
      else match raw with
        | .caller :: rest =>
          if rest.head? != fs.head? then "glued-traceback-does-not-start-at-awaiter"
          else if !isSubseq rest fs then "glued-traceback-foreign-frames"
          else if vis != raw then "extract-tb"
          else if !isSubseq fmt fs then "format-error-frames"
          else if model.contains (.result r) then "exception-rejecting-attributes-traceback-incomplete"
          else "glued-traceback"
        | _ => "glued-traceback-no-caller"
    | none, some _ => "exception-lost"
    | some _, none => "unexpected-exception"
  | e => glueEventClause bottom levels e

def rejectWhy (bottom : Bottom) (levels : List Level) (model : List Event) : List Event → List Event → String
  | [], [] => "ok"
  | [], _ :: _ => "unexpected-event"
  | e :: _, [] => if e.isResult then "no-result" else "stack-event-missing"
  | e :: es, g :: gs =>
    if sameSlot e g then
      let c := rejectEventClause bottom levels model g
      -- the incomplete traceback is the LAST thing looked at: the events after the result (orphans) are judged first
      if c == "ok" then rejectWhy bottom levels model es gs
      else if c == "exception-rejecting-attributes-traceback-incomplete" then
        let rest := rejectWhy bottom levels model es gs
        if rest == "ok" then c else rest
      else c
    else if e.isResult then "unexpected-event"
    else if g.isResult then "stack-event-missing"
    else "stack-event-wrong-slot"

def Event.isRejected : Event → Bool
  | .result (some (tok, _, _, _)) => tok == rejectTok
  | _ => false

/-- `Spec.C18` (glue part) for a chain of rejecting exceptions: the reference observation at full strength; "ok" iff
    nothing deviates.  The behaviour before the repair (the caller catches
    the error of the rejected assignment) keeps its name; it is no recorded finding any more: a regression is a violation -/
def rejectClause (rule : FrameRule) (bottom : Bottom) (levels : List Level) (events : List Event) : String :=
  if events.any Event.isRejected then "exception-rejecting-attributes-not-delivered"
  else
    let c := rejectWhy bottom levels (rejectTop rule bottom levels) (refTop bottom levels) events
    if c == "exception-rejecting-attributes-not-delivered" then "not-the-reference-events" else c

end AsynqModel.Debug
