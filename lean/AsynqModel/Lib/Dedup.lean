/-
  Model of `deduplicate` (asynq/tools.py: DeduplicateDecoratorBinder, DeduplicateDecorator, deduplicate) and of the
  key normalisation it uses (qcore/caching.py: get_args_tuple, get_kwargs_defaults).

  Argument values, parameter names, instances, threads, functions and tasks are identity tokens (Nat).
  Key equality in the model is equality of value TOKENS (Python `==` on the tuple): two distinct values are two
  different tokens even when their Python hashes collide (-1 / -2, objects sharing a __hash__); the harness
  generates such pairs, so a table keyed by hashes instead of values breaks the correspondence.
  Parameter names are ordered like their tokens (the harness names token i "p<i>", one digit).
  Value tokens >= `pairBase` denote the Python 2-tuple `("p<n>", v)` (a string that is a legal keyword name and a value):
  such a tuple is EQUAL to the `(name, value)` pair that get_args_tuple appends for a keyword that names no parameter,
  so the two are one and the same key element (`KeyElem.ofVal`).
  Scheduling is NOT modelled here: when a body starts / is resumed / suspends / completes is an INPUT (an
  operation of the history), exactly as observed on the real scheduler; the model answers what every
  `.asynq()` / `.dirty()` call returns and what the process-wide table `DeduplicateDecorator.tasks` holds.
-/
namespace AsynqModel.Dedup

/-! ## Part 1: signatures, Python call binding, `get_args_tuple` -/

/-- element of a key tuple IN NORMAL FORM: a plain argument value that is not a `(name, value)` 2-tuple, or a
    `(name, value)` 2-tuple - whether it was appended by get_args_tuple for a keyword that is not a named parameter
    (caching.py:336-338) or passed by the caller as an argument value makes no difference to Python's `==` / `hash` -/
inductive KeyElem where
  | v (x : Nat)
  | kw (name val : Nat)
  deriving Repr, DecidableEq, Inhabited

/-- value tokens from here on denote the tuple `("p<n>", v)`: token `pairBase + 1000 * n + v`, `v < 1000` -/
def pairBase : Nat := 1000000

def pairTok (name val : Nat) : Nat := pairBase + 1000 * name + val

/-- the `(name, value)` 2-tuple a value token denotes, if any -/
def asPair (x : Nat) : Option (Nat × Nat) :=
  if pairBase ≤ x then some ((x - pairBase) / 1000, (x - pairBase) % 1000) else none

/-- an argument value as an element of the key tuple (normal form) -/
def KeyElem.ofVal (x : Nat) : KeyElem :=
  match asPair x with
  | some (nm, va) => .kw nm va
  | none => .v x

/-- no value of the list is a `(name, value)` 2-tuple -/
def noPair (xs : List Nat) : Bool := xs.all fun x => (asPair x).isNone

/-- `inspect.getfullargspec(original_fn)`: `args` with their defaults, `kwonlyargs` with `kwonlydefaults`,
    `varargs is not None`, `varkw is not None`; and `original_fn.__code__.co_posonlyargcount`: the first `posonly`
    entries of `args` are positional-only (`def f(a, b, /, c)`); getfullargspec does NOT tell them apart -/
structure Sig where
  pos : List (Nat × Option Nat)
  kwonly : List (Nat × Option Nat)
  varargs : Bool
  varkw : Bool
  posonly : Nat := 0
  deriving Repr, DecidableEq, Inhabited

def Sig.posNames (s : Sig) : List Nat := s.pos.map (·.1)
def Sig.kwNames (s : Sig) : List Nat := s.kwonly.map (·.1)
/-- names of the positional-only parameters: a keyword of that name never reaches the parameter (PEP 570) -/
def Sig.poNames (s : Sig) : List Nat := s.posNames.take s.posonly

/-- tools.py:420  `arg_names = argspec.args + argspec.kwonlyargs` -/
def Sig.argNames (s : Sig) : List Nat := s.posNames ++ s.kwNames

def optPairs : List (Nat × Option Nat) → List (Nat × Nat)
  | [] => []
  | (n, some d) :: r => (n, d) :: optPairs r
  | (_, none) :: r => optPairs r

/-- caching.py:344-354 `get_kwargs_defaults`: defaults of the trailing positional parameters, then
    `update(kwonlydefaults)` (so a keyword-only default wins on a name clash: it is looked up first) -/
def Sig.defaults (s : Sig) : List (Nat × Nat) := optPairs s.kwonly ++ optPairs s.pos

/-- dict lookup in an association list -/
def alook : List (Nat × Nat) → Nat → Option Nat
  | [], _ => none
  | (k, v) :: r, n => if k = n then some v else alook r n

/-- one iteration of the `while` loop of get_args_tuple (caching.py:330-335); `.error name` = KeyError -/
def fillOne (kw dflt : List (Nat × Nat)) (name : Nat) : Except Nat Nat :=
  match alook dflt name with
  | some d => .ok ((alook kw name).getD d)
  | none =>
    match alook kw name with
    | some x => .ok x
    | none => .error name

def fill (kw dflt : List (Nat × Nat)) : List Nat → Except Nat (List Nat)
  | [] => .ok []
  | n :: ns =>
    match fillOne kw dflt n with
    | .error e => .error e
    | .ok x =>
      match fill kw dflt ns with
      | .error e => .error e
      | .ok xs => .ok (x :: xs)

def insertPair (p : Nat × Nat) : List (Nat × Nat) → List (Nat × Nat)
  | [] => [p]
  | q :: r => if p.1 ≤ q.1 then p :: q :: r else q :: insertPair p r

/-- `sorted(...)` of keyword names (insertion sort; keys of a dict are distinct) -/
def sortPairs : List (Nat × Nat) → List (Nat × Nat)
  | [] => []
  | p :: r => insertPair p (sortPairs r)

/-- keywords that do not name a parameter, as a dict in canonical (sorted) form -/
def extras (kw : List (Nat × Nat)) (names : List Nat) : List (Nat × Nat) :=
  sortPairs (kw.filter fun p => !names.contains p.1)

/-- caching.py:323-341 `get_args_tuple(args, kwargs, arg_names, kwargs_defaults)`;
    `.error name` = `TypeError("Missing argument name")` -/
def getArgsTuple (args : List Nat) (kw : List (Nat × Nat)) (argNames : List Nat) (dflt : List (Nat × Nat)) :
    Except Nat (List KeyElem) :=
  match fill kw dflt (argNames.drop args.length) with
  | .error e => .error e
  | .ok filled =>
    .ok (args.map .ofVal ++ filled.map .ofVal ++ (extras kw argNames).map fun p => .kw p.1 p.2)

/-- the default keygetter of `deduplicate` (tools.py:417-424) -/
def Sig.key (s : Sig) (args : List Nat) (kw : List (Nat × Nat)) : Except Nat (List KeyElem) :=
  getArgsTuple args kw s.argNames s.defaults

/-- what a call binds: the named parameters (positional-or-keyword, then keyword-only) in declaration order,
    `*rest`, `**extra` (canonical form) -/
structure Binding where
  params : List Nat
  rest : List Nat
  extra : List (Nat × Nat)
  deriving Repr, DecidableEq, Inhabited

inductive BindErr where
  | tooMany | multiple | missing (name : Nat) | unexpected
  deriving Repr, DecidableEq, Inhabited

/-- Python's binding of a call `fn(*args, **kw)` to the signature (language semantics - assumed, and compared
    with what the real function body receives on every started task). Every error is a `TypeError`.
    A keyword whose name is that of a positional-only parameter does not reach that parameter: it lands in `**extra`
    when there is one and is an error otherwise. -/
def Sig.bind (s : Sig) (args : List Nat) (kw : List (Nat × Nat)) : Except BindErr Binding :=
  let n := s.pos.length
  let kwN := kw.filter fun p => !s.poNames.contains p.1
  if args.length > n && !s.varargs then .error .tooMany
  else if (s.posNames.take args.length).any (fun nm => (alook kwN nm).isSome) then .error .multiple
  else
    match fill kwN s.defaults (s.posNames.drop args.length ++ s.kwNames) with
    | .error nm => .error (.missing nm)
    | .ok filled =>
      let ex := sortPairs (kw.filter fun p => !s.argNames.contains p.1 || s.poNames.contains p.1)
      if !ex.isEmpty && !s.varkw then .error .unexpected
      else .ok { params := args.take n ++ filled, rest := args.drop n, extra := ex }

/-- signatures on which the default key is a flat print of the binding (parameters, rest, extra one after the
    other): not both `*args` and keyword-only parameters (the key then drops the keyword-only values and mistakes
    overflow positionals for them), and not both positional-only parameters and `**kwargs` (the key then drops a
    keyword that has the name of a positional-only parameter, or takes it for the parameter) -/
def Sig.flat (s : Sig) : Bool := (!s.varargs || s.kwonly.isEmpty) && (s.posonly == 0 || !s.varkw)

/-- signatures on which the default key is faithful WHATEVER the argument values are: flat, and not both `*args`
    and `**kwargs` (the flat print then cannot tell a `(name, value)` tuple passed in `*args` from a keyword) -/
def Sig.ok (s : Sig) : Bool := s.flat && !(s.varargs && s.varkw)

/-- calls on which the default key is a flat print of the binding - a condition on THIS call, not on the whole
    signature: when the signature combines `*args` with keyword-only parameters the call passes no overflow positional
    (otherwise the key drops keyword-only values and mistakes overflow positionals for them), and when it combines
    positional-only parameters with `**kwargs` no keyword has the name of a positional-only parameter (otherwise the
    key drops that keyword, or takes it for the parameter).  `Sig.flat` implies it for every call (`callFlat_of_flat`). -/
def callFlat (s : Sig) (args : List Nat) (kw : List (Nat × Nat)) : Bool :=
  (!(s.varargs && !s.kwonly.isEmpty) || decide (args.length ≤ s.pos.length)) &&
  (!(s.posonly != 0 && s.varkw) || kw.all fun p => !s.poNames.contains p.1)

/-- calls on which the default key is faithful: `callFlat` and, when the signature has both `*args` and
    `**kwargs`, no positional argument is a `(name, value)` 2-tuple -/
def callOk (s : Sig) (args : List Nat) (kw : List (Nat × Nat)) : Bool :=
  callFlat s args kw && (!(s.varargs && s.varkw) || noPair args)

/-- which of the three known ways of conflating calls a signature is open to (the name is the spec clause) -/
def Sig.defect (s : Sig) : Option String :=
  if s.varargs && !s.kwonly.isEmpty then some "varargs-kwonly"
  else if s.posonly != 0 && s.varkw then some "posonly-varkw"
  else if s.varargs && s.varkw then some "varargs-varkw-pair"
  else none

/-! ## Part 2: the table `DeduplicateDecorator.tasks` and the operations on it -/

/-- association list used as a dict (distinct keys: `set` erases first) -/
def mget {κ : Type} [DecidableEq κ] : List (κ × Nat) → κ → Option Nat
  | [], _ => none
  | (k, v) :: r, x => if k = x then some v else mget r x

def merase {κ : Type} [DecidableEq κ] (m : List (κ × Nat)) (x : κ) : List (κ × Nat) :=
  m.filter fun p => !decide (p.1 = x)

def mset {κ : Type} [DecidableEq κ] (m : List (κ × Nat)) (x : κ) (t : Nat) : List (κ × Nat) :=
  (x, t) :: merase m x

/-- tools.py:349-350 `cache_key`: `(keygetter(args, kwargs), threading.current_thread(), id(self.fn))` -/
structure Key where
  tup : List KeyElem
  th : Nat
  fn : Nat
  deriving Repr, DecidableEq, Inhabited

inductive FnKind where
  | func      -- module-level function
  | method    -- defined in a class; reached through the binder (`__get__`)
  | static    -- wrapped in `staticmethod`: no binder, no instance
  deriving Repr, DecidableEq, Inhabited

structure FnDecl where
  kind : FnKind
  sig : Sig
  deriving Repr, DecidableEq, Inhabited

/-- how the function is reached: `f`, `C.m` (binder with instance None / plain staticmethod) or `c.m` -/
inductive Recv where
  | none | cls | inst (i : Nat)
  deriving Repr, DecidableEq, Inhabited

/-- one spelling of a call: function, receiver, positional and keyword arguments, calling thread -/
structure Spell where
  fn : Nat
  recv : Recv
  args : List Nat
  kw : List (Nat × Nat)
  th : Nat
  deriving Repr, DecidableEq, Inhabited

/-- DeduplicateDecoratorBinder.dirty (tools.py:333-338) / AsyncDecoratorBinder.asynq (decorators.py:190-195):
    a binder with an instance passes it as first positional argument -/
def effArgs (d : FnDecl) (c : Spell) : List Nat :=
  match d.kind, c.recv with
  | .method, .inst i => i :: c.args
  | _, _ => c.args

inductive Outc where
  | val (v : Nat) | err (e : Nat)
  deriving Repr, DecidableEq, Inhabited

structure Task where
  key : Key               -- the `cache_key` closed over by `callback` (tools.py:366-367)
  b : Binding             -- what the generator function bound when it was called at creation
  reg : Bool              -- stored in the table at creation and subscribed `callback`
  started : Bool          -- the first `send(None)` has happened (a generator starts once)
  running : Bool          -- AsyncTask.running
  out : Option Outc
  deriving Repr, DecidableEq, Inhabited

structure St where
  tasks : List Task               -- every task created so far; its index is its identity token
  table : List (Key × Nat)        -- DeduplicateDecorator.tasks
  deriving Repr, DecidableEq, Inhabited

def St.init : St := { tasks := [], table := [] }

inductive Op where
  | call (c : Spell)                 -- `<recv>.fn.asynq(*args, **kw)` on thread `th`
  | dirty (c : Spell)                -- `<recv>.fn.dirty(*args, **kw)`
  | start (t : Nat)                  -- first `send(None)` into the generator of task t (body starts)
  | resume (t : Nat) (thrown : Bool) -- later `send(value)` / `throw(error)` (async_task.py:215-223)
  | suspend (t : Nat)                -- the body yields (async_task.py:246-247)
  | complete (t : Nat) (o : Outc)    -- the body returns / raises: `running = False`, set_value/set_error, callbacks
  | threadEnd (th : Nat)             -- the thread with token `th` has finished: its Thread object is never seen again
                                     -- (the OS may hand its ident / name to a LATER thread, which is a different token);
                                     -- nothing in tools.py reacts to it - the entries the thread left behind stay
  | await (t : Nat)                  -- somebody who holds task t (a caller that yielded it, `.value()`, a subscriber of
                                     -- `on_computed`) reads its outcome: the answer is what this caller RECEIVES
  | aioCall (c : Spell)              -- `<recv>.fn.asynq(*args, **kw)` issued in ASYNCIO mode (under a running `fn.asyncio()`):
                                     -- tools.py:355-356 hand the call to `self.fn.asyncio` BEFORE a key is made - the answer
                                     -- is a coroutine, never a task; no table access; every such call runs the body by itself
  | outside (what : Nat)             -- an event of ANOTHER feature happens on the thread, between two operations of the history:
                                     -- 1 the function is used in asyncio mode through `.asyncio()` (DeduplicateDecorator.asyncio,
                                     --   tools.py:352-353: no table access),
                                     -- 2 a debug / profiling option is switched, 3 asynq.mock.patch replaces and restores the
                                     -- function, 4 a receiver instance / a bound wrapper is copied, 5 the garbage collector runs,
                                     -- 6 the synchronous call `f(args)` (AsyncDecorator.__call__ -> _call_pure: no table access),
                                     -- 7 the thread-local scheduler of a thread is REPLACED (`asynq.scheduler.reset()`,
                                     --   scheduler.py:331: what a harness does after an aborted computation), 8 it is EMPTIED
                                     --   (`TaskScheduler.reset()`, scheduler.py:58). The key holds the THREAD
                                     --   (`threading.current_thread()`, tools.py cache_key), not its scheduler.
                                     -- None of them reads or writes `DeduplicateDecorator.tasks`.
  deriving Repr, DecidableEq, Inhabited

def Op.name : Op → String
  | .call _ => "call" | .dirty _ => "dirty" | .start _ => "start" | .resume _ _ => "resume"
  | .suspend _ => "suspend" | .complete _ _ => "complete" | .threadEnd _ => "threadEnd" | .outside _ => "outside"
  | .await _ => "await" | .aioCall _ => "aioCall"

inductive Res where
  | ret (t : Nat) (new : Bool)   -- the task returned, and whether this call created it
  | typeError
  | unit
  | binding (b : Binding)        -- what the starting body received
  | got (o : Option Outc)        -- what a reader of the task received (`none`: the task has not completed)
  | coro                         -- a coroutine object (asyncio mode): not a task
  | bad                          -- the operation does not make sense in this state (unknown function / task, a second
                                 -- start, anything after completion); never observed on the implementation
  deriving Repr, DecidableEq, Inhabited

structure Obs where
  op : Op
  res : Res
  size : Nat          -- len(DeduplicateDecorator.tasks) after the operation
  deriving Repr, DecidableEq, Inhabited

/-- `self.fn.asynq(*args, **kwargs)` for a generator function: binds at once (TypeError) or makes a task -/
def create (s : St) (d : FnDecl) (args : List Nat) (kw : List (Nat × Nat)) (key : Key) (reg : Bool) : St × Res :=
  match d.sig.bind args kw with
  | .error _ => (s, .typeError)
  | .ok b =>
    let t := s.tasks.length
    let task : Task := { key := key, b := b, reg := reg, started := false, running := false, out := none }
    ({ tasks := s.tasks ++ [task], table := if reg then mset s.table key t else s.table }, .ret t true)

def setTask (s : St) (t : Nat) (x : Task) : St := { s with tasks := s.tasks.set t x }

def step (fns : List FnDecl) (s : St) : Op → St × Res
  | .call c =>
    match fns[c.fn]? with
    | none => (s, .bad)
    | some d =>
      let args := effArgs d c
      -- tools.py:359 cache_key (the keygetter may raise TypeError "Missing argument")
      match d.sig.key args c.kw with
      | .error _ => (s, .typeError)
      | .ok tup =>
        let key : Key := { tup := tup, th := c.th, fn := c.fn }
        match mget s.table key with
        | none => create s d args c.kw key true                     -- tools.py:363-371
        | some t =>
          match s.tasks[t]? with
          | none => (s, .bad)
          | some task =>
            if task.running then create s d args c.kw key false     -- tools.py:373-377
            else (s, .ret t false)                                   -- tools.py:378
  | .dirty c =>
    match fns[c.fn]? with
    | none => (s, .bad)
    | some d =>
      match d.sig.key (effArgs d c) c.kw with
      | .error _ => (s, .typeError)
      | .ok tup => ({ s with table := merase s.table { tup := tup, th := c.th, fn := c.fn } }, .unit)  -- tools.py:380-382
  | .start t =>
    match s.tasks[t]? with
    | none => (s, .bad)
    | some task =>
      if task.out.isSome || task.started then (s, .bad)           -- a generator body starts once
      else (setTask s t { task with started := true, running := true }, .binding task.b)
  | .resume t thrown =>
    match s.tasks[t]? with
    | none => (s, .bad)
    | some task =>
      if task.out.isSome || !task.started then (s, .bad)            -- only a started generator can be resumed
      else if thrown then (s, .unit)                                 -- `throw` path: `running` is not set
      else (setTask s t { task with running := true }, .unit)
  | .suspend t =>
    match s.tasks[t]? with
    | none => (s, .bad)
    | some task =>
      if task.out.isSome || !task.started then (s, .bad)            -- only a started generator can yield
      else (setTask s t { task with running := false }, .unit)
  | .complete t o =>
    match s.tasks[t]? with
    | none => (s, .bad)
    | some task =>
      if task.out.isSome then (s, .bad)
      else
        let s' := setTask s t { task with running := false, out := some o }
        -- `callback` removes the entry of the key it closed over only if it still holds THIS task: after dirty()
        -- the key may already belong to a newer in-flight task (tools.py:366-370)
        (if task.reg && mget s'.table task.key == some t then { s' with table := merase s'.table task.key } else s', .unit)
  | .await t =>                      -- FutureBase.value() / the value sent into the awaiting generator: the stored outcome
    match s.tasks[t]? with
    | none => (s, .bad)
    | some task => (s, .got task.out)
  | .aioCall _ => (s, .coro)        -- tools.py:355-356: `return self.fn.asyncio(*args, **kwargs)`; the table is not touched
  | .threadEnd _ => (s, .unit)      -- no code runs: the table is process-wide and keyed by the Thread OBJECT
  | .outside _ => (s, .unit)        -- code of other features runs; none of it touches the table

def observe (fns : List FnDecl) (s : St) (op : Op) : St × Obs :=
  let (s', r) := step fns s op
  (s', { op := op, res := r, size := s'.table.length })

def run (fns : List FnDecl) (s : St) : List Op → List Obs
  | [] => []
  | op :: ops => let (s', o) := observe fns s op; o :: run fns s' ops

/-- the state after a history (no observations) -/
def finalState (fns : List FnDecl) (s : St) : List Op → St
  | [] => s
  | op :: ops => finalState fns (step fns s op).1 ops

/-- the table key an operation works on (`none`: the operation does not touch the table at all) -/
def opKey (fns : List FnDecl) (s : St) : Op → Option Key
  | .call c | .dirty c =>
    match fns[c.fn]? with
    | none => none
    | some d =>
      match d.sig.key (effArgs d c) c.kw with
      | .error _ => none
      | .ok tup => some { tup := tup, th := c.th, fn := c.fn }
  | .complete t _ => (s.tasks[t]?).map (·.key)
  | _ => none

/-- no operation of the history works on key `k` -/
def avoids (fns : List FnDecl) (k : Key) (s : St) : List Op → Bool
  | [] => true
  | op :: ops => opKey fns s op != some k && avoids fns k (step fns s op).1 ops

def sigsOk (fns : List FnDecl) : Bool := fns.all fun d => d.sig.ok

/-- the key of a call / dirty spelling (`none`: unknown function, or the keygetter raises) - no state involved -/
def callKey (fns : List FnDecl) (c : Spell) : Option Key :=
  match fns[c.fn]? with
  | none => none
  | some d =>
    match d.sig.key (effArgs d c) c.kw with
    | .error _ => none
    | .ok tup => some { tup := tup, th := c.th, fn := c.fn }

/-- the operation is within the part of the statement that holds of the code: every call / dirty() goes to a
    function whose default key is faithful for these arguments (`callOk`) -/
def opOk (fns : List FnDecl) : Op → Bool
  | .call c | .dirty c =>
    match fns[c.fn]? with
    | none => true
    | some d => callOk d.sig (effArgs d c) c.kw
  | _ => true

def histOk (fns : List FnDecl) (ops : List Op) : Bool := ops.all (opOk fns)

/-- the operation does not end the in-flight period of task `t0` under key `k`: it is not a dirty() of that key and
    not the completion of `t0` -/
def calmOp (fns : List FnDecl) (k : Key) (t0 : Nat) : Op → Bool
  | .dirty c => callKey fns c != some k
  | .complete t _ => t != t0
  | _ => true

/-- the in-flight period of task `t0` under key `k` is not ended by the history: no dirty() of that key, no
    completion of `t0` (everything else - calls of any key, dirty() / completions of other keys, scheduling of any
    task including `t0`, ends of threads - is allowed) -/
def calm (fns : List FnDecl) (k : Key) (t0 : Nat) (ops : List Op) : Bool := ops.all (calmOp fns k t0)

/-- the observation is a `start t` answered with a binding: the body of task `t` began to run -/
def isStartOf (t : Nat) (ob : Obs) : Bool :=
  match ob.op, ob.res with
  | .start t', .binding _ => t' == t
  | _, _ => false

/-- how often the body of task `t` began to run in a list of observations -/
def bodyStarts (t : Nat) (obs : List Obs) : Nat := (obs.filter (isStartOf t)).length

/-! ## Part 3: the property C12 as an observer over the observations (no model state, no key tuples) -/

/-- the reference notion of "the same call": function, thread and what the call binds -/
structure RKey where
  fn : Nat
  th : Nat
  b : Binding
  deriving Repr, DecidableEq, Inhabited

structure WTask where
  rk : RKey
  started : Bool    -- its body has started
  running : Bool    -- the body is executing (between start/resume and suspend/completion)
  done : Bool
  out : Option Outc := none   -- the outcome its body ended with (the `complete` operation)
  deriving Repr, DecidableEq, Inhabited

/-- what the observer knows.  `poss` gives, for every call (reference key), the SET of states of its table entry
    that are compatible with everything observed so far: `none` = nothing in flight (never called, completed or
    dirtied), `some t` = task `t` is its in-flight, undirtied task.  A call that is not listed has `[none]`.
    The set is a singleton except after a `dirty()` whose arguments do not bind and that did not raise: the
    statement does not say which entry such a dirty() removes, so for every call of that function on that thread
    "nothing in flight" becomes possible as well - until the next answer to that call tells which it is. -/
structure Watch where
  poss : List (RKey × List (Option Nat))
  info : List WTask           -- every task token seen so far
  seen : List (Nat × Binding) -- (function, binding) of every well-formed call / dirty() so far; used ONLY to name
                              -- the clause of a failure (is it one of the known key conflations?), never to accept
  deriving Repr, DecidableEq, Inhabited

def Watch.init : Watch := { poss := [], info := [], seen := [] }

def pget : List (RKey × List (Option Nat)) → RKey → List (Option Nat)
  | [], _ => [none]
  | (k, P) :: r, x => if k = x then P else pget r x

def pset (m : List (RKey × List (Option Nat))) (x : RKey) (P : List (Option Nat)) : List (RKey × List (Option Nat)) :=
  (x, P) :: m.filter fun e => !decide (e.1 = x)

/-- "nothing in flight" becomes possible for every listed call of function `fn` on thread `th` -/
def ploosen (m : List (RKey × List (Option Nat))) (fn th : Nat) : List (RKey × List (Option Nat)) :=
  m.map fun e => if e.1.fn = fn ∧ e.1.th = th then (e.1, none :: e.2) else e

def wset (w : Watch) (t : Nat) (x : WTask) : Watch := { w with info := w.info.set t x }

/-- the body of task `t` may be executing -/
def Watch.mayRun (w : Watch) (t : Nat) : Bool := ((w.info[t]?).map (·.running)).getD false

/-- a possible state of a table entry whose task may be executing its body -/
def Watch.runningCand (w : Watch) : Option Nat → Bool
  | some t => w.mayRun t
  | none => false

/-- does the failure at a well-formed call of `d` belong to one of the known key conflations?  A conflation needs a
    signature that is open to it and, for two of the three, arguments of a particular form somewhere in the history
    of that function (this call, or an earlier well-formed call / dirty()): a `(name, value)` tuple among the overflow
    positionals / a keyword that has the name of a positional-only parameter.  Otherwise the failure keeps its name. -/
def conflation (d : FnDecl) (w : Watch) (fn : Nat) (b : Binding) : Option String :=
  let bs := b :: ((w.seen.filter fun x => x.1 == fn).map (·.2))
  match d.sig.defect with
  | some "varargs-varkw-pair" => if bs.any (fun x => !noPair x.rest) then some "varargs-varkw-pair" else none
  | some "posonly-varkw" =>
    if bs.any (fun x => x.extra.any fun p => d.sig.poNames.contains p.1) then some "posonly-varkw" else none
  | r => r

/-- one observation.  `.bad` is the model's answer to an operation that makes no sense (unknown function / task, a
    second start, anything after completion); the implementation never produces it, so on the implementation's
    observations every such operation is a failure. -/
def watchStep (fns : List FnDecl) (w : Watch) (ob : Obs) : Except String Watch :=
  let unit (w' : Watch) (e : String) : Except String Watch := if ob.res == .unit then .ok w' else .error e
  let bad (e : String) : Except String Watch := if ob.res == .bad then .ok w else .error e
  match ob.op with
  | .call c =>
    match fns[c.fn]? with
    | none => bad "unknown-function"
    | some d =>
      match d.sig.bind (effArgs d c) c.kw with
      | .error _ =>
        -- not a well-formed call: the statement is silent, but nothing may be created
        match ob.res with
        -- ... and an existing task it is answered with must be an in-flight, undirtied task of THIS function on THIS
        -- thread (the code answers with the task stored under the key it computed from the ill-formed arguments)
        | .ret t new =>
          if new then .error "invalid-call-created"
          else match w.info[t]? with
            | none => .error "token"
            | some x =>
              if x.rk.fn == c.fn && x.rk.th == c.th && !x.done && (pget w.poss x.rk).contains (some t) then .ok w
              else .error "invalid-call-shared"
        | .typeError => .ok w
        | _ => .error "call-result"
      | .ok b =>
        let rk : RKey := { fn := c.fn, th := c.th, b := b }
        let P := pget w.poss rk
        -- name of the failing clause (a failure that is one of the known key conflations carries its name)
        let clause (base : String) : String := (conflation d w c.fn b).getD base
        match ob.res with
        | .ret t false =>
          -- an existing task: it must be the in-flight, undirtied task of this very call
          if P.contains (some t) then .ok { w with poss := pset w.poss rk [some t], seen := (c.fn, b) :: w.seen }
          else .error (clause (if P.all (· == none) then "fresh" else "shared"))
        | .ret t true =>
          if t != w.info.length then .error "token"
          else
            -- a new task: either nothing was in flight for this call (the new task now is its in-flight task), or the
            -- call was issued while the body of the in-flight task may be executing (a private task; the entry stays)
            let P' := (if P.contains none then [some t] else []) ++ P.filter w.runningCand
            if P'.isEmpty then .error (clause "shared")
            else .ok { poss := pset w.poss rk P',
                       info := w.info ++ [{ rk := rk, started := false, running := false, done := false }],
                       seen := (c.fn, b) :: w.seen }
        | _ => .error (clause "valid-call-raised")
  | .dirty c =>
    match fns[c.fn]? with
    | none => bad "unknown-function"
    | some d =>
      match d.sig.bind (effArgs d c) c.kw with
      | .error _ =>
        -- arguments that do not bind: if it raised, nothing has changed; if it did not, it may have removed the
        -- entry of any call of this function on this thread
        match ob.res with
        | .typeError => .ok w
        | .unit => .ok { w with poss := ploosen w.poss c.fn c.th }
        | _ => .error "dirty-result"
      | .ok b =>
        unit { w with poss := pset w.poss { fn := c.fn, th := c.th, b := b } [none], seen := (c.fn, b) :: w.seen } "dirty-raised"
  | .start t =>
    match w.info[t]? with
    | none => bad "unknown-task"
    | some x =>
      if x.done then bad "after-done"
      else if x.started then bad "started-twice"
      else if ob.res == .binding x.rk.b then .ok (wset w t { x with started := true, running := true })
      else .error "binding"
  | .resume t _ =>
    match w.info[t]? with
    | none => bad "unknown-task"
    -- however it is resumed (send or throw), from now on the body is executing: calls it makes are "inside"
    | some x =>
      if x.done then bad "after-done"
      else if !x.started then bad "not-started"
      else unit (wset w t { x with running := true }) "schedule-result"
  | .suspend t =>
    match w.info[t]? with
    | none => bad "unknown-task"
    | some x =>
      if x.done then bad "after-done"
      else if !x.started then bad "not-started"
      else unit (wset w t { x with running := false }) "schedule-result"
  | .complete t o =>
    match w.info[t]? with
    | none => bad "unknown-task"
    | some x =>
      if x.done then bad "completed-twice"
      else
        -- the in-flight period of this call ends only if this task still is its in-flight task: the completion
        -- of an older, dirtied task must NOT end the period of the newer one
        let w' := wset w t { x with running := false, done := true, out := some o }
        unit { w' with poss := pset w.poss x.rk ((pget w.poss x.rk).map fun o => if o = some t then none else o) }
          "schedule-result"
  -- "all callers receive the same value or error": whoever reads task t receives exactly the outcome its body ended
  -- with (nothing before the completion)
  | .await t =>
    match w.info[t]? with
    | none => bad "unknown-task"
    | some x => if ob.res == .got x.out then .ok w else .error "received"
  -- asyncio mode is outside the statement (no task is returned at all); what is judged: the answer is a coroutine and
  -- nothing in flight is touched
  | .aioCall _ => if ob.res == .coro then .ok w else .error "asyncio-mode-result"
  -- the end of a thread ends nothing: the calls it left in flight stay in flight (for that thread token only)
  | .threadEnd _ => unit w "schedule-result"
  -- an event of another feature ends nothing and starts nothing: whatever is in flight stays in flight
  | .outside _ => unit w "outside-result"

/-- what an observation may say about `len(DeduplicateDecorator.tasks)`, given the size after the previous one:
    a call that returns a new task adds at most one entry, a dirty() / completion that returns normally removes
    at most ONE entry, everything else (a call answered with an existing task, anything that raises, scheduling, reads,
    asyncio-mode calls, the end of a thread) leaves the size alone -/
def sizeBound (before : Nat) (ob : Obs) : Bool :=
  match ob.op, ob.res with
  | .call _, .ret _ true => before ≤ ob.size && ob.size ≤ before + 1
  | .dirty _, .unit => ob.size ≤ before && before ≤ ob.size + 1
  | .complete _ _, .unit => ob.size ≤ before && before ≤ ob.size + 1
  | _, _ => ob.size == before

/-- what the observer knows about the table entry of a WELL-FORMED call before the operation: `some true` = certainly
    nothing in flight, `some false` = certainly an in-flight task, `none` = both possible / not a well-formed call -/
def entryKnown (fns : List FnDecl) (w : Watch) (c : Spell) : Option Bool :=
  match fns[c.fn]? with
  | none => none
  | some d =>
    match d.sig.bind (effArgs d c) c.kw with
    | .error _ => none
    | .ok b =>
      let P := pget w.poss { fn := c.fn, th := c.th, b := b }
      if P.all (· == none) then some true else if !P.contains none then some false else none

/-- where the observer KNOWS the state of the entry the size is determined: a new task for a call with nothing in
    flight is stored (+1), a new task for a call whose in-flight task is executing is private (+0), a dirty() of a
    call with nothing in flight removes nothing and one of a call that is in flight removes exactly its entry (-1), the
    completion of a task that still is the in-flight task of its call removes exactly its entry (-1), the completion of
    a dirtied or private task removes nothing -/
def sizeExact (fns : List FnDecl) (w : Watch) (before : Nat) (ob : Obs) : Bool :=
  match ob.op with
  | .call c =>
    match ob.res with
    | .ret _ true =>
      match entryKnown fns w c with
      | some true => ob.size == before + 1
      | some false => ob.size == before
      | none => true
    | _ => true
  | .dirty c =>
    match ob.res with
    | .unit =>
      match entryKnown fns w c with
      | some true => ob.size == before
      | some false => ob.size + 1 == before
      | none => true
    | _ => true
  | .complete t _ =>
    match ob.res with
    | .unit =>
      match w.info[t]? with
      | none => true
      | some x =>
        let P := pget w.poss x.rk
        if P.all (· == some t) then ob.size + 1 == before          -- certainly still the in-flight task of its call: its entry goes
        else if !P.contains (some t) then ob.size == before        -- certainly dirtied / private: no entry of its own to remove
        else true
    | _ => true
  | _ => true

def sizeOk (fns : List FnDecl) (w : Watch) (before : Nat) (ob : Obs) : Bool :=
  sizeBound before ob && sizeExact fns w before ob

/-- the name of a size failure: one of the known key conflations when the operation is a well-formed call / dirty()
    of a function that is open to it (the conflated key makes the table differ from what the bindings say) -/
def sizeClause (fns : List FnDecl) (w : Watch) (ob : Obs) : String :=
  match ob.op with
  | .call c | .dirty c =>
    match fns[c.fn]? with
    | none => "size"
    | some d =>
      match d.sig.bind (effArgs d c) c.kw with
      | .error _ => "size"
      | .ok b => (conflation d w c.fn b).getD "size"
  | _ => "size"

def watchRun (fns : List FnDecl) (w : Watch) (size : Nat) : List Obs → Except String Watch
  | [] => .ok w
  | ob :: obs =>
    match watchStep fns w ob with
    | .ok w' => if sizeOk fns w size ob then watchRun fns w' ob.size obs else .error (sizeClause fns w ob ++ "@" ++ ob.op.name)
    | .error e => .error (e ++ "@" ++ ob.op.name)

/-- `Spec.C12`: the whole history is accepted -/
def spec (fns : List FnDecl) (obs : List Obs) : Bool :=
  match watchRun fns Watch.init 0 obs with
  | .ok _ => true
  | .error _ => false

def specClause (fns : List FnDecl) (obs : List Obs) : String :=
  match watchRun fns Watch.init 0 obs with
  | .ok _ => "ok"
  | .error e => e

/-! ## Part 4: the decoration phase - `deduplicate(keygetter=None)` returns ONE decorator object that may be applied to
    several functions (tools.py:385-431) -/

/-- the keygetter a `DeduplicateDecorator` is constructed with: derived from a signature (the default), or the
    caller's own function (token) -/
inductive KeyFn where
  | ofSig (s : Sig)
  | custom (g : Nat)
  deriving Repr, DecidableEq, Inhabited

/-- a decorator object `deduplicate(keygetter)`: the closure `decorator`; its only cell is the captured `keygetter`
    (`none` = `None`) -/
structure DecoObj where
  captured : Option KeyFn
  deriving Repr, DecidableEq, Inhabited

/-- one application `decorator(fun)` (tools.py:420-431): a LOCAL `_keygetter` is the captured one or, if that is None,
    the default derived from `fun`'s own signature; the cell is not assigned.  Result: the object afterwards and the
    keygetter handed to `DeduplicateDecorator(fun, task_cls, _keygetter)` -/
def DecoObj.apply (o : DecoObj) (s : Sig) : DecoObj × KeyFn :=
  match o.captured with
  | some g => (o, g)
  | none => (o, .ofSig s)

/-- what a keygetter answers for `(args, kwargs)`: the default one is get_args_tuple over the captured names and
    defaults; a caller's own keygetter is not modelled (`.error 0`) -/
def KeyFn.apply : KeyFn → List Nat → List (Nat × Nat) → Except Nat (List KeyElem)
  | .ofSig s, args, kw => s.key args kw
  | .custom _, _, _ => .error 0

/-- a key tuple as the harness reads it off the real keygetter: a list of value tokens (a `(name, value)` element is
    the token of that 2-tuple) -/
def keyOfToks (xs : List Nat) : List KeyElem := xs.map .ofVal

/-- one probe of the decoration phase: the keygetter the REAL decorated function `fn` carries (attribute `keygetter`)
    was applied to `(args, kw)` and answered `ans` (`none` = TypeError) -/
structure KgProbe where
  fn : Nat
  args : List Nat
  kw : List (Nat × Nat)
  ans : Option (List Nat)
  deriving Repr, DecidableEq, Inhabited

/-- does the keygetter `k` explain the probe? -/
def KgProbe.agrees (p : KgProbe) (k : KeyFn) : Bool :=
  match k.apply p.args p.kw, p.ans with
  | .ok tup, some xs => tup == keyOfToks xs
  | .error _, none => true
  | _, _ => false

def setObj (objs : List DecoObj) (i : Nat) (o : DecoObj) : List DecoObj := objs.set i o

/-- the decoration phase of a program: applications `(object index, signature of the decorated function)` in program
    order; `none` = no such object -/
def decorateAll (objs : List DecoObj) : List (Nat × Sig) → List DecoObj × List (Option KeyFn)
  | [] => (objs, [])
  | (i, s) :: r =>
    match objs[i]? with
    | none => let (objs', ks) := decorateAll objs r; (objs', none :: ks)
    | some o =>
      let (o', k) := o.apply s
      let (objs', ks) := decorateAll (setObj objs i o') r
      (objs', some k :: ks)

/-- every object was made by `deduplicate()` / `deduplicate(keygetter=None)` -/
def allDefault (objs : List DecoObj) : Bool := objs.all fun o => o.captured.isNone

/-- the keygetter `step` uses for a function (`d.sig.key`) is the one the decoration phase produced for it -/
def keyFnsAgree (fns : List FnDecl) (ks : List (Option KeyFn)) : Bool :=
  ks == fns.map fun d => some (.ofSig d.sig)

end AsynqModel.Dedup
