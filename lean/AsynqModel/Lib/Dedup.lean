/-
  Model of `deduplicate` (asynq/tools.py: DeduplicateDecoratorBinder, DeduplicateDecorator, deduplicate) and of the
  key normalisation it uses (qcore/caching.py: get_args_tuple, get_kwargs_defaults).

  Argument values, parameter names, instances, threads, functions and tasks are identity tokens (Nat).
  Key equality in the model is equality of value TOKENS (Python `==` on the tuple): two distinct values are two
  different tokens even when their Python hashes collide (-1 / -2, objects sharing a __hash__); the harness
  generates such pairs, so a table keyed by hashes instead of values breaks the correspondence.
  Parameter names are ordered like their tokens (the harness names token i "p<i>", one digit).
  Scheduling is NOT modelled here: when a body starts / is resumed / suspends / completes is an INPUT (an
  operation of the history), exactly as observed on the real scheduler; the model answers what every
  `.asynq()` / `.dirty()` call returns and what the process-wide table `DeduplicateDecorator.tasks` holds.
-/
namespace AsynqModel.Dedup

/-! ## Part 1: signatures, Python call binding, `get_args_tuple` -/

/-- element of a key tuple: a plain argument value, or a `(name, value)` pair appended for a keyword that is
    not a named parameter (caching.py:336-338) -/
inductive KeyElem where
  | v (x : Nat)
  | kw (name val : Nat)
  deriving Repr, DecidableEq, Inhabited

/-- `inspect.getfullargspec(original_fn)`: `args` with their defaults, `kwonlyargs` with `kwonlydefaults`,
    `varargs is not None`, `varkw is not None` -/
structure Sig where
  pos : List (Nat × Option Nat)
  kwonly : List (Nat × Option Nat)
  varargs : Bool
  varkw : Bool
  deriving Repr, DecidableEq, Inhabited

def Sig.posNames (s : Sig) : List Nat := s.pos.map (·.1)
def Sig.kwNames (s : Sig) : List Nat := s.kwonly.map (·.1)

/-- tools.py:420  `arg_names = argspec.args + argspec.kwonlyargs` -/
def Sig.argNames (s : Sig) : List Nat := s.posNames ++ s.kwNames

def optPairs : List (Nat × Option Nat) → List (Nat × Nat)
  | [] => []
  | (n, some d) :: r => (n, d) :: optPairs r
  | (_, none) :: r => optPairs r

/-- caching.py:344-354 `get_kwargs_defaults`: defaults of the trailing positional parameters, then
    `update(kwonlydefaults)` (so a keyword-only default wins on a name clash: it is looked up first) -/
def Sig.defaults (s : Sig) : List (Nat × Nat) := optPairs s.kwonly ++ optPairs s.pos

/-- dict lookup in an association list -/
def alook : List (Nat × Nat) → Nat → Option Nat
  | [], _ => none
  | (k, v) :: r, n => if k = n then some v else alook r n

/-- one iteration of the `while` loop of get_args_tuple (caching.py:330-335); `.error name` = KeyError -/
def fillOne (kw dflt : List (Nat × Nat)) (name : Nat) : Except Nat Nat :=
  match alook dflt name with
  | some d => .ok ((alook kw name).getD d)
  | none =>
    match alook kw name with
    | some x => .ok x
    | none => .error name

def fill (kw dflt : List (Nat × Nat)) : List Nat → Except Nat (List Nat)
  | [] => .ok []
  | n :: ns =>
    match fillOne kw dflt n with
    | .error e => .error e
    | .ok x =>
      match fill kw dflt ns with
      | .error e => .error e
      | .ok xs => .ok (x :: xs)

def insertPair (p : Nat × Nat) : List (Nat × Nat) → List (Nat × Nat)
  | [] => [p]
  | q :: r => if p.1 ≤ q.1 then p :: q :: r else q :: insertPair p r

/-- `sorted(...)` of keyword names (insertion sort; keys of a dict are distinct) -/
def sortPairs : List (Nat × Nat) → List (Nat × Nat)
  | [] => []
  | p :: r => insertPair p (sortPairs r)

/-- keywords that do not name a parameter, as a dict in canonical (sorted) form -/
def extras (kw : List (Nat × Nat)) (names : List Nat) : List (Nat × Nat) :=
  sortPairs (kw.filter fun p => !names.contains p.1)

/-- caching.py:323-341 `get_args_tuple(args, kwargs, arg_names, kwargs_defaults)`;
    `.error name` = `TypeError("Missing argument name")` -/
def getArgsTuple (args : List Nat) (kw : List (Nat × Nat)) (argNames : List Nat) (dflt : List (Nat × Nat)) :
    Except Nat (List KeyElem) :=
  match fill kw dflt (argNames.drop args.length) with
  | .error e => .error e
  | .ok filled =>
    .ok (args.map .v ++ filled.map .v ++ (extras kw argNames).map fun p => .kw p.1 p.2)

/-- the default keygetter of `deduplicate` (tools.py:417-424) -/
def Sig.key (s : Sig) (args : List Nat) (kw : List (Nat × Nat)) : Except Nat (List KeyElem) :=
  getArgsTuple args kw s.argNames s.defaults

/-- what a call binds: the named parameters (positional-or-keyword, then keyword-only) in declaration order,
    `*rest`, `**extra` (canonical form) -/
structure Binding where
  params : List Nat
  rest : List Nat
  extra : List (Nat × Nat)
  deriving Repr, DecidableEq, Inhabited

inductive BindErr where
  | tooMany | multiple | missing (name : Nat) | unexpected
  deriving Repr, DecidableEq, Inhabited

/-- Python's binding of a call `fn(*args, **kw)` to the signature (language semantics - assumed, and compared
    with what the real function body receives on every started task). Every error is a `TypeError`. -/
def Sig.bind (s : Sig) (args : List Nat) (kw : List (Nat × Nat)) : Except BindErr Binding :=
  let n := s.pos.length
  if args.length > n && !s.varargs then .error .tooMany
  else if (s.posNames.take args.length).any (fun nm => (alook kw nm).isSome) then .error .multiple
  else
    match fill kw s.defaults (s.posNames.drop args.length ++ s.kwNames) with
    | .error nm => .error (.missing nm)
    | .ok filled =>
      let ex := extras kw s.argNames
      if !ex.isEmpty && !s.varkw then .error .unexpected
      else .ok { params := args.take n ++ filled, rest := args.drop n, extra := ex }

/-- signatures on which the default key is faithful: not both `*args` and keyword-only parameters -/
def Sig.ok (s : Sig) : Bool := !s.varargs || s.kwonly.isEmpty

/-! ## Part 2: the table `DeduplicateDecorator.tasks` and the operations on it -/

/-- association list used as a dict (distinct keys: `set` erases first) -/
def mget {κ : Type} [DecidableEq κ] : List (κ × Nat) → κ → Option Nat
  | [], _ => none
  | (k, v) :: r, x => if k = x then some v else mget r x

def merase {κ : Type} [DecidableEq κ] (m : List (κ × Nat)) (x : κ) : List (κ × Nat) :=
  m.filter fun p => !decide (p.1 = x)

def mset {κ : Type} [DecidableEq κ] (m : List (κ × Nat)) (x : κ) (t : Nat) : List (κ × Nat) :=
  (x, t) :: merase m x

/-- tools.py:349-350 `cache_key`: `(keygetter(args, kwargs), threading.current_thread(), id(self.fn))` -/
structure Key where
  tup : List KeyElem
  th : Nat
  fn : Nat
  deriving Repr, DecidableEq, Inhabited

inductive FnKind where
  | func      -- module-level function
  | method    -- defined in a class; reached through the binder (`__get__`)
  | static    -- wrapped in `staticmethod`: no binder, no instance
  deriving Repr, DecidableEq, Inhabited

structure FnDecl where
  kind : FnKind
  sig : Sig
  deriving Repr, DecidableEq, Inhabited

/-- how the function is reached: `f`, `C.m` (binder with instance None / plain staticmethod) or `c.m` -/
inductive Recv where
  | none | cls | inst (i : Nat)
  deriving Repr, DecidableEq, Inhabited

/-- one spelling of a call: function, receiver, positional and keyword arguments, calling thread -/
structure Spell where
  fn : Nat
  recv : Recv
  args : List Nat
  kw : List (Nat × Nat)
  th : Nat
  deriving Repr, DecidableEq, Inhabited

/-- DeduplicateDecoratorBinder.dirty (tools.py:333-338) / AsyncDecoratorBinder.asynq (decorators.py:190-195):
    a binder with an instance passes it as first positional argument -/
def effArgs (d : FnDecl) (c : Spell) : List Nat :=
  match d.kind, c.recv with
  | .method, .inst i => i :: c.args
  | _, _ => c.args

inductive Outc where
  | val (v : Nat) | err (e : Nat)
  deriving Repr, DecidableEq, Inhabited

structure Task where
  key : Key               -- the `cache_key` closed over by `callback` (tools.py:366-367)
  b : Binding             -- what the generator function bound when it was called at creation
  reg : Bool              -- stored in the table at creation and subscribed `callback`
  running : Bool          -- AsyncTask.running
  out : Option Outc
  deriving Repr, DecidableEq, Inhabited

structure St where
  tasks : List Task               -- every task created so far; its index is its identity token
  table : List (Key × Nat)        -- DeduplicateDecorator.tasks
  deriving Repr, DecidableEq, Inhabited

def St.init : St := { tasks := [], table := [] }

inductive Op where
  | call (c : Spell)                 -- `<recv>.fn.asynq(*args, **kw)` on thread `th`
  | dirty (c : Spell)                -- `<recv>.fn.dirty(*args, **kw)`
  | start (t : Nat)                  -- first `send(None)` into the generator of task t (body starts)
  | resume (t : Nat) (thrown : Bool) -- later `send(value)` / `throw(error)` (async_task.py:215-223)
  | suspend (t : Nat)                -- the body yields (async_task.py:246-247)
  | complete (t : Nat) (o : Outc)    -- the body returns / raises: `running = False`, set_value/set_error, callbacks
  | threadEnd (th : Nat)             -- the thread with token `th` has finished: its Thread object is never seen again
                                     -- (the OS may hand its ident / name to a LATER thread, which is a different token);
                                     -- nothing in tools.py reacts to it - the entries the thread left behind stay
  deriving Repr, DecidableEq, Inhabited

def Op.name : Op → String
  | .call _ => "call" | .dirty _ => "dirty" | .start _ => "start" | .resume _ _ => "resume"
  | .suspend _ => "suspend" | .complete _ _ => "complete" | .threadEnd _ => "threadEnd"

inductive Res where
  | ret (t : Nat) (new : Bool)   -- the task returned, and whether this call created it
  | typeError
  | unit
  | binding (b : Binding)        -- what the starting body received
  | bad                          -- the operation does not make sense in this state (never observed)
  deriving Repr, DecidableEq, Inhabited

structure Obs where
  op : Op
  res : Res
  size : Nat          -- len(DeduplicateDecorator.tasks) after the operation
  deriving Repr, DecidableEq, Inhabited

/-- `self.fn.asynq(*args, **kwargs)` for a generator function: binds at once (TypeError) or makes a task -/
def create (s : St) (d : FnDecl) (args : List Nat) (kw : List (Nat × Nat)) (key : Key) (reg : Bool) : St × Res :=
  match d.sig.bind args kw with
  | .error _ => (s, .typeError)
  | .ok b =>
    let t := s.tasks.length
    let task : Task := { key := key, b := b, reg := reg, running := false, out := none }
    ({ tasks := s.tasks ++ [task], table := if reg then mset s.table key t else s.table }, .ret t true)

def setTask (s : St) (t : Nat) (x : Task) : St := { s with tasks := s.tasks.set t x }

def step (fns : List FnDecl) (s : St) : Op → St × Res
  | .call c =>
    match fns[c.fn]? with
    | none => (s, .bad)
    | some d =>
      let args := effArgs d c
      -- tools.py:359 cache_key (the keygetter may raise TypeError "Missing argument")
      match d.sig.key args c.kw with
      | .error _ => (s, .typeError)
      | .ok tup =>
        let key : Key := { tup := tup, th := c.th, fn := c.fn }
        match mget s.table key with
        | none => create s d args c.kw key true                     -- tools.py:363-371
        | some t =>
          match s.tasks[t]? with
          | none => (s, .bad)
          | some task =>
            if task.running then create s d args c.kw key false     -- tools.py:373-377
            else (s, .ret t false)                                   -- tools.py:378
  | .dirty c =>
    match fns[c.fn]? with
    | none => (s, .bad)
    | some d =>
      match d.sig.key (effArgs d c) c.kw with
      | .error _ => (s, .typeError)
      | .ok tup => ({ s with table := merase s.table { tup := tup, th := c.th, fn := c.fn } }, .unit)  -- tools.py:380-382
  | .start t =>
    match s.tasks[t]? with
    | none => (s, .bad)
    | some task =>
      if task.out.isSome then (s, .bad)
      else (setTask s t { task with running := true }, .binding task.b)
  | .resume t thrown =>
    match s.tasks[t]? with
    | none => (s, .bad)
    | some task =>
      if task.out.isSome then (s, .bad)
      else if thrown then (s, .unit)                                 -- `throw` path: `running` is not set
      else (setTask s t { task with running := true }, .unit)
  | .suspend t =>
    match s.tasks[t]? with
    | none => (s, .bad)
    | some task =>
      if task.out.isSome then (s, .bad)
      else (setTask s t { task with running := false }, .unit)
  | .complete t o =>
    match s.tasks[t]? with
    | none => (s, .bad)
    | some task =>
      if task.out.isSome then (s, .bad)
      else
        let s' := setTask s t { task with running := false, out := some o }
        -- `callback` removes the entry of the key it closed over only if it still holds THIS task: after dirty()
        -- the key may already belong to a newer in-flight task (tools.py:366-370)
        (if task.reg && mget s'.table task.key == some t then { s' with table := merase s'.table task.key } else s', .unit)
  | .threadEnd _ => (s, .unit)      -- no code runs: the table is process-wide and keyed by the Thread OBJECT

def observe (fns : List FnDecl) (s : St) (op : Op) : St × Obs :=
  let (s', r) := step fns s op
  (s', { op := op, res := r, size := s'.table.length })

def run (fns : List FnDecl) (s : St) : List Op → List Obs
  | [] => []
  | op :: ops => let (s', o) := observe fns s op; o :: run fns s' ops

/-- the state after a history (no observations) -/
def finalState (fns : List FnDecl) (s : St) : List Op → St
  | [] => s
  | op :: ops => finalState fns (step fns s op).1 ops

/-- the table key an operation works on (`none`: the operation does not touch the table at all) -/
def opKey (fns : List FnDecl) (s : St) : Op → Option Key
  | .call c | .dirty c =>
    match fns[c.fn]? with
    | none => none
    | some d =>
      match d.sig.key (effArgs d c) c.kw with
      | .error _ => none
      | .ok tup => some { tup := tup, th := c.th, fn := c.fn }
  | .complete t _ => (s.tasks[t]?).map (·.key)
  | _ => none

/-- no operation of the history works on key `k` -/
def avoids (fns : List FnDecl) (k : Key) (s : St) : List Op → Bool
  | [] => true
  | op :: ops => opKey fns s op != some k && avoids fns k (step fns s op).1 ops

def sigsOk (fns : List FnDecl) : Bool := fns.all fun d => d.sig.ok

/-! ## Part 3: the property C12 as an observer over the observations (no model state, no key tuples) -/

/-- the reference notion of "the same call": function, thread and what the call binds -/
structure RKey where
  fn : Nat
  th : Nat
  b : Binding
  deriving Repr, DecidableEq, Inhabited

structure WTask where
  rk : RKey
  reg : Bool        -- handed out as the shared task of its call (not a private task of a re-entrant call)
  running : Bool    -- the body is executing (between start/resume and suspend/completion)
  done : Bool
  deriving Repr, DecidableEq, Inhabited

structure Watch where
  ref : List (RKey × Nat)     -- the in-flight, undirtied task of every call
  info : List WTask           -- every task token seen so far
  gaveUp : Bool               -- history left the scope of the statement (dirty() with arguments that do not bind)
  deriving Repr, DecidableEq, Inhabited

def Watch.init : Watch := { ref := [], info := [], gaveUp := false }

def wset (w : Watch) (t : Nat) (x : WTask) : Watch := { w with info := w.info.set t x }

def watchStep (fns : List FnDecl) (w : Watch) (ob : Obs) : Except String Watch :=
  if w.gaveUp then .ok w else
  match ob.op with
  | .call c =>
    match fns[c.fn]? with
    | none => .ok w
    | some d =>
      match d.sig.bind (effArgs d c) c.kw with
      | .error _ =>
        -- not a well-formed call: the statement is silent, but nothing may be created
        match ob.res with
        | .ret t new => if new then .error "invalid-call-created" else if t < w.info.length then .ok w else .error "token"
        | .typeError => .ok w
        | _ => .error "call-result"
      | .ok b =>
        let rk : RKey := { fn := c.fn, th := c.th, b := b }
        -- name of the failing clause; on a signature whose default key is known to be unfaithful (open finding:
        -- `*args` together with keyword-only parameters) every failure is attributed to that cause
        let clause (base : String) : String := if !d.sig.ok then "varargs-kwonly" else base
        match mget w.ref rk with
        | some t0 =>
          if ((w.info[t0]?).map (·.running)).getD false then
            -- issued from inside the running body of the in-flight task: only the bookkeeping is constrained
            match ob.res with
            | .ret t true =>
              if t = w.info.length then
                .ok { w with info := w.info ++ [{ rk := rk, reg := false, running := false, done := false }] }
              else .error "token"
            | .ret t false => if t < w.info.length then .ok w else .error "token"
            | .typeError => .ok w
            | _ => .error "call-result"
          else
            -- from outside, while the task of this call is in flight and not dirtied: that very task
            match ob.res with
            | .ret t false => if t = t0 then .ok w else .error (clause "shared")
            | _ => .error (clause "shared")
        | none =>
          -- nothing in flight for this call (never called, completed, or dirtied): a brand-new task
          match ob.res with
          | .ret t true =>
            if t = w.info.length then
              .ok { w with ref := mset w.ref rk t,
                           info := w.info ++ [{ rk := rk, reg := true, running := false, done := false }] }
            else .error "token"
          | .ret _ false => .error (clause "fresh")
          | _ => .error (clause "valid-call-raised")
  | .dirty c =>
    match fns[c.fn]? with
    | none => .ok w
    | some d =>
      match d.sig.bind (effArgs d c) c.kw with
      | .error _ => .ok { w with gaveUp := true }
      | .ok b =>
        if ob.res == .unit then .ok { w with ref := merase w.ref { fn := c.fn, th := c.th, b := b } }
        else .error "dirty-raised"
  | .start t =>
    match w.info[t]? with
    | none => .ok w
    | some x =>
      if x.done then .ok w
      else if ob.res == .binding x.rk.b then .ok (wset w t { x with running := true })
      else .error "binding"
  | .resume t _ =>
    match w.info[t]? with
    | none => .ok w
    -- however it is resumed (send or throw), from now on the body is executing: calls it makes are "inside"
    | some x => if x.done then .ok w else .ok (wset w t { x with running := true })
  | .suspend t =>
    match w.info[t]? with
    | none => .ok w
    | some x => if x.done then .ok w else .ok (wset w t { x with running := false })
  | .complete t _ =>
    match w.info[t]? with
    | none => .ok w
    | some x =>
      if x.done then .ok w
      else
        let w' := wset w t { x with running := false, done := true }
        -- the in-flight period of this call ends only if this task still is its in-flight task: the completion
        -- of an older, dirtied task must NOT end the period of the newer one
        if mget w.ref x.rk == some t then .ok { w' with ref := merase w.ref x.rk } else .ok w'
  -- the end of a thread ends nothing: the calls it left in flight stay in flight (for that thread token only)
  | .threadEnd _ => .ok w

def watchRun (fns : List FnDecl) (w : Watch) : List Obs → Except String Watch
  | [] => .ok w
  | ob :: obs =>
    match watchStep fns w ob with
    | .ok w' => watchRun fns w' obs
    | .error e => .error (e ++ "@" ++ ob.op.name)

/-- `Spec.C12`: the whole history is accepted -/
def spec (fns : List FnDecl) (obs : List Obs) : Bool :=
  match watchRun fns Watch.init obs with
  | .ok _ => true
  | .error _ => false

def specClause (fns : List FnDecl) (obs : List Obs) : String :=
  match watchRun fns Watch.init obs with
  | .ok _ => "ok"
  | .error e => e

end AsynqModel.Dedup
