import AsynqModel.Lib.Contexts
/-
  Second extension of the context-history model (Lib/Contexts.lean): what the plain model cannot express
  (second audit of the core, item 12; round-5 families `composite` / `hookenter`).

  (1) COMPOSITE contexts: a plain context whose resume() / pause() hook itself enters / leaves MEMBER contexts of the same
      task (`member.__enter__()` / `member.__exit__(None, None, None)` issued from INSIDE the hook), so `task._contexts`
      changes while the library walks over it:
        * AsyncTask._pause_contexts walks over a COPY: `for ctx in reversed(list(self._contexts.values()))`
          (async_task.py:401) - every context registered when the suspension began gets its pause(), also one that an
          earlier hook has unregistered meanwhile;
        * AsyncTask._resume_contexts walks over a COPY too: `for ctx in list(self._contexts.values())` (async_task.py:431,
          since /repo commit 28d2b07) - every context registered when the continuation began gets its resume(), also one
          that an earlier resume() hook has unregistered meanwhile (it is resumed although it is no longer the task's: the
          mirror image of the pause loop); the first exception wins.  BEFORE that commit the loop walked over the live
          OrderedDict and a hook (other than the last one) that unregistered a context made the `for` statement itself raise
          RuntimeError("OrderedDict mutated during iteration") out of the scheduler (the finding that led to the repair).
      Who is the active task while a hook runs decides what a hook-issued `__enter__` registers (contexts.py:57-62):
      hooks called by the scheduler (`suspend`, `continue`, `revisit`) run while NO task is active (one top-level task), so a
      member entered there is NOT registered (`_active_task = None`); hooks called by `c.__enter__()` / `c.__exit__()` of the
      running body run with the task active.  In the model this is exactly `St.phase == .running` (the scheduler operations
      set the phase to `suspended` before they call hooks).
      Members are LEAVES: a context that is the target of a hook action has no hook actions itself (`wfH`; the harness
      only builds such context sets), so hook-issued operations are the operations of the plain model.

  (2) `revisit`: a task suspended on SEVERAL batches is visited again by `TaskScheduler._execute` after each flush while it
      is still blocked (wait_for: `_execute(root)`; `_continue_with_batch()`; `_execute(root)` ...): first visit
      `_resume_contexts` (scheduler.py:172 - this time NOT a no-op: the contexts were paused), second visit
      `_pause_contexts` (scheduler.py:166); no code of the task runs in between.  So one suspension on two batches gives
      R P flush R P flush R.
-/
namespace AsynqModel.Contexts

/-- an operation issued from inside a hook -/
inductive HAct where
  | enter (m : Nat)      -- `member.__enter__()`
  | exit (m : Nat)       -- `member.__exit__(None, None, None)`
  deriving Repr, DecidableEq, Inhabited

/-- the hook scripts of one (plain) context: executed after the hook has recorded its call and unless the scripted raise
    of this call fires; an exception of an action leaves the hook at once (it IS what the hook raises) -/
structure HDef where
  onR : List HAct := []
  onP : List HAct := []
  deriving Repr, DecidableEq, Inhabited

abbrev HDefs := List HDef

def hdefOf (hd : HDefs) (c : Nat) : HDef := hd.getD c {}

def HAct.target : HAct → Nat
  | .enter m => m
  | .exit m => m

def targets (hd : HDefs) : List Nat := hd.flatMap fun h => (h.onR ++ h.onP).map HAct.target

/-- members are leaves: no target of a hook action has hook actions of its own; only plain contexts have scripts -/
def wfH (defs : List Kind) (hd : HDefs) : Bool :=
  (targets hd).all (fun m => hdefOf hd m == {}) &&
  (List.range hd.length).all (fun c => hdefOf hd c == {} || isPlain defs c)

inductive HOp where
  | base (op : Op)
  | revisit
  deriving Repr, DecidableEq, Inhabited

def escToOpt : Esc → Option Exc
  | .exc e => some e
  | _ => none

/-- one hook-issued operation: the plain `__enter__` / `__exit__` of the member (a leaf) -/
def memberOp (cfg : Cfg) (defs : List Kind) (s : St) (a : HAct) : St × List Call × Option Exc :=
  match a with
  | .enter m =>
    if m < defs.length then
      match enterOp cfg defs s m with
      | (s', cl, esc) => (s', cl, escToOpt esc)
    else (s, [], none)
  | .exit m =>
    if m < defs.length then
      match exitOp cfg defs s m with
      | (s', cl, esc) => (s', cl, escToOpt esc)
    else (s, [], none)

/-- the actions of a hook, in order, up to the first one that raises -/
def runActs (cfg : Cfg) (defs : List Kind) : List HAct → St → List Call → St × List Call × Option Exc
  | [], s, calls => (s, calls, none)
  | a :: rest, s, calls =>
    match memberOp cfg defs s a with
    | (s', cl, some e) => (s', calls ++ cl, some e)
    | (s', cl, none) => runActs cfg defs rest s' (calls ++ cl)

/-- `ctx.resume()` of a context with hook actions -/
def resumeCtxH (cfg : Cfg) (defs : List Kind) (hd : HDefs) (s : St) (c : Nat) : St × List Call × Option Exc :=
  match resumeCtx defs s c with
  | (s1, cl, some e) => (s1, cl, some e)
  | (s1, cl, none) => runActs cfg defs (hdefOf hd c).onR s1 cl

/-- `ctx.pause()` of a context with hook actions -/
def pauseCtxH (cfg : Cfg) (defs : List Kind) (hd : HDefs) (s : St) (c : Nat) : St × List Call × Option Exc :=
  match pauseCtx defs s c with
  | (s1, cl, some e) => (s1, cl, some e)
  | (s1, cl, none) => runActs cfg defs (hdefOf hd c).onP s1 cl

/-- `_pause_contexts`: the loop over the COPY `reversed(list(self._contexts.values()))` -/
def pauseLoopH (cfg : Cfg) (defs : List Kind) (hd : HDefs) : List Nat → St → List Call → Option Exc → St × List Call × Option Exc
  | [], s, calls, err => (s, calls, err)
  | c :: rest, s, calls, err =>
    match pauseCtxH cfg defs hd s c with
    | (s', cl, e) => pauseLoopH cfg defs hd rest s' (calls ++ cl) (keepLast e err)

/-- `_resume_contexts`: the loop over the COPY `list(self._contexts.values())`; the FIRST exception is kept -/
def resumeLoopH (cfg : Cfg) (defs : List Kind) (hd : HDefs) : List Nat → St → List Call → Option Exc → St × List Call × Option Exc
  | [], s, calls, err => (s, calls, err)
  | c :: rest, s, calls, err =>
    match resumeCtxH cfg defs hd s c with
    | (s', cl, e) => resumeLoopH cfg defs hd rest s' (calls ++ cl) (keepFirst err e)

def pauseContextsH (cfg : Cfg) (defs : List Kind) (hd : HDefs) (s : St) : St × List Call :=
  if !s.active then (s, []) else
    match pauseLoopH cfg defs hd s.reg.reverse { s with active := false } [] none with
    | (s', calls, some e) => (acceptError s' e, calls)
    | (s', calls, none) => (s', calls)

def resumeContextsH (cfg : Cfg) (defs : List Kind) (hd : HDefs) (s : St) : St × List Call :=
  if s.active then (s, []) else
    match resumeLoopH cfg defs hd s.reg { s with active := true } [] none with
    | (s', calls, some e) => (acceptError s' e, calls)
    | (s', calls, none) => (s', calls)

def enterOpH (cfg : Cfg) (defs : List Kind) (hd : HDefs) (s : St) (c : Nat) : St × List Call × Esc :=
  if !isAsyncCtx (kindOf defs c) then (enterS1 s c, [], .none)
  else afterResume cfg (s.phase == .running) (resumeCtxH cfg defs hd (enterS1 s c) c) c

def exitOpH (cfg : Cfg) (defs : List Kind) (hd : HDefs) (s : St) (c : Nat) : St × List Call × Esc :=
  let k := kindOf defs c
  let attr := match (getC s.cs c).attr with
    | .absent => if cfg.typed && isAsyncCtx k then Attr.noTask else Attr.absent
    | a => a
  match attr with
  | .absent => (s, [], .exc .attrError)
  | .task =>
    if !s.reg.contains c then (s, [], .exc .keyError)
    else
      let s1 : St := { s with reg := s.reg.erase c }
      if !isAsyncCtx k then (s1, [], .none)
      else if s1.active then
        match pauseCtxH cfg defs hd s1 c with
        | (s2, calls, none) => (delAttr s2 c, calls, .none)
        | (s2, calls, some e) => (s2, calls, .exc e)
      else (delAttr s1 c, [], .none)
  | .noTask =>
    if !isAsyncCtx k then (s, [], .none)
    else
      match pauseCtxH cfg defs hd s c with
      | (s2, calls, none) => (delAttr s2 c, calls, .none)
      | (s2, calls, some e) => (s2, calls, .exc e)

def stepCoreH (cfg : Cfg) (defs : List Kind) (hd : HDefs) (s : St) (op : HOp) : St × List Call × Esc :=
  match op with
  | .base (.enter c) => if c < defs.length then enterOpH cfg defs hd s c else (s, [], .skip)
  | .base (.exit c) => if c < defs.length then exitOpH cfg defs hd s c else (s, [], .skip)
  | .base .suspend =>
    if s.phase != .running then (s, [], .skip) else
      match resumeContextsH cfg defs hd { s with phase := .suspended } with
      | (s1, c1) => match pauseContextsH cfg defs hd s1 with
        | (s2, c2) => (s2, c1 ++ c2, .none)
  | .base .continue_ =>
    if s.phase != .suspended then (s, [], .skip) else
      match resumeContextsH cfg defs hd s with
      | (s1, calls) => ((if s1.status != .none then s1 else { s1 with phase := .running }), calls, .none)
  | .base (.finish ok) =>
    if s.phase != .running then (s, [], .skip) else
      ({ s with status := if ok then .ok else .err .taskError, phase := .done }, [], .none)
  | .revisit =>
    if s.phase != .suspended then (s, [], .skip) else
      -- scheduler._handle_async_task on a task that is still blocked: first visit `_resume_contexts`, (its dependencies
      -- are pushed and popped again), second visit `_pause_contexts` - unless the resume failed the task: a computed task
      -- is just popped
      match resumeContextsH cfg defs hd s with
      | (s1, c1) =>
        if s1.status != .none then (s1, c1, .none) else
          match pauseContextsH cfg defs hd s1 with
          | (s2, c2) => (s2, c1 ++ c2, .none)

/-- an observation of the extended model: the `Obs` of the plain model (`revisit` has no `Op`: it is reported as the
    pair of fields below) -/
structure ObsH where
  op : HOp
  calls : List Call
  esc : Esc
  vals : List Nat
  status : Status
  deriving Repr, DecidableEq, Inhabited

def stepH (cfg : Cfg) (defs : List Kind) (hd : HDefs) (s : St) (op : HOp) : St × ObsH :=
  match stepCoreH cfg defs hd s op with
  | (s', calls, esc) => (s', { op := op, calls := calls, esc := esc, vals := s'.vals, status := s'.status })

def runH (cfg : Cfg) (defs : List Kind) (hd : HDefs) (s : St) : List HOp → List ObsH
  | [] => []
  | op :: ops => (stepH cfg defs hd s op).2 :: runH cfg defs hd (stepH cfg defs hd s op).1 ops

def finalStateH (cfg : Cfg) (defs : List Kind) (hd : HDefs) (s : St) : List HOp → St
  | [] => s
  | op :: ops => finalStateH cfg defs hd (stepH cfg defs hd s op).1 ops

/-- the observation of the plain model behind an observation of a base operation -/
def ObsH.toObs (o : ObsH) : Option Obs :=
  match o.op with
  | .base op => some { op := op, calls := o.calls, esc := o.esc, vals := o.vals, status := o.status }
  | .revisit => none

def Obs.toH (o : Obs) : ObsH := { op := .base o.op, calls := o.calls, esc := o.esc, vals := o.vals, status := o.status }

/-! ## what is judged on the observations of a history with hooks (C08 part, as `specW`): a scheduler operation
    (suspend / continue / revisit) never lets an exception out - whatever the hooks do -/

def isSchedOpH : HOp → Bool
  | .base .suspend | .base .continue_ | .revisit => true
  | _ => false

def escapesH (ob : ObsH) : Bool :=
  isSchedOpH ob.op && (match ob.esc with | .exc _ => true | _ => false)

def opNameH : HOp → String
  | .base op => opName op
  | .revisit => "revisit"

def specH (obs : List ObsH) : Bool := obs.all fun ob => !escapesH ob

def specClauseH (obs : List ObsH) : String :=
  match obs.find? escapesH with
  | some ob => "hook-error-escapes-scheduler@" ++ opNameH ob.op
  | none => "ok"

/-- no resume() script leaves a context (before /repo commit 28d2b07 this was what kept `_resume_contexts`, which walked over
    the live dict, from raising RuntimeError; kept for the record and for the generator's statistics) -/
def HAct.isEnter : HAct → Bool
  | .enter _ => true
  | .exit _ => false

def noExitOnResume (hd : HDefs) : Bool := hd.all fun h => h.onR.all HAct.isEnter

end AsynqModel.Contexts
