/-
  Model of the per-task context bookkeeping of asynq: asynq/contexts.py (AsyncContext, NonAsyncContext, enter_context,
  leave_context), asynq/scoped_value.py (_AsyncScopedValueOverrideContext) and the context part of asynq/async_task.py
  (`_contexts`, `_contexts_active`, `_enter_context`, `_leave_context`, `_pause_contexts`, `_resume_contexts`,
  `_accept_error`) together with the places of asynq/scheduler.py that call them (`_handle_async_task`,
  `_continue_with_task`).

  ONE task, a fixed list of contexts (identified by their index), and a HISTORY of operations in ANY order
      enter c | exit c | suspend | continue | finish ok/error
  (`enter`/`exit` = `c.__enter__()` / `c.__exit__(None, None, None)`, so blocks may overlap without being nested).
  The task is `running` (its body executes: it is the scheduler's active task), `suspended` (it yielded something that
  needs a flush: no task is active; the operations of the history are executed by the flush body) or `done` (computed;
  the operations are executed at top level).  Exceptions are identity tokens.
-/
namespace AsynqModel.Contexts

/-- the kinds of contexts; the hooks of a `plain` context raise at the listed call numbers (1-based, per hook) -/
inductive Kind where
  | plain (rRaise pRaise : List Nat)   -- user subclass of AsyncContext
  | ov (var val : Nat)                 -- AsyncScopedValue.override(val) of variable `var`
  | na                                 -- user subclass of NonAsyncContext
  deriving Repr, DecidableEq, Inhabited

inductive Exc where
  | hookR (c : Nat)     -- the exception object raised by resume() of context c
  | hookP (c : Nat)     -- the exception object raised by pause() of context c
  | assertion           -- AssertionError of NonAsyncContext.pause/resume
  | attrError           -- AttributeError: `self._active_task` of a context that is not entered
  | keyError            -- KeyError: `del self._contexts[id(context)]` of a context that is not registered
  | taskError           -- the exception the task body itself raises (`finish error`)
  | other
  deriving Repr, DecidableEq, Inhabited

/-- a pause()/resume() call on a plain context: (is it resume, context, did the call raise) -/
structure Call where
  isR : Bool
  c : Nat
  raised : Bool
  deriving Repr, DecidableEq, Inhabited

inductive Op where
  | enter (c : Nat)
  | exit (c : Nat)
  | suspend
  | continue_
  | finish (ok : Bool)
  deriving Repr, DecidableEq, Inhabited

/-- what escapes from an operation -/
inductive Esc where
  | none
  | skip                -- the operation makes no sense in this phase and was not executed
  | exc (e : Exc)
  deriving Repr, DecidableEq, Inhabited

/-- the attribute `context._active_task`: missing, the task, or None -/
inductive Attr where
  | absent | task | noTask
  deriving Repr, DecidableEq, Inhabited

structure CtxSt where
  attr : Attr := .absent
  nR : Nat := 0           -- resume() calls so far (plain)
  nP : Nat := 0           -- pause() calls so far (plain)
  old : Nat := 0          -- `_old_value` (override); 0 = None
  deriving Repr, DecidableEq, Inhabited

inductive Phase where
  | running | suspended | done
  deriving Repr, DecidableEq, Inhabited

inductive Status where
  | none | ok | err (e : Exc)
  deriving Repr, DecidableEq, Inhabited

structure Cfg where
  /-- compiled build: `AsyncContext._active_task` is a typed slot (contexts.pxd): reading it never fails (None), `del` stores None -/
  typed : Bool := false
  /-- `AsyncContext.__enter__` unregisters the context again when its resume() raises (contexts.py since /repo commit cfff886;
      `false` = the code before that repair, kept for the counterexamples) -/
  cleanEnter : Bool := false
  deriving Repr, DecidableEq, Inhabited

structure St where
  cs : List CtxSt          -- per context
  reg : List Nat           -- keys of `task._contexts` (an OrderedDict) in order
  active : Bool            -- `task._contexts_active`
  phase : Phase
  status : Status          -- is the task computed, and how
  vals : List Nat          -- the scoped variables
  deriving Repr, DecidableEq, Inhabited

structure Obs where
  op : Op
  calls : List Call
  esc : Esc
  vals : List Nat
  status : Status
  deriving Repr, DecidableEq, Inhabited

def upd {α : Type} : List α → Nat → (α → α) → List α
  | [], _, _ => []
  | x :: xs, 0, f => f x :: xs
  | x :: xs, n + 1, f => x :: upd xs n f

def kindOf (defs : List Kind) (c : Nat) : Kind := defs.getD c .na
def getC (cs : List CtxSt) (c : Nat) : CtxSt := cs.getD c {}
def getV (vals : List Nat) (x : Nat) : Nat := vals.getD x 0
def outer (x : Nat) : Nat := 100 + x

def init (defs : List Kind) (nvars : Nat) : St :=
  { cs := defs.map fun _ => {}, reg := [],
    active := true,        -- `_continue_with_task` called `_resume_contexts` (no contexts yet) before the body started
    phase := .running, status := .none, vals := (List.range nvars).map outer }

/-- `ctx.resume()` : Plain.resume (harness), _AsyncScopedValueOverrideContext.resume, NonAsyncContext.resume -/
def resumeCtx (defs : List Kind) (s : St) (c : Nat) : St × List Call × Option Exc :=
  match kindOf defs c with
  | .plain rr _ =>
    let n := (getC s.cs c).nR + 1
    ({ s with cs := upd s.cs c fun k => { k with nR := n } }, [⟨true, c, rr.contains n⟩],
      if rr.contains n then some (.hookR c) else none)
  | .ov x v =>
    ({ s with cs := upd s.cs c (fun k => { k with old := getV s.vals x }), vals := upd s.vals x fun _ => v }, [], none)
  | .na => (s, [], some .assertion)

/-- `ctx.pause()` -/
def pauseCtx (defs : List Kind) (s : St) (c : Nat) : St × List Call × Option Exc :=
  match kindOf defs c with
  | .plain _ pr =>
    let n := (getC s.cs c).nP + 1
    ({ s with cs := upd s.cs c fun k => { k with nP := n } }, [⟨false, c, pr.contains n⟩],
      if pr.contains n then some (.hookP c) else none)
  | .ov x _ => ({ s with vals := upd s.vals x fun _ => (getC s.cs c).old }, [], none)
  | .na => (s, [], some .assertion)

/-- AsyncTask._accept_error: a computed task keeps its outcome, otherwise the task is failed (and its generator closed) -/
def acceptError (s : St) (e : Exc) : St :=
  if s.status != .none then s else { s with status := .err e, phase := .done }

/-- `_pause_contexts` keeps the LAST exception: `error = e` -/
def keepLast (e err : Option Exc) : Option Exc :=
  match e with
  | some x => some x
  | none => err

/-- `_resume_contexts` keeps the FIRST exception: `if error is None: error = e` -/
def keepFirst (err e : Option Exc) : Option Exc :=
  match err with
  | some x => some x
  | none => e

/-- the loop of `_pause_contexts`: every context gets its pause(), the LAST exception is kept -/
def pauseLoop (defs : List Kind) : List Nat → St → List Call → Option Exc → St × List Call × Option Exc
  | [], s, calls, err => (s, calls, err)
  | c :: rest, s, calls, err =>
    match pauseCtx defs s c with
    | (s', cl, e) => pauseLoop defs rest s' (calls ++ cl) (keepLast e err)

/-- the loop of `_resume_contexts`: every context gets its resume(), the FIRST exception is kept -/
def resumeLoop (defs : List Kind) : List Nat → St → List Call → Option Exc → St × List Call × Option Exc
  | [], s, calls, err => (s, calls, err)
  | c :: rest, s, calls, err =>
    match resumeCtx defs s c with
    | (s', cl, e) => resumeLoop defs rest s' (calls ++ cl) (keepFirst err e)

/-- AsyncTask._pause_contexts (async_task.py:391-407) -/
def pauseContexts (defs : List Kind) (s : St) : St × List Call :=
  if !s.active then (s, []) else
    match pauseLoop defs s.reg.reverse { s with active := false } [] none with
    | (s', calls, some e) => (acceptError s' e, calls)
    | (s', calls, none) => (s', calls)

/-- AsyncTask._resume_contexts (async_task.py:409-424) -/
def resumeContexts (defs : List Kind) (s : St) : St × List Call :=
  if s.active then (s, []) else
    match resumeLoop defs s.reg { s with active := true } [] none with
    | (s', calls, some e) => (acceptError s' e, calls)
    | (s', calls, none) => (s', calls)

def isAsyncCtx : Kind → Bool
  | .na => false
  | _ => true

/-- `del self._active_task` -/
def delAttr (s : St) (c : Nat) : St := { s with cs := upd s.cs c fun k => { k with attr := .absent } }

/-- `enter_context(context)` (contexts.py:57-62) + `AsyncTask._enter_context` (async_task.py:381-384): the context is registered with the ACTIVE task (the task iff
    its body is running; `_active_task` is None otherwise); an OrderedDict keeps the place of an existing key -/
def enterS1 (s : St) (c : Nat) : St :=
  { s with
    cs := upd s.cs c fun k => { k with attr := if s.phase == .running then .task else .noTask },
    reg := if (s.phase == .running) && !s.reg.contains c then s.reg ++ [c] else s.reg }

/-- AsyncContext.__enter__ after the `self.resume()` call: an exception escapes; the context stays registered (unless
    `cleanEnter`: then `leave_context` + `del self._active_task` run first) -/
def afterResume (cfg : Cfg) (run : Bool) (r : St × List Call × Option Exc) (c : Nat) : St × List Call × Esc :=
  match r with
  | (s2, calls, none) => (s2, calls, .none)
  | (s2, calls, some e) =>
    if cfg.cleanEnter then (delAttr { s2 with reg := if run then s2.reg.erase c else s2.reg } c, calls, .exc e)
    else (s2, calls, .exc e)

/-- `c.__enter__()`: contexts.py:36-38 (NonAsyncContext), 86-91 (AsyncContext) -/
def enterOp (cfg : Cfg) (defs : List Kind) (s : St) (c : Nat) : St × List Call × Esc :=
  if !isAsyncCtx (kindOf defs c) then (enterS1 s c, [], .none)
  else afterResume cfg (s.phase == .running) (resumeCtx defs (enterS1 s c) c) c

/-- `c.__exit__(None, None, None)`: contexts.py:40-42 (NonAsyncContext), 93-104 (AsyncContext), leave_context (65-67),
    AsyncTask._leave_context -/
def exitOp (cfg : Cfg) (defs : List Kind) (s : St) (c : Nat) : St × List Call × Esc :=
  let k := kindOf defs c
  let attr := match (getC s.cs c).attr with
    | .absent => if cfg.typed && isAsyncCtx k then Attr.noTask else Attr.absent
    | a => a
  match attr with
  | .absent => (s, [], .exc .attrError)                          -- `self._active_task`
  | .task =>
    if !s.reg.contains c then (s, [], .exc .keyError)            -- `del self._contexts[id(context)]`
    else
      let s1 : St := { s with reg := s.reg.erase c }
      if !isAsyncCtx k then (s1, [], .none)
      else if s1.active then                                     -- `active_task._contexts_active`
        match pauseCtx defs s1 c with
        | (s2, calls, none) => (delAttr s2 c, calls, .none)
        | (s2, calls, some e) => (s2, calls, .exc e)              -- `del self._active_task` is not reached
      else (delAttr s1 c, [], .none)                              -- already paused with the task: no second pause
  | .noTask =>
    if !isAsyncCtx k then (s, [], .none)
    else
      match pauseCtx defs s c with
      | (s2, calls, none) => (delAttr s2 c, calls, .none)
      | (s2, calls, some e) => (s2, calls, .exc e)

/-- one operation of the history: new state, calls on plain contexts, what escapes -/
def stepCore (cfg : Cfg) (defs : List Kind) (s : St) (op : Op) : St × List Call × Esc :=
  match op with
  | .enter c => if c < defs.length then enterOp cfg defs s c else (s, [], .skip)
  | .exit c => if c < defs.length then exitOp cfg defs s c else (s, [], .skip)
  | .suspend =>
    if s.phase != .running then (s, [], .skip) else
      -- the task yielded a batch item: scheduler._handle_async_task, first visit (`_resume_contexts`, scheduler.py:172, a
      -- no-op here) and second visit (`_pause_contexts`, scheduler.py:166)
      match resumeContexts defs { s with phase := .suspended } with
      | (s1, c1) => match pauseContexts defs s1 with
        | (s2, c2) => (s2, c1 ++ c2, .none)
  | .continue_ =>
    if s.phase != .suspended then (s, [], .skip) else
      -- scheduler._continue_with_task (scheduler.py:188-194): `_resume_contexts`, then (unless that failed the task) the
      -- body goes on
      match resumeContexts defs s with
      | (s1, calls) => ((if s1.status != .none then s1 else { s1 with phase := .running }), calls, .none)
  | .finish ok =>
    if s.phase != .running then (s, [], .skip) else
      -- the body returns / raises: _queue_exit / _accept_error; nothing is done to the contexts that are still open
      ({ s with status := if ok then .ok else .err .taskError, phase := .done }, [], .none)

def step (cfg : Cfg) (defs : List Kind) (s : St) (op : Op) : St × Obs :=
  match stepCore cfg defs s op with
  | (s', calls, esc) => (s', { op := op, calls := calls, esc := esc, vals := s'.vals, status := s'.status })

def run (cfg : Cfg) (defs : List Kind) (s : St) : List Op → List Obs
  | [] => []
  | op :: ops => (step cfg defs s op).2 :: run cfg defs (step cfg defs s op).1 ops

def finalState (cfg : Cfg) (defs : List Kind) (s : St) : List Op → St
  | [] => s
  | op :: ops => finalState cfg defs (step cfg defs s op).1 ops

/-- contexts.py BEFORE /repo commit cfff886: `AsyncContext.__enter__` left the context registered when its resume() raised -/
def leakyCfg (typed : Bool) : Cfg := { typed := typed, cleanEnter := false }

/-- contexts.py as it is (since cfff886): `__enter__` unregisters the context when resume() raises -/
def repairedCfg (typed : Bool) : Cfg := { typed := typed, cleanEnter := true }

/-- the configuration the driver replays - it MUST describe the code in /repo (the harness supplies `typed`):
    `repairedCfg` since the repair of contexts.py (cfff886); `leakyCfg` described the code before it -/
def codeCfg (typed : Bool) : Cfg := repairedCfg typed

/-! ## the property: an observer over observations, in the vocabulary of the USER of the contexts

  The observer knows which blocks are open (in entry order, and whether they were entered by the running task), whether
  the task's blocks are currently resumed, and the stack of active overrides.  It checks every observation against
  that picture.  It stops making claims at the first MISUSE (entering a block that is open, leaving a block that is not
  open) and stops making claims about VALUES at the first pause of an override that is not the innermost active override of
  its variable (save/restore contexts only compose last-in-first-out - in synchronous code just as well).  -/

structure W where
  phase : Phase := .running
  act : Bool := true                 -- the blocks the task entered are resumed
  status : Status := .none
  opened : List (Nat × Bool) := []   -- open blocks in entry order; flag: entered while the task was running (task-scoped)
  stk : List Nat := []               -- active overrides, the most recently activated first
  valsOff : Bool := false            -- a non-LIFO pause of an override happened: no more claims about values
  stopped : Bool := false            -- misuse happened: no more claims at all
  deriving Repr, DecidableEq, Inhabited

def isOpen (w : W) (c : Nat) : Bool := w.opened.any (·.1 == c)
def ownedOpen (w : W) (c : Nat) : Bool := w.opened.any (fun p => p.1 == c && p.2)
def closeCtx (w : W) (c : Nat) : W := { w with opened := w.opened.filter (·.1 != c) }

def varOf (defs : List Kind) (c : Nat) : Option Nat :=
  match kindOf defs c with
  | .ov x _ => some x
  | _ => none

def valOf (defs : List Kind) (c : Nat) : Nat :=
  match kindOf defs c with
  | .ov _ v => v
  | _ => 0

def isPlain (defs : List Kind) (c : Nat) : Bool :=
  match kindOf defs c with
  | .plain _ _ => true
  | _ => false

/-- the active overrides of variable x, innermost first -/
def stackOf (defs : List Kind) (stk : List Nat) (x : Nat) : List Nat := stk.filter fun c => varOf defs c == some x

/-- what a read of variable x must give: the value of its innermost active override, else its outer value -/
def expectedVal (defs : List Kind) (stk : List Nat) (x : Nat) : Nat :=
  match stackOf defs stk x with
  | c :: _ => valOf defs c
  | [] => outer x

def expectedVals (defs : List Kind) (stk : List Nat) (nvars : Nat) : List Nat :=
  (List.range nvars).map (expectedVal defs stk)

/-- an override is activated -/
def pushOv (defs : List Kind) (w : W) (c : Nat) : W :=
  match varOf defs c with
  | some _ => { w with stk := c :: w.stk }
  | none => w

/-- an override is deactivated: fine if it is the innermost active one of its variable -/
def popOv (defs : List Kind) (w : W) (c : Nat) : W :=
  match varOf defs c with
  | some x =>
    if (stackOf defs w.stk x).head? == some c then { w with stk := w.stk.filter (· != c) }
    else { w with stk := w.stk.filter (· != c), valsOff := true }
  | none => w

/-- a call without its `raised` flag: (is it resume, context) -/
def unflag (cl : Call) : Bool × Nat := (cl.isR, cl.c)

def hookExc (isR : Bool) (c : Nat) : Exc := if isR then .hookR c else .hookP c

/-- walk the contexts that must get a hook call (in the order in which they must get it) along the observed calls on
    plain contexts: every plain one must be the next observed call; returns what each of the hook calls raised
    (overrides never raise, a NonAsyncContext always raises AssertionError) -/
def walk (defs : List Kind) (isR : Bool) : List Nat → List Call → Option (List (Option Exc))
  | [], [] => some []
  | [], _ :: _ => none
  | c :: ts, calls =>
    match kindOf defs c with
    | .plain _ _ =>
      match calls with
      | cl :: rest =>
        if cl.isR == isR && cl.c == c then
          (walk defs isR ts rest).map fun es => (if cl.raised then some (hookExc isR c) else none) :: es
        else none
      | [] => none
    | .ov _ _ => (walk defs isR ts calls).map (none :: ·)
    | .na => (walk defs isR ts calls).map (some .assertion :: ·)

/-- the last exception of a sequence of hook calls (`_pause_contexts` keeps the last one) -/
def lastSome {α : Type} : List (Option α) → Option α
  | [] => none
  | x :: xs => match lastSome xs with
    | some y => some y
    | none => x

/-- the first exception of a sequence of hook calls (`_resume_contexts` keeps the first one) -/
def firstSome {α : Type} : List (Option α) → Option α
  | [] => none
  | some x :: _ => some x
  | none :: xs => firstSome xs

/-- the checks common to all operations: the task's outcome and the values of the variables -/
def common (defs : List Kind) (nvars : Nat) (w : W) (ob : Obs) : Except String W :=
  if ob.status != w.status then .error "task-outcome"
  else if !w.valsOff && ob.vals != expectedVals defs w.stk nvars then .error "scoped-value"
  else .ok w

def failWith (w : W) (e : Option Exc) (okPhase : Phase) : W :=
  match e with
  | some x => { w with status := .err x, phase := .done }
  | none => { w with phase := okPhase }

/-- an operation that makes no sense in the current phase: not executed, nothing happens -/
def watchSkip (defs : List Kind) (nvars : Nat) (w : W) (ob : Obs) : Except String W :=
  if ob.esc == .skip && ob.calls.isEmpty then common defs nvars w ob else .error "skip"

def openCtx (w : W) (c : Nat) : W := { w with opened := w.opened ++ [(c, w.phase == .running)] }

/-- `enter c` of a block that is not open: an AsyncContext gets exactly one resume(); if that raises, the exception
    escapes and the block is NOT entered; the block is task-scoped iff the task is running -/
def watchEnter (defs : List Kind) (nvars : Nat) (w : W) (c : Nat) (ob : Obs) : Except String W :=
  match kindOf defs c with
  | .na =>
    if ob.calls.isEmpty && ob.esc == .none then common defs nvars (openCtx w c) ob else .error "enter-resumes-once"
  | .ov _ _ =>
    if ob.calls.isEmpty && ob.esc == .none then common defs nvars (pushOv defs (openCtx w c) c) ob
    else .error "enter-resumes-once"
  | .plain _ _ =>
    match ob.calls with
    | [cl] =>
      if !(cl.isR && cl.c == c) then .error "enter-resumes-once"
      else if cl.raised then
        (if ob.esc == .exc (.hookR c) then common defs nvars w ob else .error "enter-resumes-once")
      else if ob.esc == .none then common defs nvars (openCtx w c) ob
      else .error "enter-resumes-once"
    | _ => .error "enter-resumes-once"

/-- `exit c` of an open block: it gets exactly one pause() - unless it is task-scoped and the task's blocks are
    paused already (the task is suspended, or was failed while suspended): then none; a raising pause() escapes -/
def watchExit (defs : List Kind) (nvars : Nat) (w : W) (c : Nat) (ob : Obs) : Except String W :=
  let resumed := !ownedOpen w c || w.act
  let w1 := closeCtx w c
  match kindOf defs c with
  | .na => if ob.calls.isEmpty && ob.esc == .none then common defs nvars w1 ob else .error "exit-pauses-iff-resumed"
  | .ov _ _ =>
    if ob.calls.isEmpty && ob.esc == .none then common defs nvars (if resumed then popOv defs w1 c else w1) ob
    else .error "exit-pauses-iff-resumed"
  | .plain _ _ =>
    if !resumed then (if ob.calls.isEmpty && ob.esc == .none then common defs nvars w1 ob else .error "exit-pauses-iff-resumed")
    else match ob.calls with
      | [cl] =>
        if !(!cl.isR && cl.c == c) then .error "exit-pauses-iff-resumed"
        else if ob.esc != (if cl.raised then .exc (.hookP c) else .none) then .error "exit-pauses-iff-resumed"
        else common defs nvars w1 ob
      | _ => .error "exit-pauses-iff-resumed"

def ownedIds (w : W) : List Nat := (w.opened.filter (·.2)).map (·.1)

/-- `suspend`: exactly the task-scoped open blocks are paused, the most recently entered first, every one of them also
    when some pause() raises; the task fails iff a pause raised, with the error of the OUTERMOST raising block -/
def watchSuspend (defs : List Kind) (nvars : Nat) (w : W) (ob : Obs) : Except String W :=
  if ob.esc != .none then .error "skip" else
  let targets := (ownedIds w).reverse
  match walk defs false targets ob.calls with
  | none =>
    if ob.calls.any (fun cl => !ownedOpen w cl.c) then .error "call-on-context-that-is-not-open"
    else .error "suspend-pauses-in-reverse-entry-order"
  | some errs =>
    common defs nvars (failWith (targets.foldl (popOv defs) { w with act := false }) (lastSome errs) .suspended) ob

/-- `continue`: exactly the task-scoped open blocks are resumed, in entry order, every one of them also when some
    resume() raises; the task fails iff a resume raised, with the error of the FIRST raising block; else it runs -/
def watchContinue (defs : List Kind) (nvars : Nat) (w : W) (ob : Obs) : Except String W :=
  if ob.esc != .none then .error "skip" else
  let targets := ownedIds w
  match walk defs true targets ob.calls with
  | none =>
    if ob.calls.any (fun cl => !ownedOpen w cl.c) then .error "call-on-context-that-is-not-open"
    else .error "continue-resumes-in-entry-order"
  | some errs =>
    common defs nvars (failWith (targets.foldl (pushOv defs) { w with act := true }) (firstSome errs) .running) ob

def watchFinish (defs : List Kind) (nvars : Nat) (w : W) (ok : Bool) (ob : Obs) : Except String W :=
  if ob.esc != .none || !ob.calls.isEmpty then .error "finish"
  else common defs nvars { w with status := if ok then .ok else .err .taskError, phase := .done } ob

def watchStep (defs : List Kind) (nvars : Nat) (w : W) (ob : Obs) : Except String W :=
  if w.stopped then .ok w else
  match ob.op with
  | .enter c =>
    if defs.length ≤ c then watchSkip defs nvars w ob
    else if isOpen w c then .ok { w with stopped := true }       -- misuse: the block is open
    else watchEnter defs nvars w c ob
  | .exit c =>
    if defs.length ≤ c then watchSkip defs nvars w ob
    else if !isOpen w c then .ok { w with stopped := true }      -- misuse: the block is not open
    else watchExit defs nvars w c ob
  | .suspend => if w.phase != .running then watchSkip defs nvars w ob else watchSuspend defs nvars w ob
  | .continue_ => if w.phase != .suspended then watchSkip defs nvars w ob else watchContinue defs nvars w ob
  | .finish ok => if w.phase != .running then watchSkip defs nvars w ob else watchFinish defs nvars w ok ob

def opName : Op → String
  | .enter _ => "enter" | .exit _ => "exit" | .suspend => "suspend" | .continue_ => "continue" | .finish _ => "finish"

def watchRun (defs : List Kind) (nvars : Nat) (w : W) : List Obs → Except String W
  | [] => .ok w
  | ob :: obs =>
    match watchStep defs nvars w ob with
    | .ok w' => watchRun defs nvars w' obs
    | .error e => .error (e ++ "@" ++ opName ob.op)

/-- the property: the whole history of observations is accepted -/
def spec (defs : List Kind) (nvars : Nat) (obs : List Obs) : Bool :=
  match watchRun defs nvars {} obs with
  | .ok _ => true
  | .error _ => false

def specClause (defs : List Kind) (nvars : Nat) (obs : List Obs) : String :=
  match watchRun defs nvars {} obs with
  | .ok _ => "ok"
  | .error e => e

end AsynqModel.Contexts
