/-
  Model of the three async caches of asynq/tools.py
    * `alru_cache`            (tools.py:212-252)  on top of `qcore.caching.LRUCache` (qcore/caching.py:125-234)
    * `acached_per_instance`  (tools.py:165-209)
    * `alazy_constant`        (tools.py:255-283)
  and of the key construction they share: `qcore.caching.get_args_tuple` / `get_kwargs_defaults`
  (qcore/caching.py:323-354) over the argument-name lists AS WRITTEN in tools.py (`argspec.args[1:] + kwonlyargs` for methods, `argspec.args + kwonlyargs` for alru_cache).

  The wrapped function may collect further positional arguments (`Sig.varargs`: `def f(a, b=0, *rest, k=0)`): the repaired
  key construction (`argsKey`) keeps the overflow apart from the named parameters.
  `**kwargs` and positional-only parameters: Lib/CacheKw.lean (open signatures; positional-only count `po`).

  A history is a list of top-level operations, each run to completion before the next one starts (the body may
  block on a batch in between - invisible at this level).  Values are identity tokens (Nat); parameter names are
  tokens whose numeric order is the alphabetical order of the names (get_args_tuple sorts leftover keywords).
  For acached_per_instance a body may return a value that refers to its instance (`selfRef`): the decorator keeps
  the cached values in a dict of its closure, so such a value keeps the instance - and the entry - alive.

  The property C13 is the Boolean observer `spec` of each cache: it replays a *reference cache* keyed on the
  call's normalised arguments (Python's own binding `bind`), and checks every observation against it.  The
  observers know nothing of the implementation's key construction, recency list, closure dict or refresh time;
  `Alru.Watch.entries` is a recency list of its own (`refTouch`/`refInsert`: keep the `cap` most recently used),
  and the theorems `C13_alru_kept_below_maxsize_keys` / `C13_alru_evicted_after_maxsize_keys` state the eviction
  policy without any recency list.
-/
namespace AsynqModel.Cache

abbrev Name := Nat

/-- `inspect.getfullargspec(get_original_fn(fn))` of the wrapped function (`**kwargs` / the positional-only count are parameters of
    Lib/CacheKw.lean, not fields) -/
structure Sig where
  args : List Name                    -- argspec.args (for a method this includes `self`)
  defaults : List Nat                 -- argspec.defaults: defaults of the LAST `defaults.length` entries of `args`
  kwonly : List Name                  -- argspec.kwonlyargs
  kwonlyDefaults : List (Name × Nat)  -- argspec.kwonlydefaults
  varargs : Bool                      -- argspec.varargs is not None: `def f(a, b=0, *rest, k=0)`
  deriving Repr, DecidableEq, Inhabited

/-- one way of spelling a call: positional values and keyword arguments (a dict: names are distinct) -/
structure Call where
  args : List Nat
  kwargs : List (Name × Nat)
  deriving Repr, DecidableEq, Inhabited

/-- element of a cache key tuple: a plain value, or a `(name, value)` pair for a leftover keyword -/
inductive KeyElem where
  | val (v : Nat)
  | pair (k : Name) (v : Nat)
  deriving Repr, DecidableEq, Inhabited

abbrev Key := List KeyElem

/-- what a body run returns: the index of the run (fresh per run) and the arguments the body actually received -/
structure Val where
  stamp : Nat
  args : List Nat
  deriving Repr, DecidableEq, Inhabited

inductive Res where
  | ok (v : Val)
  | okNone                 -- Python `None` (alazy_constant's initial cached value)
  | raisedUser (n : Nat)   -- the exception raised by body run number n
  | raisedType             -- TypeError (key construction or Python's argument binding)
  | raisedOther
  | unit
  deriving Repr, DecidableEq, Inhabited

structure Obs where
  res : Res
  runs : Nat      -- how many times the body has been started so far
  extra : Nat     -- per-instance: number of instance entries; lazy: the scripted clock; alru: 0
  deriving Repr, DecidableEq, Inhabited

/-- the clause of C13 an observation violates -/
inductive Clause where
  | malformedCall     -- a call Python cannot bind must raise TypeError without running the body
  | hitRanBody        -- the reference cache holds the key, but the body ran (false miss)
  | hitWrongValue     -- ... or something other than the stored value came back
  | foreignValue      -- reference miss, body not run, and the value returned was computed for OTHER arguments
  | staleValue        -- reference miss (evicted / dirtied / expired / failed), body not run, old value returned
  | missNoRun         -- reference miss and the body did not run
  | missRanTwice      -- body ran more than once for one call
  | raiseLost         -- the body's exception did not reach the caller
  | missWrongValue    -- the fresh result did not come back
  | instances         -- number of per-instance entries wrong (instance not dropped / dropped too early)
  | clock             -- scripted clock out of step (harness problem)
  | noop              -- dirty()/tick/drop changed something it must not
  | shape             -- observation list and operation list differ in length
  deriving Repr, DecidableEq, Inhabited

def Clause.name : Clause → String
  | .malformedCall => "malformed-call" | .hitRanBody => "hit-ran-body" | .hitWrongValue => "hit-wrong-value"
  | .foreignValue => "foreign-value" | .staleValue => "stale-value" | .missNoRun => "miss-no-run"
  | .missRanTwice => "miss-ran-twice" | .raiseLost => "raise-lost" | .missWrongValue => "miss-wrong-value"
  | .instances => "instances" | .clock => "clock" | .noop => "noop" | .shape => "shape"

/-! ## Key construction (qcore/caching.py) -/

/-- `get_kwargs_defaults(argspec)` (caching.py:344-354): name -> default, for the trailing positional defaults and
    the keyword-only defaults (`dict.update`: the keyword-only ones win, so they come first in lookup order) -/
def kwargsDefaults (s : Sig) : List (Name × Nat) :=
  s.kwonlyDefaults ++ (s.args.drop (s.args.length - s.defaults.length)).zip s.defaults

/-- the `while args_len < all_args_len` loop of `get_args_tuple` (caching.py:329-335) over the names that are
    left; `none` = KeyError, turned into `TypeError("Missing argument ...")` -/
def fillRest (kwargs dflts : List (Name × Nat)) : List Name → Option (List Nat)
  | [] => some []
  | n :: ns =>
    let v? : Option Nat :=
      match dflts.lookup n with
      | some d => some ((kwargs.lookup n).getD d)   -- kwargs.get(arg_name, kwargs_defaults[arg_name])
      | none => kwargs.lookup n                     -- kwargs[arg_name]
    match v?, fillRest kwargs dflts ns with
    | some v, some vs => some (v :: vs)
    | _, _ => none

def insertKw (p : Name × Nat) : List (Name × Nat) → List (Name × Nat)
  | [] => [p]
  | q :: qs => if p.1 ≤ q.1 then p :: q :: qs else q :: insertKw p qs

/-- `sorted(...)` on the leftover keyword names -/
def sortKw (l : List (Name × Nat)) : List (Name × Nat) := l.foldr insertKw []

/-- `get_args_tuple(args, kwargs, arg_names, kwargs_defaults)` (caching.py:323-341) -/
def getArgsTuple (args : List Nat) (kwargs : List (Name × Nat)) (argNames : List Name)
    (dflts : List (Name × Nat)) : Option Key :=
  match fillRest kwargs dflts (argNames.drop args.length) with
  | none => none
  | some vs =>
    let remaining := sortKw (kwargs.filter fun p => !argNames.contains p.1)
    some (args.map .val ++ vs.map .val ++ remaining.map fun p => .pair p.1 p.2)

/-! ## Python's own argument binding: the *normalised arguments* of a call (the reference key) -/

/-- value of each parameter not given positionally: the keyword if present, else the default, else TypeError -/
def bindRest (kwargs dflts : List (Name × Nat)) : List Name → Option (List Nat)
  | [] => some []
  | n :: ns =>
    let v? : Option Nat := match kwargs.lookup n with
      | some v => some v
      | none => dflts.lookup n
    match v?, bindRest kwargs dflts ns with
    | some v, some vs => some (v :: vs)
    | _, _ => none

/-- binding of a call to positional-or-keyword parameters `pos` and keyword-only parameters `kwonly`:
    the value of every parameter in declaration order, or `none` (TypeError) -/
def bind (pos kwonly : List Name) (dflts : List (Name × Nat)) (c : Call) : Option (List Nat) :=
  if pos.length < c.args.length then none                                            -- too many positional arguments
  else if c.kwargs.any (fun p => !(pos ++ kwonly).contains p.1) then none            -- unexpected keyword argument
  else if c.kwargs.any (fun p => (pos.take c.args.length).contains p.1) then none    -- multiple values for argument
  else (bindRest c.kwargs dflts (pos.drop c.args.length ++ kwonly)).map (c.args ++ ·)

/-- binding to `def f(pos.., *rest, kwonly..)` when `varargs`: positional arguments beyond `pos` are collected by
    `*rest` instead of being an error.  The normalised arguments are the values of the NAMED parameters (`pos`, then
    `kwonly`) followed by the elements of `rest` (unambiguous: the number of named parameters is fixed by the signature).
    Without `varargs`, and for every call that does not overflow, it is `bind`. -/
def bindV (varargs : Bool) (pos kwonly : List Name) (dflts : List (Name × Nat)) (c : Call) : Option (List Nat) :=
  if !varargs && pos.length < c.args.length then none                                -- too many positional arguments
  else if c.kwargs.any (fun p => !(pos ++ kwonly).contains p.1) then none            -- unexpected keyword argument
  else if c.kwargs.any (fun p => (pos.take c.args.length).contains p.1) then none    -- multiple values for argument
  else (bindRest c.kwargs dflts (pos.drop c.args.length ++ kwonly)).map
    fun vs => c.args.take pos.length ++ vs ++ c.args.drop pos.length

/-! ## The key functions of the three decorators -/

/-- `key_fn` of alru_cache: the default, or one of a small menu of custom functions of the raw `(args, kwargs)` -/
inductive KeySpec where
  | default      -- key_fn=None
  | const        -- lambda args, kwargs: ()
  | sumParity    -- lambda args, kwargs: ((sum(args) + sum(kwargs.values())) % 2,)
  | raw          -- lambda args, kwargs: tuple(args) + tuple(sorted(kwargs.items()))
  deriving Repr, DecidableEq, Inhabited

def customKey (ks : KeySpec) (c : Call) : Key :=
  match ks with
  | .sumParity => [.val ((c.args.foldr (· + ·) 0 + (c.kwargs.map (·.2)).foldr (· + ·) 0) % 2)]
  | .raw => c.args.map .val ++ (sortKw c.kwargs).map fun p => .pair p.1 p.2
  | _ => []

/-- `_args_cache_key(argspec, arg_names, kwargs_defaults)` of the REPAIRED tools.py: without `*rest` the key is
    `get_args_tuple(args, kwargs, arg_names, kwargs_defaults)` as before; with `*rest` it is the pair
    `(get_args_tuple(args[:n], kwargs, ..), tuple(args[n:]))`, `n` = number of named positional parameters.  The pair is
    modelled as the concatenation (injective: the first component has `arg_names.length` plain values, possibly followed
    by `(name, value)` pairs; the second has plain values only) -/
def argsKey (s : Sig) (pos : List Name) (c : Call) : Option Key :=
  if s.varargs then
    (getArgsTuple (c.args.take pos.length) c.kwargs (pos ++ s.kwonly) (kwargsDefaults s)).map
      (· ++ (c.args.drop pos.length).map .val)
  else getArgsTuple c.args c.kwargs (pos ++ s.kwonly) (kwargsDefaults s)

/-- alru_cache: `arg_names = argspec.args + argspec.kwonlyargs`; `wrapper(*args, **kwargs)` receives all arguments -/
def alruKey (ks : KeySpec) (s : Sig) (c : Call) : Option Key :=
  match ks with
  | .default => argsKey s s.args c
  | ks => some (customKey ks c)

/-- what the wrapped function of alru_cache binds: every parameter (and `*rest`, if it has one) -/
def alruBind (s : Sig) (c : Call) : Option (List Nat) := bindV s.varargs s.args s.kwonly (kwargsDefaults s) c

/-- the reference key of alru_cache: key_fn's result when one is given, else the normalised arguments -/
def alruRefKey (ks : KeySpec) (s : Sig) (c : Call) : Option Key :=
  match ks with
  | .default => (alruBind s c).map (·.map .val)
  | ks => some (customKey ks c)

/-- acached_per_instance, tools.py:176-183: `arg_names = argspec.args[1:] + kwonlyargs`, and `new_fun(self, *args, **kwargs)`
    passes the arguments WITHOUT self -/
def perInstKey (s : Sig) (c : Call) : Option Key := argsKey s (s.args.drop 1) c

/-- what the method binds once `self` is taken by the instance -/
def perInstBind (s : Sig) (c : Call) : Option (List Nat) :=
  bindV s.varargs (s.args.drop 1) s.kwonly (kwargsDefaults s) c

def perInstRefKey (s : Sig) (c : Call) : Option Key := (perInstBind s c).map (·.map .val)

/-! ## Decidable hypotheses used by the theorems (which calls a theorem covers) -/

/-- the calls the alru_cache theorem (default key) covers: valid (any spelling), or the key construction raises
    "Missing argument", or the call carries an unexpected keyword.  NOT covered (and needed: `C13_alru_callOK_needed`):
    a call Python cannot bind because it passes too many positional arguments or one parameter twice -
    `get_args_tuple` maps such a call onto the key of a valid call, so it is answered from the cache when that call
    is cached and raises TypeError when it is not -/
def alruCallOK (s : Sig) (c : Call) : Bool :=
  (alruBind s c).isSome || (alruKey .default s c).isNone ||
    c.kwargs.any (fun p => !(s.args ++ s.kwonly).contains p.1)

/-- does the key tuple contain a `(name, value)` pair (a leftover keyword)? -/
def hasPair (k : Key) : Bool := k.any fun e => match e with | .pair _ _ => true | .val _ => false

/-- decidable description of the calls the per-instance theorem covers: valid (any spelling), or the key construction
    itself raises "Missing argument", or the call carries an unexpected keyword.  NOT covered (and needed:
    `C13_per_instance_callOK_needed`): too many positional arguments, one parameter passed twice -/
def perInstCallOK (s : Sig) (c : Call) : Bool :=
  (perInstBind s c).isSome || (perInstKey s c).isNone ||
    c.kwargs.any (fun p => !(s.args.drop 1 ++ s.kwonly).contains p.1)

/-! ## qcore.caching.LRUCache (caching.py:125-234): an OrderedDict, oldest entry first, and a capacity -/

def del (k : Key) (items : List (Key × Val)) : List (Key × Val) := items.filter fun p => p.1 != k

structure LRU where
  cap : Nat
  items : List (Key × Val)
  deriving Repr, DecidableEq, Inhabited

/-- `__getitem__`: KeyError (`none`), else `_update_item` (del, re-insert at the end) and return -/
def LRU.getItem (c : LRU) (k : Key) : Option (Val × LRU) :=
  match c.items.lookup k with
  | none => none
  | some v => some (v, { c with items := del k c.items ++ [(k, v)] })

/-- `__setitem__` -/
def LRU.setItem (c : LRU) (k : Key) (v : Val) : LRU :=
  if (c.items.lookup k).isSome then { c with items := del k c.items ++ [(k, v)] }       -- `_update_item`
  else if c.items.length == c.cap then { c with items := c.items.drop 1 ++ [(k, v)] }   -- `popitem(last=False)`
  else { c with items := c.items ++ [(k, v)] }

/-! ## The reference cache of the property: entries in order of last use, at most `cap` of them -/

def refTouch (k : Key) (v : Val) (entries : List (Key × Val)) : List (Key × Val) :=
  (entries.filter fun p => p.1 != k) ++ [(k, v)]

/-- store and keep the `cap` most recently used entries -/
def refInsert (cap : Nat) (k : Key) (v : Val) (entries : List (Key × Val)) : List (Key × Val) :=
  let e := refTouch k v entries
  e.drop (e.length - cap)

namespace Alru
/-! ### alru_cache -/

structure Op where
  c : Call
  raises : Bool    -- what the body does IF it runs
  deriving Repr, DecidableEq, Inhabited

structure St where
  cache : LRU
  runs : Nat
  deriving Repr, DecidableEq, Inhabited

def init (cap : Nat) : St := { cache := { cap := cap, items := [] }, runs := 0 }

/-- `wrapper` (tools.py:241-248); `mk` = `cache_key`, `bd` = the binding done by `async_fun(*args, **kwargs)` -/
def step (mk : Call → Option Key) (bd : Call → Option (List Nat)) (st : St) (op : Op) : St × Res :=
  match mk op.c with
  | none => (st, .raisedType)                                            -- cache_key raises TypeError
  | some k =>
    match st.cache.getItem k with
    | some (v, cache') => ({ st with cache := cache' }, .ok v)           -- try: return cache[key]
    | none =>                                                            -- except KeyError:
      match bd op.c with
      | none => (st, .raisedType)                                        --   async_fun(...) cannot bind the call
      | some b =>
        let n := st.runs + 1
        if op.raises then ({ st with runs := n }, .raisedUser n)         --   value = yield ... raises: nothing stored
        else ({ cache := st.cache.setItem k ⟨n, b⟩, runs := n }, .ok ⟨n, b⟩)  --   cache[key] = value; return value

def observe (mk : Call → Option Key) (bd : Call → Option (List Nat)) (st : St) (op : Op) : St × Obs :=
  let (st', r) := step mk bd st op
  (st', { res := r, runs := st'.runs, extra := 0 })

def run (mk : Call → Option Key) (bd : Call → Option (List Nat)) (st : St) : List Op → List Obs
  | [] => []
  | op :: ops => let (st', o) := observe mk bd st op; o :: run mk bd st' ops

def finalState (mk : Call → Option Key) (bd : Call → Option (List Nat)) (st : St) : List Op → St
  | [] => st
  | op :: ops => finalState mk bd (observe mk bd st op).1 ops

/-- the observer's reference cache -/
structure Watch where
  entries : List (Key × Val)
  runs : Nat
  deriving Repr, DecidableEq, Inhabited

def malformed (w : Watch) (ob : Obs) : Except Clause Watch :=
  if ob.res == .raisedType && ob.runs == w.runs then .ok w else .error .malformedCall

/-- one observation against the reference cache keyed by `rk`, capacity `cap` -/
def watchStep (rk : Call → Option Key) (bd : Call → Option (List Nat)) (cap : Nat) (w : Watch) (op : Op) (ob : Obs) :
    Except Clause Watch :=
  match rk op.c with
  | none => malformed w ob
  | some k =>
    match w.entries.lookup k with
    | some v =>                                         -- reference hit: stored value, body not run, entry refreshed
      if ob.runs != w.runs then .error .hitRanBody
      else if ob.res != .ok v then .error .hitWrongValue
      else .ok { w with entries := refTouch k v w.entries }
    | none =>                                           -- reference miss
      match bd op.c with
      | none => malformed w ob
      | some b =>
        if ob.runs == w.runs then
          match ob.res with
          | .ok v => if v.args != b then .error .foreignValue else .error .staleValue
          | .okNone => .error .staleValue
          | _ => .error .missNoRun
        else if ob.runs != w.runs + 1 then .error .missRanTwice
        else if op.raises then
          if ob.res == .raisedUser (w.runs + 1) then .ok { w with runs := w.runs + 1 } else .error .raiseLost
        else if ob.res == .ok ⟨w.runs + 1, b⟩ then
          .ok { entries := refInsert cap k ⟨w.runs + 1, b⟩ w.entries, runs := w.runs + 1 }
        else .error .missWrongValue

def watchRun (rk : Call → Option Key) (bd : Call → Option (List Nat)) (cap : Nat) (w : Watch) :
    List Op → List Obs → Except Clause Watch
  | [], [] => .ok w
  | op :: ops, ob :: obs =>
    match watchStep rk bd cap w op ob with
    | .ok w' => watchRun rk bd cap w' ops obs
    | .error e => .error e
  | _, _ => .error .shape

/-- `Spec.C13` for alru_cache -/
def spec (rk : Call → Option Key) (bd : Call → Option (List Nat)) (cap : Nat) (ops : List Op) (obs : List Obs) : Bool :=
  match watchRun rk bd cap { entries := [], runs := 0 } ops obs with
  | .ok _ => true
  | .error _ => false

def specClause (rk : Call → Option Key) (bd : Call → Option (List Nat)) (cap : Nat) (ops : List Op) (obs : List Obs) :
    Option Clause :=
  match watchRun rk bd cap { entries := [], runs := 0 } ops obs with
  | .ok _ => none
  | .error e => some e

end Alru

namespace PerInst
/-! ### acached_per_instance -/

inductive Op where
  /-- `selfRef`: the value the body returns IF it runs refers to the instance (`return self`, a bound method, a helper
      object that keeps its owner, ...) -/
  | call (inst : Nat) (c : Call) (raises : Bool) (selfRef : Bool)
  | drop (inst : Nat)          -- the program gives up its last reference to the instance (`del obj; gc.collect()`)
  deriving Repr, DecidableEq, Inhabited

/-- the closure dict `cache` of tools.py:179: `id(instance) -> (weakref, {key: value})`.  The values are held STRONGLY
    by that dict; the entry is deleted by the weakref callback `clear_cache`, i.e. only when the instance is freed. -/
structure St where
  insts : List (Nat × List (Key × Val))   -- entries of instances the program can still reach
  pinned : List Nat    -- reachable instances whose cache holds a value that refers to the instance
  zombies : Nat        -- entries of instances the program has dropped but that their own cached value keeps alive:
                       -- the closure dict reaches the value, the value reaches the instance, so the weakref callback
                       -- never fires and the entry (and the instance) stay for the life of the decorated function
  runs : Nat
  deriving Repr, DecidableEq, Inhabited

def init : St := { insts := [], pinned := [], zombies := 0, runs := 0 }

def cacheOf (st : St) (i : Nat) : List (Key × Val) := (st.insts.lookup i).getD []

/-- `instance_cache[k] = value` -/
def store (insts : List (Nat × List (Key × Val))) (i : Nat) (k : Key) (v : Val) : List (Nat × List (Key × Val)) :=
  insts.map fun p => if p.1 == i then (p.1, (k, v) :: p.2) else p

/-- `new_fun` (tools.py:190-203) and `clear_cache` (tools.py:185-186) -/
def step (mk : Call → Option Key) (bd : Call → Option (List Nat)) (st : St) : Op → St × Res
  | .call i c raises selfRef =>
    -- if instance_key not in cache: cache[instance_key] = (ref, {})      (before the key is computed)
    let insts := if (st.insts.lookup i).isSome then st.insts else st.insts ++ [(i, [])]
    let st1 : St := { st with insts := insts }
    match mk c with
    | none => (st1, .raisedType)
    | some k =>
      match (cacheOf st1 i).lookup k with
      | some v => (st1, .ok v)
      | none =>
        match bd c with
        | none => (st1, .raisedType)
        | some b =>
          let n := st.runs + 1
          if raises then ({ st1 with runs := n }, .raisedUser n)
          else
            -- instance_cache[k] = value: from now on the closure dict reaches `value`, and through it the instance
            let pinned := if selfRef && !st.pinned.contains i then i :: st.pinned else st.pinned
            ({ st with insts := store insts i k ⟨n, b⟩, pinned := pinned, runs := n }, .ok ⟨n, b⟩)
  | .drop i =>
    if st.pinned.contains i then
      -- the instance is still reachable from its own cache entry: it is not freed, `clear_cache` never runs, the
      -- entry stays.  The program cannot reach it any more (a new instance gets another id): a zombie entry
      ({ st with insts := st.insts.filter (fun p => p.1 != i), pinned := st.pinned.filter (· != i),
                 zombies := st.zombies + 1 }, .unit)
    else ({ st with insts := st.insts.filter fun p => p.1 != i }, .unit)     -- freed: `del cache[instance_key]`

/-- `extra` = `len(new_fun.__acached_per_instance_cache__)` -/
def observe (mk : Call → Option Key) (bd : Call → Option (List Nat)) (st : St) (op : Op) : St × Obs :=
  let (st', r) := step mk bd st op
  (st', { res := r, runs := st'.runs, extra := st'.insts.length + st'.zombies })

def run (mk : Call → Option Key) (bd : Call → Option (List Nat)) (st : St) : List Op → List Obs
  | [] => []
  | op :: ops => let (st', o) := observe mk bd st op; o :: run mk bd st' ops

def finalState (mk : Call → Option Key) (bd : Call → Option (List Nat)) (st : St) : List Op → St
  | [] => st
  | op :: ops => finalState mk bd (observe mk bd st op).1 ops

/-- the reference: one cache `Key → Option Val` per live instance; an instance the program has dropped is gone with
    its cache, WHATEVER its cached values were (the observer does not look at `selfRef`) -/
structure Watch where
  ref : Nat → Key → Option Val
  live : List Nat
  runs : Nat

def watchInit : Watch := { ref := fun _ _ => none, live := [], runs := 0 }

def watchStep (rk : Call → Option Key) (bd : Call → Option (List Nat)) (w : Watch) (op : Op) (ob : Obs) :
    Except Clause Watch :=
  match op with
  | .drop i =>
    let live := w.live.filter (· != i)
    if ob.res != .unit || ob.runs != w.runs then .error .noop
    else if ob.extra != live.length then .error .instances
    else .ok { ref := fun j => if j == i then fun _ => none else w.ref j, live := live, runs := w.runs }
  | .call i c raises _ =>
    let live := if w.live.contains i then w.live else w.live ++ [i]
    if ob.extra != live.length then .error .instances else
    let w1 : Watch := { w with live := live }
    let malformed : Except Clause Watch :=
      if ob.res == .raisedType && ob.runs == w.runs then .ok w1 else .error .malformedCall
    match rk c with
    | none => malformed
    | some k =>
      match w.ref i k with
      | some v =>
        if ob.runs != w.runs then .error .hitRanBody
        else if ob.res != .ok v then .error .hitWrongValue
        else .ok w1
      | none =>
        match bd c with
        | none => malformed
        | some b =>
          if ob.runs == w.runs then
            match ob.res with
            | .ok v => if v.args != b then .error .foreignValue else .error .staleValue
            | .okNone => .error .staleValue
            | _ => .error .missNoRun
          else if ob.runs != w.runs + 1 then .error .missRanTwice
          else if raises then
            if ob.res == .raisedUser (w.runs + 1) then .ok { w1 with runs := w.runs + 1 } else .error .raiseLost
          else if ob.res == .ok ⟨w.runs + 1, b⟩ then
            .ok { ref := fun j k' => if j == i && k' == k then some ⟨w.runs + 1, b⟩ else w.ref j k',
                  live := live, runs := w.runs + 1 }
          else .error .missWrongValue

def watchRun (rk : Call → Option Key) (bd : Call → Option (List Nat)) (w : Watch) :
    List Op → List Obs → Except Clause Watch
  | [], [] => .ok w
  | op :: ops, ob :: obs =>
    match watchStep rk bd w op ob with
    | .ok w' => watchRun rk bd w' ops obs
    | .error e => .error e
  | _, _ => .error .shape

def spec (rk : Call → Option Key) (bd : Call → Option (List Nat)) (ops : List Op) (obs : List Obs) : Bool :=
  match watchRun rk bd watchInit ops obs with
  | .ok _ => true
  | .error _ => false

def specClause (rk : Call → Option Key) (bd : Call → Option (List Nat)) (ops : List Op) (obs : List Obs) : Option Clause :=
  match watchRun rk bd watchInit ops obs with
  | .ok _ => none
  | .error e => some e

/-- decidable hypothesis of `C13_per_instance_refines_partial`: no body returns a value that refers to its instance -/
def noSelfRef (ops : List Op) : Bool :=
  ops.all fun op => match op with | .call _ _ _ sr => !sr | .drop _ => true

end PerInst

namespace Lazy
/-! ### alazy_constant -/

inductive Op where
  | call (raises : Bool) (dur : Nat)   -- what the body does IF it runs: takes `dur` microseconds, then returns / raises
  | dirty
  | tick (d : Nat)                     -- the scripted clock (`utime`) advances
  deriving Repr, DecidableEq, Inhabited

structure St where
  rt : Nat                 -- wrapper.alazy_constant_refresh_time
  cached : Option Val      -- wrapper.alazy_constant_cached_value (none = Python None)
  now : Nat                -- utime()
  runs : Nat
  deriving Repr, DecidableEq, Inhabited

def init (t0 : Nat) : St := { rt := 0, cached := none, now := t0, runs := 0 }

/-- the `if` of `wrapper` (tools.py:268-270), in Python's unbounded integers -/
def stale (ttl : Nat) (st : St) : Bool :=
  st.rt == 0 || (ttl != 0 && decide ((st.rt : Int) < (st.now : Int) - (ttl : Int)))

def step (ttl : Nat) (st : St) : Op → St × Res
  | .call raises dur =>
    if stale ttl st then
      let n := st.runs + 1
      let now' := st.now + dur
      if raises then ({ st with runs := n, now := now' }, .raisedUser n)       -- `yield fn.asynq()` raises
      else ({ rt := now', cached := some ⟨n, []⟩, now := now', runs := n }, .ok ⟨n, []⟩)
    else (st, match st.cached with | some v => .ok v | none => .okNone)
  | .dirty => ({ st with rt := 0 }, .unit)
  | .tick d => ({ st with now := st.now + d }, .unit)

def observe (ttl : Nat) (st : St) (op : Op) : St × Obs :=
  let (st', r) := step ttl st op
  (st', { res := r, runs := st'.runs, extra := st'.now })

def run (ttl : Nat) (st : St) : List Op → List Obs
  | [] => []
  | op :: ops => let (st', o) := observe ttl st op; o :: run ttl st' ops

def finalState (ttl : Nat) (st : St) : List Op → St
  | [] => st
  | op :: ops => finalState ttl (observe ttl st op).1 ops

/-- the reference: the stored value and when it was stored -/
structure Watch where
  stored : Option (Val × Nat)
  now : Nat
  runs : Nat
  deriving Repr, DecidableEq, Inhabited

def valid (ttl : Nat) (w : Watch) : Option Val :=
  match w.stored with
  | some (v, t) => if ttl == 0 || w.now ≤ t + ttl then some v else none
  | none => none

def watchStep (ttl : Nat) (w : Watch) (op : Op) (ob : Obs) : Except Clause Watch :=
  match op with
  | .tick d =>
    if ob.res != .unit || ob.runs != w.runs then .error .noop
    else if ob.extra != w.now + d then .error .clock
    else .ok { w with now := w.now + d }
  | .dirty =>
    if ob.res != .unit || ob.runs != w.runs then .error .noop
    else if ob.extra != w.now then .error .clock
    else .ok { w with stored := none }
  | .call raises dur =>
    match valid ttl w with
    | some v =>
      if ob.runs != w.runs then .error .hitRanBody
      else if ob.res != .ok v then .error .hitWrongValue
      else if ob.extra != w.now then .error .clock
      else .ok w
    | none =>
      if ob.runs == w.runs then
        match ob.res with
        | .ok _ | .okNone => .error .staleValue
        | _ => .error .missNoRun
      else if ob.runs != w.runs + 1 then .error .missRanTwice
      else if ob.extra != w.now + dur then .error .clock
      else if raises then
        if ob.res == .raisedUser (w.runs + 1) then .ok { stored := none, now := w.now + dur, runs := w.runs + 1 }
        else .error .raiseLost
      else if ob.res == .ok ⟨w.runs + 1, []⟩ then
        .ok { stored := some (⟨w.runs + 1, []⟩, w.now + dur), now := w.now + dur, runs := w.runs + 1 }
      else .error .missWrongValue

def watchRun (ttl : Nat) (w : Watch) : List Op → List Obs → Except Clause Watch
  | [], [] => .ok w
  | op :: ops, ob :: obs =>
    match watchStep ttl w op ob with
    | .ok w' => watchRun ttl w' ops obs
    | .error e => .error e
  | _, _ => .error .shape

def spec (ttl t0 : Nat) (ops : List Op) (obs : List Obs) : Bool :=
  match watchRun ttl { stored := none, now := t0, runs := 0 } ops obs with
  | .ok _ => true
  | .error _ => false

def specClause (ttl t0 : Nat) (ops : List Op) (obs : List Obs) : Option Clause :=
  match watchRun ttl { stored := none, now := t0, runs := 0 } ops obs with
  | .ok _ => none
  | .error e => some e

end Lazy

end AsynqModel.Cache
