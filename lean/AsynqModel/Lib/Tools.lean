/-
  Model of the collection helpers of asynq/tools.py: amap, afilter, afilterfalse, asorted, amax, amin, asift
  and the decorator aretry (property C14).

  Every helper is a list function over an ABSTRACT async key / predicate function (`Env`): the element type `α`
  is arbitrary, the key function is any `α → Int`, the predicate any `α → Bool`.  The model follows the Python
  text line by line, including
    * what kind of iterable the caller passed (`Src`): list, tuple (and their subclasses), one-shot iterator (can
      be consumed once), any other re-iterable container (deque, a class with `__iter__`, ..) or an object that is
      not iterable at all - the code iterates some inputs twice and tests `isinstance(.., (list, tuple))`;
    * what kind of OBJECT the key / predicate argument is (`FnObj`): `None`, or an async function object with
      whatever truth value and `== None` answer its class defines - the code must test `is None`, nothing else;
    * what kind of async function the body retried by `aretry` is (`BodyKind`): one that runs when its task is
      scheduled (`@asynq()`), or one that runs eagerly inside `fn.asynq(..)` (`@async_proxy()`);
    * the error cases (empty input, no arguments, a keyword argument besides `key=` - `ExtraKw`: one that nobody
      knows, or `default=`, which max / min accept and amax / amin refuse -, values that cannot be ordered);
    * every `yield` of per-element tasks (`Run.rounds`): one entry per yield, holding for every task issued in
      that yield whether its body blocks on the batch of the harness.  All tasks of one yield that block are
      flushed together (scheduler contract, properties C04/C05), hence `flushSizes`.

  Python built-ins used by the code (`sorted`, `max`, `min`, `zip`, `enumerate`, `filter`, `itertools.compress`)
  have small counterparts here (`pySorted`, `pyExt`, `List.zip`, `enumFrom`, `List.filter`, `compress`); they are
  the assumed semantics of CPython, covered by the differential run.  Core Lean only.
-/
namespace AsynqModel.Tools

/-! ## values, exceptions, results -/

inductive Exc where
  | typeError
  | valueError
  | assertionError
  | user (cls inst : Nat)    -- exception raised by the retried body: class token, attempt index = instance identity
  | other                    -- anything else (never produced by the model; lets the driver parse any observation)
  deriving Repr, DecidableEq, Inhabited

inductive Out (α : Type) where
  | vals (l : List Int)          -- amap: the list of function results
  | optVals (l : List (Option Int))  -- amap whose per-element tasks were ended by GeneratorExit (value None): second layer only
  | elems (l : List α)           -- afilter / afilterfalse / asorted: a list of input elements
  | elem (x : α)                 -- amax / amin
  | pair (yes no : List α)       -- asift
  | val (v : Int)                -- aretry: the value the body returned
  | none                         -- Python None
  | dflt                         -- the object passed as `default=` to max / min (identity token of its own)
  deriving Repr, DecidableEq, Inhabited

inductive Res (α : Type) where
  | ok (o : Out α)
  | raised (x : Exc)
  deriving Repr, DecidableEq, Inhabited

/-- the async functions handed to the helpers, and what Python itself knows about an element -/
structure Env (α : Type) where
  key : α → Int            -- result of the async key / map function
  pred : α → Bool          -- truthiness of the result of the async predicate
  truthy : α → Bool        -- `bool(element)` (afilter with function None)
  ord : α → Option Int     -- the element's place in Python's `<` order; `none` = comparing it raises TypeError
  blocks : α → Bool        -- does the per-element call block on the harness batch?

/-! ## iterables -/

inductive IterKind where
  | list | tuple       -- `isinstance(x, (list, tuple))` holds (subclasses included)
  | iterator           -- one-shot: a second iteration delivers nothing
  | reiter             -- any other container that can be iterated again and again (deque, user class, ..)
  | nonIter
  deriving Repr, DecidableEq, Inhabited

/-- the key / predicate / function argument as Python sees the OBJECT: `None`, or an async function object.
    What `bool(f)` and `f == None` answer is up to the object's class (a callable memo table with `__len__`, a
    proxy with a liberal `__eq__`); only `f is None` identifies `None`. -/
inductive FnObj where
  | none
  | fn (truthy eqNone : Bool)
  deriving Repr, DecidableEq, Inhabited

/-- `f is None` -/
def FnObj.isNone : FnObj → Bool
  | .none => true
  | .fn _ _ => false

@[simp] theorem FnObj.isNone_none : FnObj.none.isNone = true := rfl
@[simp] theorem FnObj.isNone_fn (t e : Bool) : (FnObj.fn t e).isNone = false := rfl

structure Src (α : Type) where
  kind : IterKind
  items : List α
  deriving Repr, DecidableEq, Inhabited

/-- one full iteration (`for x in s`, `list(s)`, `zip(s, ..)`, `enumerate(s)`): the elements delivered and the
    iterable afterwards - a one-shot iterator is exhausted, a non-iterable raises TypeError -/
def Src.iterate (s : Src α) : Except Exc (List α × Src α) :=
  match s.kind with
  | .list => .ok (s.items, s)
  | .tuple => .ok (s.items, s)
  | .iterator => .ok (s.items, { s with items := [] })
  | .reiter => .ok (s.items, s)
  | .nonIter => .error .typeError

/-- what one helper invocation did: its outcome, the per-element tasks of every `yield`, `time.sleep` calls -/
structure Run (α : Type) where
  res : Res α
  rounds : List (List Bool)
  sleeps : Nat
  deriving Repr, DecidableEq, Inhabited

/-! ## Python built-ins -/

/-- insertion step of a stable sort: `x` stood before everything in the list, so it goes before the first
    element that is not strictly before it (`reverse=True`: descending, equal keys still keep their order) -/
def insertBy (k : β → Int) (rev : Bool) (x : β) : List β → List β
  | [] => [x]
  | y :: ys =>
    if (if rev then k y ≤ k x else k x ≤ k y) then x :: y :: ys else y :: insertBy k rev x ys

/-- `sorted(l, key=k, reverse=rev)`: stable, `reverse` keeps the original order of equal keys -/
def pySorted (k : β → Int) (rev : Bool) : List β → List β
  | [] => []
  | x :: xs => insertBy k rev x (pySorted k rev xs)

/-- the loop of `max` / `min` with a key: a later item replaces the best one only if strictly better -/
def pyExtGo (isMin : Bool) (k : β → Int) (best : β) : List β → β
  | [] => best
  | y :: ys => pyExtGo isMin k (if (if isMin then k y < k best else k best < k y) then y else best) ys

/-- `max(l, key=k)` / `min(l, key=k)`; `none` = ValueError on an empty argument -/
def pyExt (isMin : Bool) (k : β → Int) : List β → Option β
  | [] => none
  | x :: xs => some (pyExtGo isMin k x xs)

/-- `enumerate(l, n)` -/
def enumFrom (n : Nat) : List β → List (Nat × β)
  | [] => []
  | x :: xs => (n, x) :: enumFrom (n + 1) xs

/-- `itertools.compress(data, selectors)` -/
def compress : List β → List Bool → List β
  | d :: ds, s :: ss => if s then d :: compress ds ss else compress ds ss
  | _, _ => []

/-- keys for comparing the values themselves (`key=None`): Python raises TypeError as soon as two values are
    compared of which one is not orderable; with fewer than two values nothing is compared -/
def unorderable (env : Env α) (xs : List α) : Bool :=
  2 ≤ xs.length && xs.any fun x => (env.ord x).isNone

/-- the element as its own sort key (only used when the elements are orderable) -/
def selfKey (env : Env α) (x : α) : Int := (env.ord x).getD 0

def selfKeys (env : Env α) (xs : List α) : Option (List Int) :=
  if unorderable env xs then none else some (xs.map (selfKey env))

/-! ## the helpers (asynq/tools.py) -/

/-- tools.py:40-47 `amap`: `return (yield [function.asynq(elt) for elt in sequence])` - one iteration, ONE yield -/
def amapCore (env : Env α) (s : Src α) : Except Exc (List Int) × List (List Bool) :=
  match s.iterate with
  | .error x => (.error x, [])
  | .ok (xs, _) => (.ok (xs.map env.key), [xs.map env.blocks])

def amap (env : Env α) (s : Src α) : Run α :=
  match amapCore env s with
  | (.error x, r) => ⟨.raised x, r, 0⟩
  | (.ok ks, r) => ⟨.ok (.vals ks), r, 0⟩

/-- tools.py:50-63 `afilter` -/
def afilter (env : Env α) (function : FnObj) (s : Src α) : Run α :=
  -- `if function is None:`
  if function.isNone then
    -- `return list(filter(None, sequence))`
    match s.iterate with
    | .error x => ⟨.raised x, [], 0⟩
    | .ok (xs, _) => ⟨.ok (.elems (xs.filter env.truthy)), [], 0⟩
  else
    -- `sequence = list(sequence)`
    match s.iterate with
    | .error x => ⟨.raised x, [], 0⟩
    | .ok (sequence, _) =>
      -- `should_include = yield [function.asynq(elt) for elt in sequence]`
      let shouldInclude := sequence.map env.pred
      -- `return list(itertools.compress(sequence, should_include))`
      ⟨.ok (.elems (compress sequence shouldInclude)), [sequence.map env.blocks], 0⟩

/-- tools.py:66-76 `afilterfalse` -/
def afilterfalse (env : Env α) (s : Src α) : Run α :=
  match s.iterate with
  | .error x => ⟨.raised x, [], 0⟩
  | .ok (sequence, _) =>
    let shouldExclude := sequence.map env.pred
    let shouldInclude := shouldExclude.map (fun r => !r)
    ⟨.ok (.elems (compress sequence shouldInclude)), [sequence.map env.blocks], 0⟩

/-- tools.py:79-96 `asorted`: sorts (key, value) pairs on the key only -/
def asorted (env : Env α) (key : FnObj) (rev : Bool) (s : Src α) : Run α :=
  -- `values = list(iterable)`
  match s.iterate with
  | .error x => ⟨.raised x, [], 0⟩
  | .ok (values, _) =>
    -- `if key is None:`
    if key.isNone then
      -- `keys = values`: the sort compares the values themselves
      match selfKeys env values with
      | none => ⟨.raised .typeError, [], 0⟩
      | some keys =>
        ⟨.ok (.elems ((pySorted Prod.fst rev (keys.zip values)).map Prod.snd)), [], 0⟩
    else
      -- `keys = yield amap.asynq(key, values)`
      match amapCore env ⟨.list, values⟩ with
      | (.error x, r) => ⟨.raised x, r, 0⟩
      | (.ok keys, r) =>
        -- `pairs = sorted(zip(keys, values), key=lambda p: p[0], reverse=reverse)`; `return [p[1] for p in pairs]`
        ⟨.ok (.elems ((pySorted Prod.fst rev (keys.zip values)).map Prod.snd)), r, 0⟩

/-- keyword arguments of an amax / amin call besides `key=` -/
inductive ExtraKw where
  | none       -- nothing but (possibly) `key=`
  | unknown    -- a keyword that neither max / min nor amax / amin know (`bogus=1`)
  | dflt       -- `default=d`: max / min accept it (Python >= 3.4), amax / amin refuse it like any other keyword
  deriving Repr, DecidableEq, Inhabited

@[simp] theorem ExtraKw.none_bne : (ExtraKw.none != ExtraKw.none) = false := rfl
@[simp] theorem ExtraKw.unknown_bne : (ExtraKw.unknown != ExtraKw.none) = true := rfl
@[simp] theorem ExtraKw.dflt_bne : (ExtraKw.dflt != ExtraKw.none) = true := rfl

/-- positional arguments of amax / amin: one iterable, or the elements themselves -/
inductive MaxArgs (α : Type) where
  | one (s : Src α)            -- `amax(iterable, ...)`
  | elems (xs : List α)        -- `amax(*xs, ...)`; the elements are not iterable themselves
  deriving Repr, DecidableEq, Inhabited

/-- tools.py:106-111 / 132-137: `len(args) == 0` raises, one argument IS the iterable, more are a tuple -/
def maxIterable : MaxArgs α → Except Exc (Src α)
  | .one s => .ok s
  | .elems [] => .error .typeError
  | .elems [_] => .ok ⟨.nonIter, []⟩
  | .elems xs => .ok ⟨.tuple, xs⟩

/-- tools.py:99-148 `amax` (`isMin = false`) and `amin` (`isMin = true`), which differ in `max` / `min` only -/
def amaxmin (env : Env α) (isMin : Bool) (kw : ExtraKw) (keyFn : FnObj) (args : MaxArgs α) : Run α :=
  -- `key_fn = kwargs.pop("key", None)`; `if kwargs: raise TypeError` - WHICH keyword is left over is not looked at
  if kw != .none then ⟨.raised .typeError, [], 0⟩ else
  match maxIterable args with
  | .error x => ⟨.raised x, [], 0⟩
  | .ok iterable =>
    -- `if key_fn is None:` (a missing `key=` and an explicit `key=None` are the same)
    if keyFn.isNone then
      -- `return max(iterable)`
      match iterable.iterate with
      | .error x => ⟨.raised x, [], 0⟩
      | .ok (xs, _) =>
        match selfKeys env xs with
        | none => ⟨.raised .typeError, [], 0⟩
        | some _ =>
          match pyExt isMin (selfKey env) xs with
          | none => ⟨.raised .valueError, [], 0⟩
          | some m => ⟨.ok (.elem m), [], 0⟩
    else
      -- `if not isinstance(iterable, (list, tuple)): iterable = list(iterable)`
      let conv : Except Exc (Src α) :=
        match iterable.kind with
        | .list => .ok iterable
        | .tuple => .ok iterable
        | _ => match iterable.iterate with
               | .error x => .error x
               | .ok (xs, _) => .ok ⟨.list, xs⟩
      match conv with
      | .error x => ⟨.raised x, [], 0⟩
      | .ok iterable =>
        -- `keys = yield amap.asynq(key_fn, iterable)`
        match amapCore env iterable with
        | (.error x, r) => ⟨.raised x, r, 0⟩
        | (.ok keys, r) =>
          -- `max_pair = max(enumerate(iterable), key=lambda pair: keys[pair[0]])`: a second iteration
          match iterable.iterate with
          | .error x => ⟨.raised x, r, 0⟩
          | .ok (ys, _) =>
            match pyExt isMin (fun p => keys.getD p.1 0) (enumFrom 0 ys) with
            | none => ⟨.raised .valueError, r, 0⟩
            | some p => ⟨.ok (.elem p.2), r, 0⟩   -- `return max_pair[1]`

/-- the `for item, yesno in zip(items, results)` loop of asift -/
def siftLoop : List (α × Bool) → List α × List α
  | [] => ([], [])
  | (item, yesno) :: rest =>
    let (yes, no) := siftLoop rest
    if yesno then (item :: yes, no) else (yes, item :: no)

/-- tools.py `asift` (after the fix): `items = list(items)` first, so the input is iterated once -/
def asift (env : Env α) (s : Src α) : Run α :=
  -- `items = list(items)`
  match s.iterate with
  | .error x => ⟨.raised x, [], 0⟩
  | .ok (xs, _) =>
    -- `results = yield [pred.asynq(item) for item in items]`
    let results := xs.map env.pred
    -- `for item, yesno in zip(items, results)`
    let (yes, no) := siftLoop (xs.zip results)
    ⟨.ok (.pair yes no), [xs.map env.blocks], 0⟩

/-! ## aretry (tools.py:286-313) -/

/-- what the retried body does on one attempt -/
inductive Attempt where
  | ret (v : Int)
  | raise (cls : Nat)
  deriving Repr, DecidableEq, Inhabited

/-- `except exception_cls` matches the listed classes and their subclasses; class 4 derives from class 1 -/
def isListed (listed : List Nat) (cls : Nat) : Bool :=
  listed.contains cls || (cls == 4 && listed.contains 1)

/-- what kind of async function the retried body is -/
inductive BodyKind where
  | lazy     -- `@asynq()`: `fn.asynq(..)` only builds a task, the body runs (and raises) when the task is yielded
  | eager    -- `@async_proxy()` and the like: the body runs INSIDE `fn.asynq(..)`, raises there or returns a future
  deriving Repr, DecidableEq, Inhabited

/-- does the attempt block on the harness batch (`blocking` = the body is one that uses the batch)?  A lazy body
    blocks before it returns or raises; an eager body hands back a batch item when it returns - a failing eager
    attempt raised before anything could be yielded. -/
def attemptBlocks (kind : BodyKind) (blocking : Bool) : Attempt → Bool
  | .ret _ => blocking
  | .raise _ => match kind with
    | .lazy => blocking
    | .eager => false

/-- the `for i in range(max_tries)` loop, `todo` iterations left, attempt number `i` next.
    Each attempt is one `ret = yield fn.asynq(*args, **kwargs)` INSIDE the `try`: both the call `fn.asynq(..)`
    (where an eager body runs and may raise) and the `yield` (where a lazy body runs) are guarded by
    `except exception_cls`, so the two kinds of body take the same branches.  One entry of `rounds` per attempt. -/
def retryLoop (listed : List Nat) (script : Nat → Attempt) (maxTries : Nat) (blocking : Bool) (kind : BodyKind) :
    (todo i : Nat) → Run α
  | 0, _ => ⟨.ok .none, [], 0⟩                       -- loop exhausted: falls off the end of the function
  | todo + 1, i =>
    let blk := attemptBlocks kind blocking (script i)
    match script i with
    | .ret v => ⟨.ok (.val v), [[blk]], 0⟩           -- `return ret`
    | .raise cls =>
      if isListed listed cls then
        if i + 1 == maxTries then ⟨.raised (.user cls i), [[blk]], 0⟩   -- `raise`
        else
          let r := retryLoop listed script maxTries blocking kind todo (i + 1)     -- `time.sleep(sleep)`, next i
          ⟨r.res, [blk] :: r.rounds, r.sleeps + 1⟩
      else ⟨.raised (.user cls i), [[blk]], 0⟩       -- not caught: propagates at once

def scriptAt (script : List Attempt) (i : Nat) : Attempt := script.getD i (.ret 0)

/-- `aretry(exception_cls, max_tries)(fn)(..)`; `assert max_tries > 0` when the decorator is made -/
def aretry (maxTries : Nat) (listed : List Nat) (script : List Attempt) (blocking : Bool) (kind : BodyKind) : Run α :=
  if maxTries = 0 then ⟨.raised .assertionError, [], 0⟩
  else retryLoop listed (scriptAt script) maxTries blocking kind maxTries 0

/-! ## one invocation, and what the harness observes of it -/

inductive Call (α : Type) where
  | amap (s : Src α)
  | afilter (function : FnObj) (s : Src α)
  | afilterfalse (s : Src α)
  | asorted (key : FnObj) (rev : Bool) (s : Src α)
  | amaxmin (isMin : Bool) (kw : ExtraKw) (key : FnObj) (args : MaxArgs α)
  | asift (s : Src α)
  | aretry (maxTries : Nat) (listed : List Nat) (script : List Attempt) (blocking : Bool) (kind : BodyKind)
  deriving Repr, DecidableEq, Inhabited

def run (env : Env α) : Call α → Run α
  | .amap s => amap env s
  | .afilter n s => afilter env n s
  | .afilterfalse s => afilterfalse env s
  | .asorted kn rev s => asorted env kn rev s
  | .amaxmin isMin kw kn args => amaxmin env isMin kw kn args
  | .asift s => asift env s
  | .aretry m l sc b k => aretry m l sc b k

structure Obs (α : Type) where
  res : Res α
  flushes : List Nat     -- sizes of the flushes of the harness batch during the invocation, in order
  runs : Nat             -- how often the async key / predicate / retried body was started
  sleeps : Nat
  deriving Repr, DecidableEq, Inhabited

def countTrue (l : List Bool) : Nat := (l.filter id).length

/-- scheduler contract: the blocking tasks of one yield share one flush; a yield without blocking task flushes nothing -/
def flushSizes (rounds : List (List Bool)) : List Nat :=
  (rounds.map countTrue).filter (fun c => c != 0)

def totalRuns : List (List Bool) → Nat
  | [] => 0
  | r :: rs => r.length + totalRuns rs

def observe (r : Run α) : Obs α :=
  { res := r.res, flushes := flushSizes r.rounds, runs := totalRuns r.rounds, sleeps := r.sleeps }

/-! ## the property C14: what the built-in counterparts give (core `List` functions only) -/

/-- all per-element calls in ONE round: a single flush holding every blocking call (none if nothing blocks) -/
def oneFlush (env : Env α) (xs : List α) : List Nat :=
  let c := (xs.filter env.blocks).length
  if c = 0 then [] else [c]

/-- first element that is at least (at most) as large as every element: what `max` / `min` return -/
def firstExt (isMin : Bool) (k : α → Int) (xs : List α) : Option α :=
  xs.find? fun x => xs.all fun y => if isMin then k x ≤ k y else k y ≤ k x

/-- stable sort by key (`List.mergeSort` is stable); `reverse` = descending, still stable -/
def stableSort (k : α → Int) (rev : Bool) (xs : List α) : List α :=
  xs.mergeSort fun a b => if rev then k b ≤ k a else k a ≤ k b

/-- number of leading attempts that raise a listed exception -/
def leadingListed (listed : List Nat) (script : Nat → Attempt) : (bound i : Nat) → Nat
  | 0, _ => 0
  | b + 1, i =>
    match script i with
    | .raise cls => if isListed listed cls then 1 + leadingListed listed script b (i + 1) else 0
    | .ret _ => 0

def attemptRes (script : Nat → Attempt) (i : Nat) : Res α :=
  match script i with
  | .ret v => .ok (.val v)
  | .raise cls => .raised (.user cls i)

/-- the flushes of `n` attempts of which all but the last raised: one flush (of one item) per attempt that
    blocks.  A lazy blocking body: `n` flushes.  An eager blocking body: one flush if the last attempt returned
    (its batch item), none for the attempts that raised while the request was being issued. -/
def retryFlushes (kind : BodyKind) (blocking : Bool) (last : Attempt) (n : Nat) : List Nat :=
  List.replicate (if attemptBlocks kind blocking (.raise 0) then n - 1 else 0) 1 ++
    (if attemptBlocks kind blocking last then [1] else [])

def perElem (env : Env α) (res : Res α) (xs : List α) : Obs α :=
  { res := res, flushes := oneFlush env xs, runs := xs.length, sleeps := 0 }

def noCalls (res : Res α) : Obs α := { res := res, flushes := [], runs := 0, sleeps := 0 }

/-- the elements `max` / `min` would range over; `none` = the call itself is a TypeError -/
def argItems : MaxArgs α → Option (List α)
  | .one s => if s.kind = .nonIter then none else some s.items
  | .elems [] => none
  | .elems [_] => none
  | .elems xs => some xs

def MaxArgs.isVarargs : MaxArgs α → Bool
  | .one _ => false
  | .elems _ => true

/-- the observation the property demands of an invocation: what the BUILT-IN counterpart gives on the same
    arguments (written without looking at tools.py), every per-element call made once, one flush.
    For a call that passes `default=` this is what max / min do with it; such calls are outside the statement
    C14 makes (`Call.inStatement`), see `C14_default_kw_outside_statement`. -/
def expected (env : Env α) : Call α → Obs α
  | .amap s =>
    if s.kind = .nonIter then noCalls (.raised .typeError)
    else perElem env (.ok (.vals (s.items.map env.key))) s.items
  | .afilter function s =>
    if s.kind = .nonIter then noCalls (.raised .typeError)
    else if function = .none then noCalls (.ok (.elems (s.items.filter env.truthy)))
    else perElem env (.ok (.elems (s.items.filter env.pred))) s.items
  | .afilterfalse s =>
    if s.kind = .nonIter then noCalls (.raised .typeError)
    else perElem env (.ok (.elems (s.items.filter fun x => !env.pred x))) s.items
  | .asorted key rev s =>
    if s.kind = .nonIter then noCalls (.raised .typeError)
    else if key = .none then
      if unorderable env s.items then noCalls (.raised .typeError)
      else noCalls (.ok (.elems (stableSort (selfKey env) rev s.items)))
    else perElem env (.ok (.elems (stableSort env.key rev s.items))) s.items
  | .amaxmin isMin kw key args =>
    -- a keyword the built-in does not know either
    if kw = .unknown then noCalls (.raised .typeError) else
    match argItems args with
    | none => noCalls (.raised .typeError)               -- no arguments / one argument that is not iterable
    | some xs =>
      -- `max(a, b, default=d)`: "Cannot specify a default for max() with multiple positional arguments"
      if kw = .dflt && args.isVarargs then noCalls (.raised .typeError) else
      -- empty input: ValueError, unless a default was given - then the default is the answer
      let empty : Res α := if kw = .dflt then .ok .dflt else .raised .valueError
      if key = .none then
        if unorderable env xs then noCalls (.raised .typeError)
        else match firstExt isMin (selfKey env) xs with
          | none => noCalls empty
          | some m => noCalls (.ok (.elem m))
      else match firstExt isMin env.key xs with
        | none => perElem env empty xs
        | some m => perElem env (.ok (.elem m)) xs
  | .asift s =>
    if s.kind = .nonIter then noCalls (.raised .typeError)
    else
      let p := s.items.partition env.pred
      perElem env (.ok (.pair p.1 p.2)) s.items
  | .aretry maxTries listed script blocking kind =>
    if maxTries = 0 then noCalls (.raised .assertionError) else
    let k := leadingListed listed (scriptAt script) maxTries 0
    let n := min (k + 1) maxTries
    { res := attemptRes (scriptAt script) (n - 1),
      flushes := retryFlushes kind blocking (scriptAt script (n - 1)) n,
      runs := n, sleeps := n - 1 }

/-- `Spec.C14`: which clause of the property an observation violates -/
def specClause [DecidableEq α] (env : Env α) (c : Call α) (o : Obs α) : String :=
  let e := expected env c
  if o.res != e.res then "result"
  else if o.runs != e.runs then "calls"
  else if o.flushes != e.flushes then "one-round"
  else if o.sleeps != e.sleeps then "sleeps"
  else "ok"

def spec [DecidableEq α] (env : Env α) (c : Call α) (o : Obs α) : Bool :=
  o == expected env c

/-- the elements a collection helper is asked to work on -/
def Call.items : Call α → List α
  | .amap s | .afilter _ s | .afilterfalse s | .asorted _ _ s | .asift s => s.items
  | .amaxmin _ _ _ (.one s) => s.items
  | .amaxmin _ _ _ (.elems xs) => xs
  | .aretry .. => []

def Call.isRetry : Call α → Bool
  | .aretry .. => true
  | _ => false

/-- the calls C14 speaks about: every call except amax / amin with `default=`.  C14 quantifies over iterables,
    async keys / predicates, `reverse` and the two call forms; `key` is the only keyword amax / amin declare
    (tools.pyi), `default=` is refused with "unexpected keyword argument" (tools.py:103, 129). -/
def Call.inStatement : Call α → Bool
  | .amaxmin _ kw _ _ => kw != .dflt
  | _ => true

/-- does the invocation make per-element calls at all?  It does iff there is an async function to call (the
    function / key argument is not `None`) and the call gets as far as iterating its input: the input is
    iterable, and for amax / amin the arguments are well-formed (no further keyword, not zero arguments, not a
    single non-iterable one). -/
def Call.perElement : Call α → Bool
  | .amap s | .afilterfalse s | .asift s => s.kind != .nonIter
  | .afilter f s => !f.isNone && s.kind != .nonIter
  | .asorted k _ s => !k.isNone && s.kind != .nonIter
  | .amaxmin _ kw k args => kw == .none && !k.isNone && (argItems args).isSome
  | .aretry .. => false

end AsynqModel.Tools
