/-
  Model of asynq/batching.py (BatchBase, BatchItemBase, DebugBatch, DebugBatchItem) on top of
  asynq/futures.py (FutureBase.value/error/set_value/set_error/_computed).

  One batch kind ("service") with an *active batch* slot, the batches it has created so far, their items,
  scripted flush bodies, a history of operations, and what an observer sees after each operation.
  Batches and items are numbered in creation order (index into `St.batches` / `St.items`).
  Values and user errors are identity tokens (Nat); value token 0 is Python's None.

  kind = user  : a subclass of BatchBase written in the harness (`_flush` interprets the script of the batch,
                 `_try_switch_active_batch` installs a fresh batch in the service's slot)
  kind = debug : the built-in DebugBatch / DebugBatchItem (`_flush` sets every item to its `_result`)

  Items may carry two harness-written on_computed callbacks (both kinds): `spawn` issues a new request to the
  service, `link` completes a *sibling* item (an item of the same batch that is still pending) - so an item of the
  batch can get completed by somebody else while the library is busy completing the batch's items
  (`BatchBase._computed`), while the flush body walks them (`DebugBatch._flush`), or from a script statement.
-/
namespace AsynqModel.Batching

inductive Kind where
  | user | debug
  deriving Repr, DecidableEq, Inhabited

inductive Err where
  | user (n : Nat)   -- exception object owned by the harness (tokens 1-4: Exception, 5-8: BaseException subclasses)
  | cancelled        -- the BatchCancelledError() made by cancel(None)              (batching.py:105-106)
  | notSet           -- AssertionError("Value of this item wasn't set on batch flush.") (batching.py:132)
  | already          -- FutureIsAlreadyComputed                                    (futures.py:71-72,105-106)
  | batching         -- BatchingError("Batch is already flushed or cancelled.")    (batching.py:81-82)
  | assertAdd        -- AssertionError("can't add an item to the batch that is already flushed") (batching.py:210-212)
  | other            -- anything else (never produced by the model; lets the driver parse any observation)
  deriving Repr, DecidableEq, Inhabited

inductive Outc where
  | val (v : Nat)
  | err (e : Err)
  deriving Repr, DecidableEq, Inhabited

/-- one statement of a scripted flush body (`_flush` of the harness subclass) -/
inductive Act where
  | setValue (k v : Nat)   -- self.items[k].set_value(vals[v])      (skipped when k is out of range)
  | setError (k e : Nat)   -- self.items[k].set_error(errs[e])
  | setAll                 -- for item in list(self.items): if not item.is_computed(): item.set_value(vals[item.payload])
  | newItem (p : Nat)      -- service.request(p): a new item, joining whatever batch is active now
  | raise (e : Nat)        -- raise errs[e]   (Exception or BaseException, by token)
  deriving Repr, DecidableEq, Inhabited

abbrev Script := List Act

/-- harness on_computed callback of an item that completes a sibling: when the item completes, and item `target`
    (global creation index) exists, belongs to the same batch and is not computed yet, then
    `items[target].set_value(vals[tok])` resp. `.set_error(errs[tok])` -/
structure Link where
  target : Nat
  isErr : Bool
  tok : Nat
  deriving Repr, DecidableEq, Inhabited

def Link.outc (l : Link) : Outc := if l.isErr then .err (.user l.tok) else .val l.tok

structure Item where
  batch : Nat              -- `item.batch`
  payload : Nat            -- harness attribute / `DebugBatchItem._result`
  spawn : Option Nat       -- harness on_computed callback: issue a new request with this payload when completed
  link : Option Link       -- harness on_computed callback: complete a pending sibling (runs after `spawn`)
  out : Option Outc        -- `_value is not _none`, with `_error`
  deriving Repr, DecidableEq, Inhabited

structure Batch where
  out : Option Outc        -- none = pending; val 0 = flushed; err e = cancelled / failed flush
  items : List Nat         -- `self.items`
  runs : Nat               -- how often the harness-written `_flush` ran (kind = user only; not observable for DebugBatch)
  deriving Repr, DecidableEq, Inhabited

/-- the whole observable state; it is also the snapshot the harness takes after every operation -/
structure St where
  kind : Kind
  keep : Bool := false     -- debug option KEEP_DEPENDENCIES (a configuration: set before the history starts)
  active : Nat             -- `service.active` / `_debug_batch_state.batches[name]`
  batches : List Batch
  items : List Item
  deriving Repr, DecidableEq, Inhabited

/-- what the harness's hooks log while an operation runs, in order -/
inductive Ev where
  | body (b act : Nat)                       -- `_flush` of batch b starts; `act` = the active batch at that moment
  | bodyEnd (b : Nat) (r : Option Err) (done : Option Outc)
                                             -- `_flush` of batch b (harness subclass) is left: r = what it raised (none = it
                                             -- returned); done = the batch's own outcome peeked at that moment (none = pending)
  | item (i : Nat) (o : Outc) (byBody : Bool)  -- on_computed of item i (outcome peeked); byBody = set by harness code
                                             -- (a script statement or a sibling's `link` callback), not by the library
  | created (i b : Nat) (src : Option Nat)   -- item i constructed on batch b; src = batch whose flush/completion issued it
  | createFail (src : Nat)                   -- a request issued from an item callback failed its constructor assert
  | announce (b : Nat) (pend : List Nat) (act : Nat)  -- on_computed of batch b; pend = its items not computed right now
  deriving Repr, DecidableEq, Inhabited

inductive Op where
  | add (p : Nat) (spawn : Option Nat) (link : Option Link)  -- service.request(p) / DebugBatchItem(name, p) / sync(tag):
                                         -- joins the active batch; the harness subscribes the callbacks
  | addTo (b p : Nat)                    -- Item(batch_b, p): construct an item directly on a given batch
  | flush (b : Nat)
  | cancel (b : Nat) (e : Option Nat)
  | itemValue (i : Nat)
  | batchValue (b : Nat)
  | batchError (b : Nat)
  | isFlushed (b : Nat) | isCancelled (b : Nat) | isEmpty (b : Nat) | itemComputed (i : Nat)
  deriving Repr, DecidableEq, Inhabited

def Op.name : Op → String
  | .add _ _ _ => "add" | .addTo _ _ => "addTo" | .flush _ => "flush" | .cancel _ _ => "cancel"
  | .itemValue _ => "itemValue" | .batchValue _ => "batchValue" | .batchError _ => "batchError"
  | .isFlushed _ => "isFlushed" | .isCancelled _ => "isCancelled" | .isEmpty _ => "isEmpty"
  | .itemComputed _ => "itemComputed"

inductive Res where
  | unit
  | created (i : Nat)
  | ok (v : Nat)              -- value returned by value()
  | marker                    -- value() returned something that is no value (the internal `_none` marker)
  | errIs (e : Option Err)    -- what error() returned
  | raised (e : Err)
  | bool (b : Bool)
  | invalid                   -- the operation names a batch / item that does not exist (harness does nothing)
  deriving Repr, DecidableEq, Inhabited

structure Obs where
  op : Op
  res : Res
  evs : List Ev
  post : St
  deriving Repr, DecidableEq, Inhabited

/-! ## state access -/

def St.bout (s : St) (b : Nat) : Option Outc := (s.batches[b]?).bind (·.out)
def St.iout (s : St) (i : Nat) : Option Outc := (s.items[i]?).bind (·.out)
def St.bitems (s : St) (b : Nat) : List Nat := match s.batches[b]? with | some B => B.items | none => []
def St.runs (s : St) (b : Nat) : Nat := match s.batches[b]? with | some B => B.runs | none => 0
def St.payload (s : St) (i : Nat) : Nat := match s.items[i]? with | some it => it.payload | none => 0

def St.setItemOut (s : St) (i : Nat) (o : Outc) : St :=
  { s with items := s.items.modify i fun it => { it with out := some o } }
def St.setBatchOut (s : St) (b : Nat) (o : Outc) : St :=
  { s with batches := s.batches.modify b fun B => { B with out := some o } }
def St.incRuns (s : St) (b : Nat) : St :=
  { s with batches := s.batches.modify b fun B => { B with runs := B.runs + 1 } }
def St.clearItems (s : St) (b : Nat) : St :=
  { s with batches := s.batches.modify b fun B => { B with items := [] } }
/-- `if not _debug.options.KEEP_DEPENDENCIES: self.items.clear()` (batching.py:90-91) -/
def St.clearUnlessKept (s : St) (keep : Bool) (b : Nat) : St := if keep then s else s.clearItems b

/-- items whose `.batch` is b and that are not computed (what the harness evaluates inside b's on_computed) -/
def St.pendingOf (s : St) (b : Nat) : List Nat :=
  (List.range s.items.length).filter fun i =>
    match s.items[i]? with
    | some it => it.batch == b && it.out.isNone
    | none => false

def init (k : Kind) (keep : Bool := false) : St :=
  { kind := k, keep := keep, active := 0, batches := [{ out := none, items := [], runs := 0 }], items := [] }

/-! ## the library code -/

/-- a fresh, empty, pending batch takes the active slot -/
def St.pushBatch (s : St) : St :=
  { s with active := s.batches.length, batches := s.batches ++ [{ out := none, items := [], runs := 0 }] }

/-- a new uncomputed item, appended to `batch.items` of batch b -/
def St.pushItem (s : St) (b p : Nat) (spawn : Option Nat) (link : Option Link := none) : St :=
  { s with items := s.items ++ [{ batch := b, payload := p, spawn := spawn, link := link, out := none }],
           batches := s.batches.modify b fun B => { B with items := B.items ++ [s.items.length] } }

/-- `_try_switch_active_batch` (harness subclass; DebugBatch batching.py:254-258): if b is the active batch,
    a fresh batch takes the slot -/
def switch (s : St) (b : Nat) : St :=
  if s.active = b then s.pushBatch else s

/-- `BatchItemBase.__init__` (batching.py:208-216) on batch b: assert the batch is not flushed, append to
    `batch.items`; the harness logs the creation.  `none` = the assert failed (nothing was changed). -/
def newItemOn (s : St) (b p : Nat) (spawn src : Option Nat) (link : Option Link := none) : Option (St × List Ev) :=
  match s.batches[b]? with
  | none => none
  | some B =>
    if B.out.isSome then none
    else some (s.pushItem b p spawn link, [.created s.items.length b src])

/-- the `spawn` callback of an item `it` that has just completed (state `s1`): a new request to the service; a
    constructor assert failing there is an Exception swallowed by FutureBase._computed (futures.py:131-140) -/
def spawnPart (s1 : St) (it : Item) : St × List Ev :=
  match it.spawn with
  | some p =>
    match newItemOn s1 s1.active p none (some it.batch) with
    | some (s2, evs) => (s2, evs)
    | none => (s1, [.createFail it.batch])
  | none => (s1, [])

/-- the guard of the `link` callback: item j exists, is an item of batch b, and is not computed -/
def St.linkFires (s : St) (b j : Nat) : Bool :=
  match s.items[j]? with
  | some t => t.batch == b && t.out.isNone
  | none => false

/-- `set_value` / `set_error` on an uncomputed item (futures.py:66-75,101-109): store, then `_computed` triggers
    on_computed: the harness callback logs the completion, then, if the item has a spawn payload, issues a new
    request to the service, then, if the item has a link, completes the linked sibling if that is still pending -
    which runs the sibling's callbacks in turn (nested, before this `set_value` returns).
    The first argument bounds the nesting depth; every nested call completes another pending item that carries a
    link, so the number of items is always enough (`completeItem_fuel_enough`). -/
def completeItem : Nat → St → Nat → Outc → Bool → St × List Ev
  | 0, s, i, o, byBody =>
    match s.items[i]? with
    | some it =>
      let r := spawnPart (s.setItemOut i o) it
      (r.1, .item i o byBody :: r.2)
    | none => (s.setItemOut i o, [.item i o byBody])
  | fuel + 1, s, i, o, byBody =>
    match s.items[i]? with
    | some it =>
      let r := spawnPart (s.setItemOut i o) it
      match it.link with
      | some l =>
        if r.1.linkFires it.batch l.target then
          let r3 := completeItem fuel r.1 l.target l.outc true
          (r3.1, .item i o byBody :: (r.2 ++ r3.2))
        else (r.1, .item i o byBody :: r.2)
      | none => (r.1, .item i o byBody :: r.2)
    | none => (s.setItemOut i o, [.item i o byBody])

/-- the loop of `BatchBase._computed` (batching.py:126-133): every item of the batch that is not computed
    gets the outcome `o`.  The check `is_computed()` is made when the loop reaches the item: an item completed
    meanwhile by a sibling's callback is skipped.  (The Python loop walks the live list `self.items`; nothing can
    append to it while it runs because the batch is no longer the active one and is computed, so walking the
    list as it was when the loop started is the same.) -/
def leftovers (o : Outc) : List Nat → St → St × List Ev
  | [], s => (s, [])
  | i :: is, s =>
    if (s.iout i).isSome then leftovers o is s
    else
      let (s1, e1) := completeItem s.items.length s i o false
      let (s2, e2) := leftovers o is s1
      (s2, e1 ++ e2)

/-- what `_computed` gives an item that is still pending: the batch's error if it has one, else the
    "wasn't set" AssertionError (batching.py:129-133) -/
def leftoverOutc : Outc → Outc
  | .err e => .err e
  | .val _ => .err .notSet

/-- `set_value(None)` / `set_error(e)` on an uncomputed batch → `BatchBase._computed` (batching.py:118-134):
    switch the active batch, complete every leftover item (with the batch's error, or with the "wasn't set"
    AssertionError), then `FutureBase._computed` announces the batch (on_computed). -/
def completeBatch (s : St) (b : Nat) (o : Outc) : St × List Ev :=
  let s1 := s.setBatchOut b o
  let s2 := switch s1 b
  let (s3, evs) := leftovers (leftoverOutc o) (s2.bitems b) s2
  (s3, evs ++ [.announce b (s3.pendingOf b) s3.active])

/-- the `setAll` statement of a script -/
def setAllLoop : List Nat → St → St × List Ev
  | [], s => (s, [])
  | i :: is, s =>
    if (s.iout i).isSome then setAllLoop is s
    else
      let (s1, e1) := completeItem s.items.length s i (.val (s.payload i)) true
      let (s2, e2) := setAllLoop is s1
      (s2, e1 ++ e2)

/-- one statement of the scripted flush body of batch b; `some e` = it raised e -/
def act1 (b : Nat) (a : Act) (s : St) : St × List Ev × Option Err :=
  match a with
  | .setValue k v =>
    match (s.bitems b)[k]? with
    | none => (s, [], none)
    | some i =>
      if (s.iout i).isSome then (s, [], some .already)
      else let (s1, e1) := completeItem s.items.length s i (.val v) true; (s1, e1, none)
  | .setError k e =>
    match (s.bitems b)[k]? with
    | none => (s, [], none)
    | some i =>
      if (s.iout i).isSome then (s, [], some .already)
      else let (s1, e1) := completeItem s.items.length s i (.err (.user e)) true; (s1, e1, none)
  | .setAll => let (s1, e1) := setAllLoop (s.bitems b) s; (s1, e1, none)
  | .newItem p =>
    match newItemOn s s.active p none (some b) with
    | some (s1, e1) => (s1, e1, none)
    | none => (s, [], some .assertAdd)
  | .raise e => (s, [], some (.user e))

/-- the scripted `_flush` of the harness subclass: statements in order until one raises -/
def runScript (b : Nat) : Script → St → St × List Ev × Option Err
  | [], s => (s, [], none)
  | a :: rest, s =>
    match act1 b a s with
    | (s1, e1, some x) => (s1, e1, some x)
    | (s1, e1, none) =>
      let (s2, e2, r) := runScript b rest s1
      (s2, e1 ++ e2, r)

/-- `DebugBatch._flush` (batching.py:267-268): `for item in self.items: item.set_value(item._result)`
    (set_value on a computed item raises FutureIsAlreadyComputed out of the body) -/
def debugFlush : List Nat → St → St × List Ev × Option Err
  | [], s => (s, [], none)
  | i :: is, s =>
    if (s.iout i).isSome then (s, [], some .already)
    else
      let (s1, e1) := completeItem s.items.length s i (.val (s.payload i)) false
      let (s2, e2, r) := debugFlush is s1
      (s2, e1 ++ e2, r)

/-- the outcome `_compute` gives the batch: `set_value(None)` after a body that returned, `set_error(e)` after
    one that raised e -/
def bodyOutc : Option Err → Outc
  | none => .val 0
  | some e => .err e

/-- `BatchBase._compute` (batching.py:109-116) of an uncomputed batch: switch the active batch, run the flush
    body, `set_value(None)`; any BaseException of the body becomes the batch's error unless the batch got
    computed meanwhile -/
def compute (scripts : List Script) (s : St) (b : Nat) : St × List Ev :=
  let s1 := switch s b
  let (s3, e1, r) :=
    match s.kind with
    | .user =>
      let s2 := s1.incRuns b
      let (s3, e1, r) := runScript b (scripts.getD b []) s2
      (s3, Ev.body b s1.active :: (e1 ++ [Ev.bodyEnd b r (s3.bout b)]), r)
    | .debug => debugFlush (s1.bitems b) s1
  if (s3.bout b).isSome then (s3, e1)
  else
    let (s4, e2) := completeBatch s3 b (bodyOutc r)
    (s4, e1 ++ e2)

def readValue : Option Outc → Res
  | some (.val v) => .ok v
  | some (.err e) => .raised e
  | none => .marker          -- `_compute` returned without completing the future: value() returns `_none`

def readError : Option Outc → Res
  | some (.val _) => .errIs none
  | some (.err e) => .errIs (some e)
  | none => .errIs none

/-- `cancel(error)`: the given error, else a fresh BatchCancelledError (batching.py:105-106) -/
def errOfCancel : Option Nat → Err
  | some n => .user n
  | none => .cancelled

/-- one operation of the history -/
def step (scripts : List Script) (s : St) (op : Op) : St × Res × List Ev :=
  match op with
  | .add p spawn link =>
    match newItemOn s s.active p spawn none link with
    | some (s1, e1) => (s1, .created s.items.length, e1)
    | none => (s, .raised .assertAdd, [])
  | .addTo b p =>
    match s.batches[b]? with
    | none => (s, .invalid, [])
    | some _ =>
      match newItemOn s b p none none with
      | some (s1, e1) => (s1, .created s.items.length, e1)
      | none => (s, .raised .assertAdd, [])
  | .flush b =>          -- batching.py:64-94
    match s.batches[b]? with
    | none => (s, .invalid, [])
    | some B =>
      if B.out.isSome then (s, .raised .batching, [])
      else
        let (s1, e1) := compute scripts s b     -- self.error()
        (s1.clearUnlessKept s.keep b, .unit, e1)   -- if not KEEP_DEPENDENCIES: self.items.clear()
  | .cancel b e =>       -- batching.py:96-107
    match s.batches[b]? with
    | none => (s, .invalid, [])
    | some B =>
      if B.out.isSome then (s, .unit, [])
      else
        let (s1, e1) := completeBatch s b (.err (errOfCancel e))
        (s1, .unit, e1)
  | .itemValue i =>      -- futures.py:54-64 with BatchItemBase._compute (batching.py:222-228)
    match s.items[i]? with
    | none => (s, .invalid, [])
    | some it =>
      if it.out.isSome then (s, readValue it.out, [])
      else if (s.bout it.batch).isSome then (s, readValue (s.iout i), [])
      else
        let (s1, e1) := compute scripts s it.batch
        let s2 := s1.clearUnlessKept s.keep it.batch
        (s2, readValue (s2.iout i), e1)
  | .batchValue b =>
    match s.batches[b]? with
    | none => (s, .invalid, [])
    | some B =>
      if B.out.isSome then (s, readValue B.out, [])
      else let (s1, e1) := compute scripts s b; (s1, readValue (s1.bout b), e1)
  | .batchError b =>
    match s.batches[b]? with
    | none => (s, .invalid, [])
    | some B =>
      if B.out.isSome then (s, readError B.out, [])
      else let (s1, e1) := compute scripts s b; (s1, readError (s1.bout b), e1)
  | .isFlushed b =>
    match s.batches[b]? with
    | none => (s, .invalid, [])
    | some B => (s, .bool B.out.isSome, [])
  | .isCancelled b =>
    match s.batches[b]? with
    | none => (s, .invalid, [])
    | some B => (s, .bool (match B.out with | some (.err _) => true | _ => false), [])
  | .isEmpty b =>
    match s.batches[b]? with
    | none => (s, .invalid, [])
    | some B => (s, .bool B.items.isEmpty, [])
  | .itemComputed i =>
    match s.items[i]? with
    | none => (s, .invalid, [])
    | some it => (s, .bool it.out.isSome, [])

def observe (scripts : List Script) (s : St) (op : Op) : St × Obs :=
  let (s1, r, evs) := step scripts s op
  (s1, { op := op, res := r, evs := evs, post := s1 })

/-- run a history, collecting the observations -/
def run (scripts : List Script) (s : St) : List Op → List Obs
  | [] => []
  | op :: ops => let (s1, o) := observe scripts s op; o :: run scripts s1 ops

def finalState (scripts : List Script) (s : St) : List Op → St
  | [] => s
  | op :: ops => finalState scripts (observe scripts s op).1 ops

/-! ## The property C11 as an observer over a history of observations

`pre` is the snapshot before the operation (the `post` of the previous observation, `init` at the start).
Nothing of the model's *library* code above is used below (the observer does not see the flush scripts either: that a
value in the log is the one a script named is the correspondence check's business): only the accessors of a snapshot,
the event log, the reading conventions `readValue` / `readError` / `errOfCancel` / `bodyOutc`, and - for a successful `add` - the
primitive `pushItem` ("the snapshot before, plus one pending item at the end of that batch's list"). -/

def St.ibatch (s : St) (i : Nat) : Nat := match s.items[i]? with | some it => it.batch | none => 0
def St.ispawn (s : St) (i : Nat) : Option Nat := match s.items[i]? with | some it => it.spawn | none => none
def St.ilink (s : St) (i : Nat) : Option Link := match s.items[i]? with | some it => it.link | none => none

/-- shape of a snapshot between two operations: the active batch exists and is pending; an item belongs to an
    existing batch, is listed in `batch.items` while that batch is pending, is complete if its batch is finished
    (**no item left pending**); a flush body ran at most once, and never for a pending batch -/
def Good (s : St) : Prop :=
  s.active < s.batches.length ∧ s.bout s.active = none ∧
  (∀ i, i < s.items.length →
      s.ibatch i < s.batches.length ∧
      (s.bout (s.ibatch i) = none → i ∈ s.bitems (s.ibatch i)) ∧
      ((s.bout (s.ibatch i)).isSome → (s.iout i).isSome)) ∧
  (∀ b, b < s.batches.length →
      (∀ i, i ∈ s.bitems b → i < s.items.length ∧ s.ibatch i = b) ∧
      s.runs b ≤ 1 ∧ (s.bout b = none → s.runs b = 0))

instance (s : St) : Decidable (Good s) := by unfold Good; infer_instance

/-- frame of every operation (**single assignment**): kind and configuration stay; batches and items are only
    added; a finished batch and a completed item keep their outcome for ever; an item never changes its batch;
    run counters only grow -/
def Ext (s t : St) : Prop :=
  (s.kind = t.kind ∧ s.keep = t.keep) ∧ s.batches.length ≤ t.batches.length ∧ s.items.length ≤ t.items.length ∧
  (∀ b, b < s.batches.length → ((s.bout b).isSome → t.bout b = s.bout b) ∧ s.runs b ≤ t.runs b) ∧
  (∀ i, i < s.items.length →
      t.ibatch i = s.ibatch i ∧ t.payload i = s.payload i ∧ t.ispawn i = s.ispawn i ∧
      ((s.iout i).isSome → t.iout i = s.iout i) ∧ t.ilink i = s.ilink i)

instance (s t : St) : Decidable (Ext s t) := by unfold Ext; infer_instance

/-- the outcome an item may get from the library (`BatchBase._computed` / `DebugBatch._flush`), i.e. not from a
    script statement or a handler: the batch's error; else (user subclass, batch flushed) "not set"; `br` = the
    operation is one that runs the flush body: only then a DebugBatch item may get its `_result`.  That the item
    belongs to the batch being finished is demanded by `frameChecks` ("item-of-other-batch"), for every completion -/
def itemRule (k : Kind) (br : Bool) (o : Outc) (bo : Option Outc) (payload : Nat) : Bool :=
  (match bo with
   | some (.err e) => o == .err e
   | some (.val _) => k == .user && o == .err .notSet
   | none => false) ||
  (k == .debug && br && o == .val payload)

/-- one logged event against the snapshots before and after the operation; `some clause` = violated -/
def evClause (br : Bool) (pre post : St) (ev : Ev) : Option String :=
  match ev with
  | .body b act =>
    if act = b then some "active-during-flush"            -- the batch is still the active one while its body runs
    else if act ≠ post.active then some "active-switched-twice"
    else if (pre.bout b).isSome then some "once"          -- flush body of a finished batch
    else if pre.runs b ≠ 0 then some "once"
    else none
  | .bodyEnd _ _ _ => none                                -- judged by `fateClause` (what the batch's outcome must be)
  | .announce b pend act =>
    if pend ≠ [] then some "items-before-announce"        -- an item of the batch is pending when the batch is announced
    else if act = b then some "active-at-announce"
    else if (pre.bout b).isSome then some "announce-once"
    else if (post.bout b).isNone then some "announce-visible"
    else none
  | .created i b src =>
    if i < pre.items.length ∨ post.items.length ≤ i then some "created-id"
    else if post.ibatch i ≠ b then some "created-batch"
    else if (post.bout b).isSome then some "no-add-after-finish"
    else if src = some b then some "fresh-batch-during-flush"   -- joined the batch that is being flushed / completed
    else if src.isSome ∧ b ≠ post.active then some "fresh-batch-during-flush"
    else none
  | .createFail _ => some "fresh-batch-during-flush"      -- a request issued during a flush found no pending active batch
  | .item i o byBody =>
    if post.iout i ≠ some o then some "item-outcome"
    else if (pre.iout i).isSome then some "item-once"
    else if !byBody && !itemRule post.kind br o (post.bout (post.ibatch i)) (post.payload i) then some "leftover-outcome"
    else none

def Ev.isAnnounce : Ev → Bool
  | .announce _ _ _ => true
  | _ => false

/-- the events that code running while a batch is being finished may log: item completions and item creations -/
def Ev.isPlain : Ev → Bool
  | .item _ _ _ => true
  | .created _ _ _ => true
  | _ => false

def Ev.isCreated : Ev → Bool
  | .created _ _ _ => true
  | _ => false

def Ev.isBody : Ev → Bool
  | .body _ _ => true
  | _ => false

def Ev.isBodyEv : Ev → Bool
  | .body _ _ => true
  | .bodyEnd _ _ _ => true
  | _ => false

def Ev.bodyEnd? : Ev → Option (Nat × Option Err × Option Outc)
  | .bodyEnd b r d => some (b, r, d)
  | _ => none

def itemCount (evs : List Ev) (i : Nat) : Nat := evs.countP fun | .item j _ _ => j == i | _ => false
def createdCount (evs : List Ev) (i : Nat) : Nat := evs.countP fun | .created j _ _ => j == i | _ => false
def announceCount (evs : List Ev) (b : Nat) : Nat := evs.countP fun | .announce c _ _ => c == b | _ => false

/-- **every change is logged exactly once, and nothing else is**: an item that went from pending to complete during
    the operation has exactly one completion event (on_computed fired once), every other item none; an item that
    is new has exactly one creation event, an old one none; a batch that went from pending to finished has been
    announced exactly once, every other batch not at all -/
def CountsOk (pre post : St) (evs : List Ev) : Prop :=
  (∀ i, i < post.items.length →
      itemCount evs i = (if pre.iout i = none ∧ (post.iout i).isSome then 1 else 0) ∧
      createdCount evs i = (if pre.items.length ≤ i then 1 else 0)) ∧
  (∀ b, b < post.batches.length →
      announceCount evs b = (if pre.bout b = none ∧ (post.bout b).isSome then 1 else 0))

instance (pre post : St) (evs : List Ev) : Decidable (CountsOk pre post evs) := by unfold CountsOk; infer_instance

/-- after the announcement of batch b no item of b is completed any more -/
def afterAnnounceOk (post : St) (evs : List Ev) : Bool :=
  match evs.dropWhile (fun ev => !ev.isAnnounce) with
  | .announce b _ _ :: rest => rest.all fun | .item i _ _ => post.ibatch i != b | _ => true
  | _ => true

/-- what the operation has to do to which batch, decided from the snapshot before it alone -/
inductive Fate where
  | quiet                           -- no batch is finished by this operation
  | flushed (b : Nat) (clear : Bool)  -- pending batch b must be flushed: its body runs once and decides the outcome;
                                    -- clear = through `flush()`, which empties `items` unless KEEP_DEPENDENCIES
  | cancelled (b : Nat) (e : Err)   -- pending batch b must be cancelled with e, its body must not run
  deriving Repr, DecidableEq, Inhabited

def St.pendingBatch (s : St) (b : Nat) : Prop := b < s.batches.length ∧ s.bout b = none
instance (s : St) (b : Nat) : Decidable (s.pendingBatch b) := by unfold St.pendingBatch; infer_instance

def fate (pre : St) : Op → Fate
  | .flush b => if pre.pendingBatch b then .flushed b true else .quiet
  | .cancel b e => if pre.pendingBatch b then .cancelled b (errOfCancel e) else .quiet
  | .itemValue i =>
    if i < pre.items.length ∧ pre.iout i = none ∧ pre.pendingBatch (pre.ibatch i) then .flushed (pre.ibatch i) true
    else .quiet
  | .batchValue b => if pre.pendingBatch b then .flushed b false else .quiet
  | .batchError b => if pre.pendingBatch b then .flushed b false else .quiet
  | _ => .quiet

def Fate.bodyRuns : Fate → Bool
  | .flushed _ _ => true
  | _ => false

/-- **fresh batch**: the operation finishes batch b (`fin = some b`) and b held the active slot: exactly one new
    batch exists afterwards and it holds the slot; in every other case no batch is created and the slot is kept -/
def slotOk (pre post : St) (fin : Option Nat) : Bool :=
  if fin = some pre.active then post.batches.length == pre.batches.length + 1 && post.active == pre.batches.length
  else post.batches.length == pre.batches.length && post.active == pre.active

def Fate.batch? : Fate → Option Nat
  | .flushed b _ => some b
  | .cancelled b _ => some b
  | .quiet => none

/-- a completion by the library (`BatchBase._computed` / `DebugBatch._flush`) -/
def Ev.isLib : Ev → Bool
  | .item _ _ false => true
  | _ => false

/-- a completion by harness code (a script statement or a sibling's `link` handler) -/
def Ev.isSet : Ev → Bool
  | .item _ _ true => true
  | _ => false

def Ev.isBodyEnd : Ev → Bool
  | .bodyEnd _ _ _ => true
  | _ => false

/-- the library completes an item BEFORE the flush body has ended (`_computed` runs after `_flush` has returned or
    raised: batching.py:111-116) -/
def libBeforeEnd : List Ev → Bool
  | [] => false
  | ev :: rest => if ev.isBodyEnd then false else if ev.isLib then true else libBeforeEnd rest

def hasDup : List Nat → Bool
  | [] => false
  | i :: is => is.contains i || hasDup is

/-- why `DebugBatch._flush` may raise FutureIsAlreadyComputed (batching.py:267-268 `item.set_value(item._result)` on a
    computed item): an item of the batch was complete before the operation, or a completion handler completed a
    sibling during it, or the item list names an item twice -/
def alreadyCause (pre : St) (b : Nat) (evs : List Ev) : Bool :=
  (pre.bitems b).any (fun i => (pre.iout i).isSome) || evs.any Ev.isSet || hasDup (pre.bitems b)

/-- the items constructed on batch c during the operation, in order -/
def createdOn (evs : List Ev) (c : Nat) : List Nat :=
  evs.filterMap fun ev => match ev with
    | .created i b _ => if b = c then some i else none
    | _ => none

/-- a list of named checks: the name of the first one that fails -/
def firstFail : List (Bool × String) → Option String
  | [] => none
  | (ok, name) :: rest => if ok then firstFail rest else some name

/-- the checks on the flush body of batch b: it ran exactly once, first of all, and what it did decides the batch's
    outcome (user subclass: the harness logs what its `_flush` raised, and the library completes no leftover item
    before the body has ended; DebugBatch: the body cannot be hooked, it either returns or raises
    FutureIsAlreadyComputed - the latter only with a cause, `alreadyCause`) -/
def bodyChecks (rx : Bool) (pre : St) (b : Nat) (post : St) (evs : List Ev) : List (Bool × String) :=
  match pre.kind with
  | .user =>
    [ (post.runs b == 1, "flush-runs-body-once"),
      (evs.head? == some (.body b post.active), "flush-runs-body-once"),
      ((evs.filter Ev.isBody).length == 1, "flush-runs-body-once"),
      (match evs.filterMap Ev.bodyEnd? with
       | [(b', r, done)] => b' == b && (rx || done.isNone) && post.bout b == some (done.getD (bodyOutc r))
       | _ => false, "flush-outcome"),
      (rx || !libBeforeEnd evs, "leftover-before-body-end") ]
  | .debug =>
    [ (!evs.any Ev.isBodyEv, "debug-body-events"),
      (rx || post.bout b == some (.val 0) ||
        (post.bout b == some (.err .already) && alreadyCause pre b evs), "flush-outcome") ]

/-- the effect the operation must have on the batch it is about (`rx` = the observation comes from the family
    `reenter`, where the batch may get cancelled from inside its own flush: then the outcome found at the end of the
    body stands, and the outcome of a DebugBatch - whose body cannot be hooked - is not judged here) -/
def fateChecks (rx : Bool) (pre : St) (ob : Obs) : List (Bool × String) :=
  let post := ob.post
  match fate pre ob.op with
  | .quiet =>
    [ (ob.evs.all Ev.isCreated, "quiet-op-events"),
      (slotOk pre post none, "fresh-batch") ]
  | .cancelled b e =>
    [ (post.bout b == some (.err e), "cancel-outcome"),
      (post.runs b == 0, "cancel-runs-no-body"),
      (!ob.evs.any Ev.isBodyEv, "cancel-runs-no-body"),
      (slotOk pre post (some b), "fresh-batch"),
      (post.bitems b == pre.bitems b, "cancel-keeps-items") ]
  | .flushed b clear =>
    [ ((post.bout b).isSome, "flush-finishes"),
      (slotOk pre post (some b), "fresh-batch"),
      (post.bitems b == (if clear && !pre.keep then [] else pre.bitems b), "keep-dependencies") ] ++
    bodyChecks rx pre b post ob.evs

def fateClause (rx : Bool) (pre : St) (ob : Obs) : Option String := firstFail (fateChecks rx pre ob)

/-- **frame**: (1) every item completed during the operation - by whomever - belongs to the batch the operation has to
    finish (so finishing a batch never completes an item of ANOTHER batch: not of the fresh batch that requests
    issued during the flush join, not of a pending batch elsewhere); (2) the item list of every other batch is what
    it was plus the items constructed on it during the operation, in order (the list of the finished batch itself is
    judged by `fateChecks`: kept, or cleared by `flush()`) -/
def frameChecks (pre : St) (ob : Obs) : List (Bool × String) :=
  let fb := (fate pre ob.op).batch?
  [ (ob.evs.all (fun ev => match ev with
        | .item i _ _ => fb == some (ob.post.ibatch i)
        | _ => true), "item-of-other-batch"),
    ((List.range ob.post.batches.length).all (fun c =>
        fb == some c || ob.post.bitems c == pre.bitems c ++ createdOn ob.evs c), "items-frame") ]

def frameClause (pre : St) (ob : Obs) : Option String := firstFail (frameChecks pre ob)

/-- the result / effect of the operation itself -/
def opClause (pre : St) (ob : Obs) : Option String :=
  let post := ob.post
  let noop : Bool := post == pre && ob.evs.isEmpty
  match ob.op with
  | .add p spawn link =>
    let i := pre.items.length
    if ob.res ≠ .created i then some "add-result"
    else if post ≠ pre.pushItem pre.active p spawn link then some "add-joins-active"
    else if ob.evs ≠ [.created i pre.active none] then some "add-events"
    else none
  | .addTo b p =>
    if pre.batches.length ≤ b then (if ob.res = .invalid ∧ noop then none else some "invalid")
    else if (pre.bout b).isSome then
      (if ob.res ≠ .raised .assertAdd then some "no-add-after-finish"
       else if !noop then some "no-add-after-finish" else none)
    else
      let i := pre.items.length
      if ob.res ≠ .created i then some "add-result"
      else if post ≠ pre.pushItem b p none none then some "add-result"
      else if ob.evs ≠ [.created i b none] then some "add-events"
      else none
  | .flush b =>
    if pre.batches.length ≤ b then (if ob.res = .invalid ∧ noop then none else some "invalid")
    else if (pre.bout b).isSome then
      (if ob.res ≠ .raised .batching then some "second-flush-error"
       else if !noop then some "second-flush-noop" else none)
    else
      if ob.res ≠ .unit then some "flush-total"
      else none
  | .cancel b _ =>
    if pre.batches.length ≤ b then (if ob.res = .invalid ∧ noop then none else some "invalid")
    else if ob.res ≠ .unit then some "cancel-total"
    else if (pre.bout b).isSome then (if !noop then some "cancel-noop" else none)
    else none
  | .itemValue i =>
    if pre.items.length ≤ i then (if ob.res = .invalid ∧ noop then none else some "invalid")
    else if (post.iout i).isNone then some "item-value-completes"
    else if ob.res ≠ readValue (post.iout i) then some "item-value-result"
    else if (pre.iout i).isNone ∧ (post.bout (post.ibatch i)).isNone then some "item-value-flushes"
    else if (pre.iout i).isSome ∧ !noop then some "item-value-noop"
    else none
  | .batchValue b =>
    if pre.batches.length ≤ b then (if ob.res = .invalid ∧ noop then none else some "invalid")
    else if (post.bout b).isNone then some "batch-value-completes"
    else if ob.res ≠ readValue (post.bout b) then some "batch-value-result"
    else if (pre.bout b).isSome ∧ !noop then some "batch-value-noop"
    else none
  | .batchError b =>
    if pre.batches.length ≤ b then (if ob.res = .invalid ∧ noop then none else some "invalid")
    else if (post.bout b).isNone then some "batch-error-completes"
    else if ob.res ≠ readError (post.bout b) then some "batch-error-result"
    else if (pre.bout b).isSome ∧ !noop then some "batch-error-noop"
    else none
  | .isFlushed b =>
    if pre.batches.length ≤ b then (if ob.res = .invalid ∧ noop then none else some "invalid")
    else if ob.res = .bool (pre.bout b).isSome ∧ noop then none else some "query"
  | .isCancelled b =>
    if pre.batches.length ≤ b then (if ob.res = .invalid ∧ noop then none else some "invalid")
    else if ob.res = .bool (match pre.bout b with | some (.err _) => true | _ => false) ∧ noop then none else some "query"
  | .isEmpty b =>
    if pre.batches.length ≤ b then (if ob.res = .invalid ∧ noop then none else some "invalid")
    else if ob.res = .bool (pre.bitems b).isEmpty ∧ noop then none else some "query"
  | .itemComputed i =>
    if pre.items.length ≤ i then (if ob.res = .invalid ∧ noop then none else some "invalid")
    else if ob.res = .bool (pre.iout i).isSome ∧ noop then none else some "query"

/-- one observation against the snapshot before it; `some clause` = C11 is violated there -/
def specStep (rx : Bool) (pre : St) (ob : Obs) : Option String :=
  match opClause pre ob with
  | some c => some c
  | none =>
    match ob.evs.findSome? (evClause (fate pre ob.op).bodyRuns pre ob.post) with
    | some c => some c
    | none =>
      match fateClause rx pre ob with
      | some c => some c
      | none =>
      match frameClause pre ob with
      | some c => some c
      | none =>
        if (ob.evs.filter Ev.isAnnounce).length > 1 then some "announce-once"
        else if !afterAnnounceOk ob.post ob.evs then some "items-before-announce"
        else if ¬ CountsOk pre ob.post ob.evs then some "every-change-logged-once"
        else if ¬ Ext pre ob.post then some "single-assignment"
        else if ¬ Good ob.post then some "no-item-left-pending"
        else none

def watchRun (rx : Bool) (pre : St) : List Obs → Option String
  | [] => none
  | ob :: obs =>
    match specStep rx pre ob with
    | some c => some (c ++ "@" ++ ob.op.name)
    | none => watchRun rx ob.post obs

/-- `Spec.C11`: the whole history is accepted -/
def spec (k : Kind) (obs : List Obs) (keep : Bool := false) : Bool := (watchRun false (init k keep) obs).isNone

def specClause (k : Kind) (obs : List Obs) (keep : Bool := false) (rx : Bool := false) : String :=
  match watchRun rx (init k keep) obs with
  | none => "ok"
  | some c => c

end AsynqModel.Batching
