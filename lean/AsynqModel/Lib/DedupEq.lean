import AsynqModel.Lib.Dedup
/-
  `deduplicate` with receiver instances that are EQUAL under Python `==` without being the same object (round 6, audit 3 B6).

  `DeduplicateDecorator.tasks` is a dict; its key `(keygetter(args, kwargs), threading.current_thread(), id(self.fn))`
  (tools.py:349-350) holds the argument OBJECTS, the receiver of a method among them (AsyncDecoratorBinder.asynq puts
  `self.instance` in front, decorators.py:190-195), and a dict compares keys with `==` (after the hash).  Two distinct
  instances of a class with value equality (a frozen dataclass with a `compare=False` field, a hand-written
  `__eq__` / `__hash__`) therefore have ONE table entry: `b.load.asynq(5)` is answered with the in-flight task of
  `a.load.asynq(5)`, whose body runs on `a`.

  `Lib/Dedup.lean` identifies a value with its token (key equality = token equality), which is right for argument VALUES
  (the statement normalises them) but not for receivers: the statement says "different instances never share a task".
  Here the relation `==` between instance tokens is an INPUT (`Eqv`: (token, representative of its `==` class)) and the
  table key is the key tuple with every element replaced by its representative - the code as it is.  Everything else
  (what a new task binds, scheduling, completion) is `Dedup.step` unchanged; with no two distinct tokens equal the two
  models coincide (`Theorems/C12e.lean`: C12_stepE_trivial).
-/
namespace AsynqModel.Dedup

/-- Python `==` between distinct objects: `(token, representative)`; a token that is not listed is equal to itself only -/
abbrev Eqv := List (Nat × Nat)

/-- no two DISTINCT tokens are equal (every listed token is its own representative) -/
def eqvId (e : Eqv) : Bool := e.all fun p => p.1 == p.2

def canonVal (e : Eqv) (x : Nat) : Nat := (alook e x).getD x

/-- a key element as the dict sees it: `==`-equal objects are one key element -/
def KeyElem.canon (e : Eqv) : KeyElem → KeyElem
  | .v x => .v (canonVal e x)
  | .kw n x => .kw n (canonVal e x)

/-- tools.py:349-350 `cache_key` as a dict key: the tuple up to `==` of its elements -/
def keyE (e : Eqv) (tup : List KeyElem) (th fn : Nat) : Key := { tup := tup.map (KeyElem.canon e), th := th, fn := fn }

/-- `Dedup.step` with the table keyed up to `==`; a NEW task still binds the caller's own objects (`create` gets the
    arguments as passed: the body of a task runs on the receiver of the call that CREATED it) -/
def stepE (fns : List FnDecl) (e : Eqv) (s : St) : Op → St × Res
  | .call c =>
    match fns[c.fn]? with
    | none => (s, .bad)
    | some d =>
      let args := effArgs d c
      match d.sig.key args c.kw with
      | .error _ => (s, .typeError)
      | .ok tup =>
        let key := keyE e tup c.th c.fn
        match mget s.table key with
        | none => create s d args c.kw key true                     -- tools.py:363-371
        | some t =>
          match s.tasks[t]? with
          | none => (s, .bad)
          | some task =>
            if task.running then create s d args c.kw key false     -- tools.py:373-377
            else (s, .ret t false)                                   -- tools.py:378
  | .dirty c =>
    match fns[c.fn]? with
    | none => (s, .bad)
    | some d =>
      match d.sig.key (effArgs d c) c.kw with
      | .error _ => (s, .typeError)
      | .ok tup => ({ s with table := merase s.table (keyE e tup c.th c.fn) }, .unit)  -- tools.py:380-382
  | op => step fns s op

def observeE (fns : List FnDecl) (e : Eqv) (s : St) (op : Op) : St × Obs :=
  let (s', r) := stepE fns e s op
  (s', { op := op, res := r, size := s'.table.length })

def runE (fns : List FnDecl) (e : Eqv) (s : St) : List Op → List Obs
  | [] => []
  | op :: ops => let (s', o) := observeE fns e s op; o :: runE fns e s' ops

/-! ### the observer: `Dedup.spec` unchanged (receivers are identities there) + the NAME of this failure -/

def canonList (e : Eqv) (xs : List Nat) : List Nat := xs.map (canonVal e)
def canonKw (e : Eqv) (kw : List (Nat × Nat)) : List (Nat × Nat) := kw.map fun p => (p.1, canonVal e p.2)

def canonSpell (e : Eqv) (c : Spell) : Spell :=
  { c with recv := (match c.recv with | .inst i => .inst (canonVal e i) | r => r),
           args := canonList e c.args, kw := canonKw e c.kw }

def canonOp (e : Eqv) : Op → Op
  | .call c => .call (canonSpell e c)
  | .dirty c => .dirty (canonSpell e c)
  | .aioCall c => .aioCall (canonSpell e c)
  | op => op

def canonRes (e : Eqv) : Res → Res
  | .binding b => .binding { params := canonList e b.params, rest := canonList e b.rest, extra := canonKw e b.extra }
  | r => r

/-- the observation as it would read if `==`-equal instances WERE one instance -/
def canonObs (e : Eqv) (ob : Obs) : Obs := { op := canonOp e ob.op, res := canonRes e ob.res, size := ob.size }

/-- the name of the operation at which `watchRun` stops (the part of the clause string after the `@`) -/
def failOp (fns : List FnDecl) (w : Watch) (size : Nat) : List Obs → String
  | [] => ""
  | ob :: obs =>
    match watchStep fns w ob with
    | .ok w' => if sizeOk fns w size ob then failOp fns w' ob.size obs else ob.op.name
    | .error _ => ob.op.name

/-- how many observations `watchRun` accepts before it stops -/
def okPrefix (fns : List FnDecl) (w : Watch) (size : Nat) : List Obs → Nat
  | [] => 0
  | ob :: obs =>
    match watchStep fns w ob with
    | .ok w' => if sizeOk fns w size ob then okPrefix fns w' ob.size obs + 1 else 0
    | .error _ => 0

/-- the failing clause of `Dedup.spec` (the observer is NOT changed: it keeps receivers apart by identity), renamed to
    `equal-instances@<op>` exactly when the program has `==`-equal distinct instances and the observations UP TO AND
    INCLUDING the rejected one are accepted once each instance is replaced by the representative of its `==` class - i.e.
    when everything up to the point of rejection is what the statement demands of a program in which those instances are
    one object, and the rejected observation fails for no other reason.  Any other violation at or before that
    observation survives the replacement and keeps its own name (what comes after the first rejected observation is
    never judged, here as in `spec`). -/
def specClauseE (fns : List FnDecl) (e : Eqv) (obs : List Obs) : String :=
  let c := specClause fns obs
  if c == "ok" then "ok"
  else if !eqvId e && spec fns ((obs.take (okPrefix fns Watch.init 0 obs + 1)).map (canonObs e)) then
    "equal-instances@" ++ failOp fns Watch.init 0 obs
  else c

end AsynqModel.Dedup
