/-
  Model of asynq/mock_.py (patch, patch.object, _make_patch_async, _PatchAsync.__enter__, _AsynqWrapper,
  _AsyncioWrapper, _maybe_wrap_new) on top of the contract of unittest.mock._patch
  (__init__ argument checks, get_original, __enter__, __exit__, start, stop, _patch_stopall).

  * attribute store: `target index -> what the host's __dict__ holds` (objects are tokens with a shape);
  * patchers: static spec + the state `_patch` keeps between __enter__ and __exit__ (temp_original, is_local);
  * `_patch._active_patches`, start / stop / stopall exactly in the order unittest.mock uses
    (stop: remove, then __exit__; stopall: index-based `reversed()` iteration over the live list);
  * the four calling conventions on whatever object is visible at a target.

  The property C19 is the Boolean observer `spec` at the end of this file; it reads observations only.
  Core Lean only.
-/
namespace AsynqModel.Mock

/-! ## Python-level facts that are assumed (descriptor protocol, `callable`) -/

/-- how a replacement binds when it is found on a class: plain function, classmethod object, staticmethod object -/
inductive Desc where
  | func | cm | sm
  deriving Repr, DecidableEq, Inhabited

/-- how the patched attribute is reached by the caller: `module.attr` / instance `__dict__` (no descriptor
    protocol), `Class.attr`, `instance.attr` found on the class -/
inductive Via where
  | plain | cls | inst
  deriving Repr, DecidableEq, Inhabited

/-- argument tokens standing for the instance and the class a method is reached through -/
def instTok : Nat := 900001
def clsTok : Nat := 900002

/-- the arguments Python's descriptor protocol puts in front; `none`: the result of the lookup is not callable
    (a classmethod object that was not found through a class) -/
def bindPrefix : Desc → Via → Option (List Nat)
  | .func, .inst => some [instTok]
  | .func, _ => some []
  | .cm, .plain => none
  | .cm, _ => some [clsTok]
  | .sm, _ => some []

/-! ## Objects -/

inductive ObjId where
  | orig (t : Nat)       -- what target t held before any patch
  | given (p : Nat)      -- the `new` argument of patcher p itself
  | made (p n : Nat)     -- n-th object made for patcher p (wrapped `new`: n = 0; DEFAULT / new_callable: one per entry)
  | unknown              -- driver only: an object the harness cannot name
  deriving Repr, DecidableEq, Inhabited

inductive Shape where
  | mock                 -- MagicMock created by `_patch.__enter__` for new=DEFAULT
  | pair (d : Desc)      -- `asynq(sync_fn=new)(new)`: AsyncAndSyncPairDecorator made by `_maybe_wrap_new`
  | wrapper              -- `Wrapper()` made by `_maybe_wrap_new` around a callable that rejects attributes
  | callobj              -- a callable instance that accepts attributes (user's own, or made by new_callable)
  | value                -- not callable
  | origAsync (d : Desc) -- an `@asynq()` function / method / classmethod / staticmethod (AsyncDecorator object): an
                         -- original, or one the caller passes as `new` (`Repl.asyncFn`)
  deriving Repr, DecidableEq, Inhabited

/-- Python's `callable(x)` -/
def Shape.callable : Shape → Bool
  | .value => false
  | _ => true

/-- the kind of OBJECT a replacement hands back (the token `r` next to it stands for the object's identity).
    Nothing in mock_.py looks at the result: `_AsynqWrapper.__call__` is `ConstFuture(self._mock_fn(...))` and
    `_AsyncioWrapper` returns it from a coroutine, whatever it is - in particular a result that happens to be one
    of asynq's own futures (a "handle") is NOT resolved, and a falsy result is not mistaken for "no result". -/
inductive RKind where
  | plain                                          -- an ordinary int
  | none | falsy                                   -- None; a fresh falsy object ([] / 0.0 / __bool__ -> False)
  | constFuture | lazyFuture | errorFuture | task  -- asynq.ConstFuture / Future(provider) not yet computed /
                                                   -- ErrorFuture / an AsyncTask handle
  | excInstance                                    -- an exception instance that is returned, not raised
  | exotic                                         -- __eq__ / __bool__ / __repr__ raise, unhashable
  | container                                      -- a tuple / subclass of a built-in container
  deriving Repr, DecidableEq, Inhabited

/-- the kind of exception a replacement raises (the token stands for the exception object's identity) -/
inductive EKind where
  | exception     -- an ordinary `Exception` subclass
  | baseOnly      -- derives from `BaseException` only (passes every `except Exception`)
  | falsy         -- an exception whose `__bool__` is False / `__len__` is 0
  | builtinSub    -- subclass of a built-in (KeyError) with several args
  deriving Repr, DecidableEq, Inhabited

/-- what the user-level callable behind an object does when it is finally invoked -/
inductive Behav where
  | ret (r : Nat) (k : RKind := .plain)
  | raise (e : Nat) (k : EKind := .exception)
  | syncCall (r : Nat)   -- a fake that delegates: it makes an ORDINARY SYNCHRONOUS call of another `@asynq()` function
                         -- (`helper(x)`) and returns `r`.  Such a call is legal everywhere except inside asyncio mode
                         -- (decorators.py `AsyncDecorator.__call__`: `if is_asyncio_mode(): raise RuntimeError(...)`)
  deriving Repr, DecidableEq, Inhabited

/-- does what the callable does depend on `is_asyncio_mode()`? -/
def Behav.modeSensitive : Behav → Bool
  | .syncCall _ => true
  | _ => false

structure Obj where
  id : ObjId
  shape : Shape
  attached : Bool        -- `_PatchAsync.__enter__` has set `.asynq` / `.async` / `.asyncio` wrappers on it
  callee : ObjId         -- who records the call in the end (the mock itself, or the wrapped `new`)
  behav : Behav
  deriving Repr, DecidableEq, Inhabited

/-- coarse classification the harness can make with `is` / `isinstance` -/
inductive Tag where
  | asis | mock | pair | wrapper | fresh | orig
  deriving Repr, DecidableEq, Inhabited

structure Tok where
  id : ObjId
  tag : Tag
  deriving Repr, DecidableEq, Inhabited

def Obj.tok (o : Obj) : Tok :=
  { id := o.id,
    tag := match o.id with
      | .orig _ => .orig
      | .given _ => .asis
      | _ => match o.shape with
        | .mock => .mock
        | .pair _ => .pair
        | .wrapper => .wrapper
        | _ => .fresh }

/-! ## Calling conventions -/

inductive Exc where
  | user (e : Nat) (k : EKind := .exception)
  | typeError | attributeError | valueError
  | runtimeError     -- "asyncio mode does not support synchronous calls"
  | other
  deriving Repr, DecidableEq, Inhabited

inductive Out where
  | ok (r : Nat) (k : RKind := .plain)
  | raised (x : Exc)
  deriving Repr, DecidableEq, Inhabited

structure CallRec where
  callee : ObjId
  args : List Nat
  kw : List (Nat × Nat)
  deriving Repr, DecidableEq, Inhabited

/-- outcome of one calling convention: what the caller got and which user-level callables ran with what -/
structure ConvRes where
  out : Out
  calls : List CallRec
  deriving Repr, DecidableEq, Inhabited

/-- `f(...)`, `f.asynq(...).value()`, `yield f.asynq(...)` inside an @asynq task, `await f.asyncio(...)` -/
inductive Conv where
  | sync | value | yield | asyncio
  deriving Repr, DecidableEq, Inhabited

def Conv.all : List Conv := [.sync, .value, .yield, .asyncio]

/-- what the caller sees when the user-level callable returns / raises (called outside asyncio mode) -/
def Behav.out : Behav → Out
  | .ret r k => .ok r k
  | .raise e k => .raised (.user e k)
  | .syncCall r => .ok r .plain

/-- ... and when it runs while `is_asyncio_mode()` is true: the synchronous asynq call inside it raises -/
def Behav.outIn (inMode : Bool) (b : Behav) : Out :=
  if inMode && b.modeSensitive then .raised .runtimeError else b.out

/-- does the `.asyncio` of the `asynq(sync_fn=new)(new)` decorator run `new` inside `AsyncioMode`?  No: `_maybe_wrap_new`
    passes `asyncio_fn` = a bare coroutine function that calls `new.__func__` / `new` directly (like `_AsyncioWrapper`), and
    `AsyncAndSyncPairDecorator.__get__` hands that `asyncio_fn` on to the decorator it rebuilds.  (Before that repair
    `PureAsyncDecorator.asyncio` built it with `convert_asynq_to_async(fn)`, whose body is `with AsyncioMode(): return
    fn(*args, **kwargs)`: `true`; with `true` the hypotheses `hm` of the `_partial` theorems are needed.) -/
def pairAsyncioInMode : Bool := false

/-- the user-level callable behind `o` runs once (`inMode`: with `is_asyncio_mode()` true) -/
def invoke (o : Obj) (args : List Nat) (kw : List (Nat × Nat)) (inMode : Bool := false) : ConvRes :=
  { out := o.behav.outIn inMode,
    calls := [{ callee := o.callee, args := args, kw := kw }] }

def failWith (x : Exc) : ConvRes := { out := .raised x, calls := [] }

/-- one convention on object `o` found through `via`.
    * `_AsynqWrapper.__call__`: `ConstFuture(self._mock_fn(*args, **kwargs))` - the sync call, eagerly;
    * `_AsyncioWrapper.__call__`: coroutine whose body is `self._mock_fn(*args, **kwargs)`;
    * AsyncAndSyncPairDecorator (decorators.py): `__call__` -> `sync_fn(*args)`; found on a class, `__get__`
      builds a fresh decorator around `sync_fn.__get__(owner, cls)` (so attributes set on the installed object
      are not seen) whose `.asynq` / `.asyncio` run `fn(instance-or-class, *args)` in a task / coroutine - the
      coroutine being `convert_asynq_to_async(fn)`: `with AsyncioMode(): return fn(...)`.  So THIS path, and only
      this one, runs the replacement with `is_asyncio_mode()` true (`_AsyncioWrapper` calls it from a bare coroutine;
      the sync call, `.asynq().value()` and a yielded `.asynq()` never enter the mode). -/
def conv (o : Obj) (via : Via) (c : Conv) (args : List Nat) (kw : List (Nat × Nat)) : ConvRes :=
  match o.shape with
  | .mock | .wrapper | .callobj =>
    -- an instance with __call__ and no __get__: the lookup yields the object itself
    match c with
    | .sync => invoke o args kw
    | _ => if o.attached then invoke o args kw
           else match o.shape with
             | .mock => failWith .other      -- MagicMock would auto-create a child mock; never reached (enter attaches)
             | _ => failWith .attributeError
  | .pair d =>
    match via with
    | .plain =>
      match c, o.attached with
      | .sync, _ | _, true =>
        -- `__call__`: `self.sync_fn(*args, **kwargs)`; a bare classmethod object is not callable
        match bindPrefix d .plain with
        | some pre => invoke o (pre ++ args) kw
        | none => failWith .typeError
      | _, false =>                           -- the decorator's own .asynq/.asyncio: task around `fn` (= `new.__func__`)
        invoke o args kw (c == .asyncio && pairAsyncioInMode)
    | _ => invoke o ((bindPrefix d via).getD [] ++ args) kw (c == .asyncio && pairAsyncioInMode)
  | .origAsync d =>
    -- an AsyncDecorator object (decorators.py / qcore DecoratorBase.__get__): found on a class it yields a binder that
    -- puts the instance (func, through an instance) / the class (classmethod) in front for `__call__`, `.asynq` and
    -- `.asyncio` alike; reached directly (module attribute, instance `__dict__`) nothing is put in front.  When it is a
    -- `new` that `__enter__` decorated (`attached`), `.asynq` / `.asyncio` are `_AsynqWrapper` / `_AsyncioWrapper`
    -- around the object itself (an instance attribute shadows the method; the binder goes through
    -- `self.decorator.asynq` / `self.decorator.asyncio`): the same single run of the function with the same
    -- arguments, outside asyncio mode.  Not decorated (an original), its own `.asyncio` runs the body in asyncio mode.
    invoke o ((bindPrefix d via).getD [] ++ args) kw (c == .asyncio && !o.attached)
  | .value =>
    match c with
    | .sync => failWith .typeError            -- 'X' object is not callable
    | _ => failWith .attributeError           -- no attribute 'asynq' / 'asyncio'

/-! ## Targets and the attribute store -/

inductive TKind where
  | asyncFn (d : Desc)   -- module function / method (func), classmethod (cm), staticmethod (sm), all @asynq()
  | attr                 -- plain attribute
  deriving Repr, DecidableEq, Inhabited

/-- where the original lives relative to the patched host -/
inductive Host where
  | loc        -- in the host's own __dict__ (module attribute, class attribute)
  | inherited  -- host is an instance, the attribute is found on its class (`patch.object(instance, ...)`)
  | absent     -- the host has no such attribute (needs create=True)
  deriving Repr, DecidableEq, Inhabited

structure TSpec where
  kind : TKind
  host : Host
  via : Via              -- how callers reach an object stored in the host's __dict__
  deriving Repr, DecidableEq, Inhabited

/-- result token an original returns -/
def origRet (t : Nat) : Nat := 7000 + t

def origObj (t : Nat) (k : TKind) : Obj :=
  { id := .orig t,
    shape := match k with | .asyncFn d => .origAsync d | .attr => .value,
    attached := false, callee := .orig t, behav := .ret (origRet t) }

/-- the default value of the `autospec` parameter in the signatures of `patch` and `patch.object`, read from the
    code by the harness on every run (`inspect.signature`): is it `None` (as in unittest.mock) or not (asynq 1.6:
    `autospec=False`)? -/
structure Defaults where
  patchAutospecNone : Bool
  objectAutospecNone : Bool
  deriving Repr, DecidableEq, Inhabited

/-- the signatures as they are in the tree today (mock_.py: `autospec=None` in `patch` and in `_patch_object`, since
    the repair 60e77e0; asynq 1.6 had `autospec=False` in both = `Defaults.asynq16`) -/
def Defaults.current : Defaults := { patchAutospecNone := true, objectAutospecNone := true }
def Defaults.asynq16 : Defaults := { patchAutospecNone := false, objectAutospecNone := false }

structure Env where
  targets : List TSpec
  defaults : Defaults := Defaults.current
  deriving Repr, Inhabited

def Env.tspec (env : Env) (t : Nat) : TSpec := env.targets.getD t { kind := .attr, host := .absent, via := .plain }

/-- what `getattr(host, name)` finds beyond the host's own __dict__ -/
def Env.inh (env : Env) (t : Nat) : Option Obj :=
  if t < env.targets.length ∧ (env.tspec t).host = .inherited then some (origObj t (env.tspec t).kind) else none

def Env.initStore (env : Env) (t : Nat) : Option Obj :=
  if t < env.targets.length ∧ (env.tspec t).host = .loc then some (origObj t (env.tspec t).kind) else none

/-! ## Patchers -/

inductive Repl where
  | default                        -- new=DEFAULT
  | func | cmobj | smobj           -- plain function, classmethod object, staticmethod object
  | bound                          -- bound method of a Python object
  | callobj                        -- callable instance that accepts attribute assignment
  | sealed                         -- callable that rejects attribute assignment (__slots__, builtin bound method)
  | value                          -- not callable
  | newCallable (callable : Bool)  -- new_callable=factory; whether what the factory returns is callable
  | asyncFn (d : Desc)             -- an `@asynq()` function (d = func), `@asynq()` over classmethod / staticmethod: an
                                   -- AsyncDecorator object - not `inspect.isfunction`, callable, accepts attributes,
                                   -- and it has `__get__` (qcore DecoratorBase): it BINDS when found on a class
  deriving Repr, DecidableEq, Inhabited

structure PSpec where
  target : Nat           -- `_patch.target`: the host the patcher acts on (an index into the environment's targets);
                         -- (re)set by `step` from `slot` at construction and at every `__enter__` (see `resolveP`)
  repl : Repl
  create : Bool
  autospecNone : Bool    -- the caller passed autospec=None explicitly; otherwise the function's own default applies
  viaObject : Bool       -- built with `patch.object(obj, name, ...)` rather than `patch("path.name", ...)`
  behav : Behav
  slot : Nat := target   -- the NAME the caller gave: the dotted path `pkg.Owner.attr` (or, for patch.object, the
                         -- owner that path names at construction).  What a name refers to can change (`Op.rebind`).
  share : Option Nat := none  -- `some q`: the `new` argument is the very object that patcher q was given (one
                         -- callable / value used as the replacement in several patches, possibly open at once)
  deriving Repr, DecidableEq, Inhabited

/-- the identity of the `new` argument itself: the patcher's own object, or the one it shares -/
def PSpec.newId (s : PSpec) (p : Nat) : ObjId := .given (s.share.getD p)

def Repl.isNewCallable : Repl → Bool
  | .newCallable _ => true
  | _ => false

/-- `inspect.isfunction(new) or isinstance(new, (classmethod, staticmethod))` -/
def Repl.desc? : Repl → Option Desc
  | .func => some .func
  | .cmobj => some .cm
  | .smobj => some .sm
  | _ => none

/-- `callable(new)` for an explicit `new` -/
def Repl.isCallable : Repl → Bool
  | .value => false
  | _ => true

/-- does `new._maybe_wrap_new_test_attribute = None` succeed? -/
def Repl.acceptsAttrs : Repl → Bool
  | .bound | .sealed => false
  | _ => true

/-- `_maybe_wrap_new(new)`; `none` stands for DEFAULT -/
def maybeWrapNew (p : Nat) (s : PSpec) : Option Obj :=
  match s.repl with
  | .default | .newCallable _ => none                   -- `if new is mock.DEFAULT: return new`
  | r =>
    match r.desc? with
    | some d =>                                         -- `return asynq(sync_fn=new)(new)`: a NEW object per patcher
      some { id := .made p 0, shape := .pair d, attached := false, callee := s.newId p, behav := s.behav }
    | none =>
      if !r.isCallable then                             -- `elif not callable(new): return new`
        some { id := s.newId p, shape := .value, attached := false, callee := s.newId p, behav := s.behav }
      else if !r.acceptsAttrs then                      -- should_wrap: `return Wrapper()`: a NEW object per patcher
        some { id := .made p 0, shape := .wrapper, attached := false, callee := s.newId p, behav := s.behav }
      else                                              -- `return new`: the caller's object itself, shared or not
        some { id := s.newId p, shape := (match r with | .asyncFn d => .origAsync d | _ => .callobj),
               attached := false, callee := s.newId p, behav := s.behav }

structure Patcher where
  spec : PSpec
  new : Option Obj       -- none = DEFAULT
  deriving Repr, DecidableEq, Inhabited

/-- is the `autospec` that reaches `_patch.__init__` None? (explicit `autospec=None`, or the signature's default) -/
def PSpec.autospecIsNone (d : Defaults) (s : PSpec) : Bool :=
  s.autospecNone || (if s.viaObject then d.objectAutospecNone else d.patchAutospecNone)

/-- `_make_patch_async`: `_maybe_wrap_new`, then `_PatchAsync(...)` = `_patch.__init__`, whose checks are
    `new_callable is not None and new is not DEFAULT` (cannot happen here: `Repl` has one or the other) and
    `new_callable is not None and autospec is not None` -> ValueError.  asynq's `patch` / `patch.object` pass
    their `autospec` parameter through, so its default matters. -/
def construct (d : Defaults) (p : Nat) (s : PSpec) : Except Exc Patcher :=
  let new := maybeWrapNew p s
  if s.repl.isNewCallable && !s.autospecIsNone d then .error .valueError
  else .ok { spec := s, new := new }

/-! ## State and operations -/

/-- an open patch: patcher, its target, and the object its `__enter__` installed / returned -/
structure Entry (α : Type) where
  p : Nat
  t : Nat
  o : α
  deriving Repr, DecidableEq, Inhabited

/-- remove the (first) entry of patcher `p` from a stack of open patches -/
def eraseP {α : Type} (p : Nat) : List (Entry α) → List (Entry α)
  | [] => []
  | e :: rest => if e.p = p then rest else e :: eraseP p rest

structure State where
  store : Nat → Option Obj                     -- host.__dict__[name] per target
  patchers : Nat → Option Patcher              -- constructed patcher objects
  saved : Nat → Option (Option Obj × Bool)     -- per patcher: (temp_original, is_local) while they exist
  entries : Nat → Nat                          -- how many objects `__enter__` has created for this patcher
  active : List Nat                            -- `_patch._active_patches`
  skip : Option (Nat × Nat)                    -- inside the body of a `with` whose __enter__ raised (patcher, nesting)
  stack : List (Entry Obj)                     -- GHOST: patchers entered and not yet exited, most recent first
  bind : Nat → Nat                             -- which target the dotted path of slot `s` names right now (the owner
                                               -- in `pkg.Owner.attr` is itself a rebindable attribute of `pkg`)
  deriving Inhabited

def upd {α : Type} (f : Nat → α) (k : Nat) (v : α) : Nat → α := fun i => if i = k then v else f i

def init (env : Env) : State :=
  { store := env.initStore, patchers := fun _ => none, saved := fun _ => none, entries := fun _ => 0,
    active := [], skip := none, stack := [], bind := fun s => s }

inductive Op where
  | construct (p : Nat) (s : PSpec)   -- `asynq.mock.patch(...)` / `patch.object(...)`
  | enter (p : Nat)                   -- `with patcher:` / decorated function called
  | exit (p : Nat) (exc : Bool)       -- the block is left, normally or by an exception
  | start (p : Nat) | stop (p : Nat) | stopall
  | call (t : Nat) (args : List Nat) (kw : List (Nat × Nat))   -- all four conventions on what slot t names now
  | peek
  | rebind (s t : Nat)                -- the owner in the dotted path of slot s now is the owner of target t
                                      -- (`pkg.Owner = OtherClass`: done by the test itself, by another patch, by a reload)
  deriving Repr, DecidableEq, Inhabited

def Op.name : Op → String
  | .construct .. => "construct" | .enter _ => "enter" | .exit .. => "exit" | .start _ => "start"
  | .stop _ => "stop" | .stopall => "stopall" | .call .. => "call" | .peek => "peek" | .rebind .. => "rebind"

inductive Res where
  | made                      -- construct succeeded
  | entered (o : Tok)         -- what __enter__ / start returned
  | raised (x : Exc)
  | exited (propagated : Bool)  -- __exit__ ran; did the block's exception continue to propagate?
  | stopped | notActive       -- stop(): ran __exit__ / patch was not started
  | unit
  | skipped                   -- not executed (body of a `with` whose __enter__ raised; duplicate construct)
  | noPatcher                 -- the patcher could not be constructed
  | called (rs : List ConvRes)
  deriving Repr, DecidableEq, Inhabited

/-- `_patch.get_original`: `target.__dict__[name]` (local) or `getattr(target, name, DEFAULT)` -/
def getOriginal (env : Env) (st : State) (t : Nat) : Option Obj × Bool :=
  match st.store t with
  | some o => (some o, true)
  | none => (env.inh t, false)

/-- the object `_patch.__enter__` creates when `new is DEFAULT` (`MagicMock(**kwargs)` or `new_callable(**kwargs)`) -/
def freshObj (p n : Nat) (s : PSpec) : Obj :=
  { id := .made p n,
    shape := match s.repl with
      | .newCallable true => .callobj
      | .newCallable false => .value
      | _ => .mock,
    attached := false, callee := .made p n, behav := s.behav }

/-- `_PatchAsync.__enter__` = `_patch.__enter__` (get_original; AttributeError unless create; make the mock if
    DEFAULT; remember temp_original / is_local; setattr) then `if callable(mock_fn):` attach the wrappers -/
def installedObj (pt : Patcher) (p n : Nat) : Obj :=
  let new := match pt.new with
    | some o => o                        -- the (possibly wrapped) `new`
    | none => freshObj p n pt.spec       -- `new is DEFAULT`: `Klass(**_kwargs)`
  -- `_PatchAsync.__enter__`: `if callable(mock_fn): mock_fn.asynq = ...; mock_fn.asyncio = ...`
  if new.shape.callable then { new with attached := true } else new

def enter (env : Env) (pt : Patcher) (p : Nat) (st : State) : State × Res :=
  let t := pt.spec.target
  let (orig, loc) := getOriginal env st t
  if !pt.spec.create && orig.isNone then (st, .raised .attributeError)
  else
    let n := st.entries p
    let new := installedObj pt p n
    ({ st with store := upd st.store t (some new), saved := upd st.saved p (some (orig, loc)),
               entries := upd st.entries p (match pt.new with | some _ => n | none => n + 1),
               stack := { p := p, t := t, o := new } :: st.stack },
     .entered new.tok)

/-- what `_patch.__exit__` leaves in the host's __dict__ -/
def restoredVal (env : Env) (s : PSpec) (sv : Option Obj × Bool) : Option Obj :=
  match sv with
  | (some o, true) => some o          -- `if self.is_local and self.temp_original is not DEFAULT: setattr(original)`
  | (orig, _) =>                      -- `delattr`; proxies: `if not self.create and not hasattr(...)`: setattr(original)
    if !s.create && (env.inh s.target).isNone then orig else none

/-- `_patch.__exit__`: AttributeError if the patcher holds no `is_local` (never entered / already exited);
    otherwise restore, forget the saved state; returns False (no additional patchers), so an exception goes on -/
def exit (env : Env) (pt : Patcher) (p : Nat) (exc : Bool) (st : State) : State × Res :=
  match st.saved p with
  | none => (st, .raised .attributeError)
  | some sv =>
    ({ st with store := upd st.store pt.spec.target (restoredVal env pt.spec sv), saved := upd st.saved p none,
               stack := eraseP p st.stack },
     .exited exc)

/-- `_patch.start`: `result = self.__enter__(); self._active_patches.append(self)` -/
def start (env : Env) (pt : Patcher) (p : Nat) (st : State) : State × Res :=
  let (st', r) := enter env pt p st
  match r with
  | .entered _ => ({ st' with active := st'.active ++ [p] }, r)
  | _ => (st', r)

/-- `_patch.stop`: `self._active_patches.remove(self)` (ValueError -> return None) then `self.__exit__(None, None, None)` -/
def stop (env : Env) (pt : Patcher) (p : Nat) (st : State) : State × Res :=
  if p ∈ st.active then
    let (st', r) := exit env pt p false { st with active := st.active.erase p }
    match r with
    | .exited _ => (st', .stopped)
    | _ => (st', r)
  else (st, .notActive)

/-- `_patch_stopall`: `for patch in reversed(_patch._active_patches): patch.stop()`.  `reversed` of a list is an
    index-based iterator over the LIVE list: `i` is its index + 1; it ends when the index is no longer inside. -/
def stopallLoop (env : Env) : Nat → State → State × Res
  | 0, st => (st, .unit)
  | i + 1, st =>
    match st.active[i]? with
    | none => (st, .unit)
    | some p =>
      match st.patchers p with
      | none => (st, .raised .other)   -- cannot happen: only constructed patchers are ever started
      | some pt =>
        let (st', r) := stop env pt p st
        match r with
        | .raised x => (st', .raised x)
        | _ => stopallLoop env i st'

def callAll (env : Env) (st : State) (t : Nat) (args : List Nat) (kw : List (Nat × Nat)) : List ConvRes :=
  match st.store t with
  | some o => Conv.all.map fun c => conv o (env.tspec t).via c args kw
  | none =>
    match env.inh t with
    | some o => Conv.all.map fun c => conv o .inst c args kw   -- found on the instance's class
    | none => Conv.all.map fun _ => failWith .attributeError

/-- the owner a patcher's name refers to under the current bindings -/
def retarget (bind : Nat → Nat) (s : PSpec) : PSpec := { s with target := bind s.slot }

/-- `_patch.__enter__` starts with `self.target = self.getter()`.  For `patch("pkg.Owner.attr")` the getter is
    `lambda: _importer("pkg.Owner")` (mock._get_target): the path is looked up at EVERY entry, so the patch acts on
    what the name means now - not at construction, not at the first use.  For `patch.object(obj, ...)` the getter is
    `lambda: target` (`_patch_object` in mock_.py): always the object given at construction. -/
def resolveP (bind : Nat → Nat) (pt : Patcher) : Patcher :=
  if pt.spec.viaObject then pt else { pt with spec := retarget bind pt.spec }

def setPatcher (st : State) (p : Nat) (pt : Patcher) : State := { st with patchers := upd st.patchers p (some pt) }

def step (env : Env) (st : State) (op : Op) : State × Res :=
  match st.skip with
  | some (q, d) =>
    -- Python's `with`: __enter__ raised, the body (up to the matching end of the block) does not run
    match op with
    | .enter p => if p = q then ({ st with skip := some (q, d + 1) }, .skipped) else (st, .skipped)
    | .exit p _ =>
      if p = q then (match d with | 0 => ({ st with skip := none }, .skipped) | d' + 1 => ({ st with skip := some (q, d') }, .skipped))
      else (st, .skipped)
    | _ => (st, .skipped)
  | none =>
    match op with
    | .construct p s =>
      match st.patchers p with
      | some _ => (st, .skipped)
      | none =>
        -- the harness hands `patch.object` the owner the name refers to at this moment
        match construct env.defaults p (retarget st.bind s) with
        | .ok pt => ({ st with patchers := upd st.patchers p (some pt) }, .made)
        | .error x => (st, .raised x)
    | .enter p =>
      match st.patchers p with
      | none => ({ st with skip := some (p, 0) }, .noPatcher)
      | some pt0 =>
        let pt := resolveP st.bind pt0
        let (st', r) := enter env pt p (setPatcher st p pt)
        match r with
        | .entered _ => (st', r)
        | _ => ({ st' with skip := some (p, 0) }, r)
    | .exit p exc =>
      match st.patchers p with
      | none => (st, .noPatcher)
      | some pt => exit env pt p exc st
    | .start p =>
      match st.patchers p with
      | none => (st, .noPatcher)
      | some pt0 => start env (resolveP st.bind pt0) p (setPatcher st p (resolveP st.bind pt0))
    | .stop p =>
      match st.patchers p with
      | none => (st, .noPatcher)
      | some pt => stop env pt p st
    | .stopall => stopallLoop env st.active.length st
    | .call t args kw => (st, .called (callAll env st (st.bind t) args kw))
    | .peek => (st, .unit)
    | .rebind s t => ({ st with bind := upd st.bind s t }, .unit)

/-- what a read-only observer records after every operation: the result and the whole store -/
structure Obs where
  op : Op
  res : Res
  peeks : List (Option Tok)
  deriving Repr, DecidableEq, Inhabited

def peekAll (env : Env) (st : State) : List (Option Tok) :=
  (List.range env.targets.length).map fun t => (st.store t).map Obj.tok

def observe (env : Env) (st : State) (op : Op) : State × Obs :=
  let (st', r) := step env st op
  (st', { op := op, res := r, peeks := peekAll env st' })

def runFrom (env : Env) (st : State) : List Op → List Obs
  | [] => []
  | op :: ops => let (st', o) := observe env st op; o :: runFrom env st' ops

def finalFrom (env : Env) (st : State) : List Op → State
  | [] => st
  | op :: ops => finalFrom env (observe env st op).1 ops

def run (env : Env) (ops : List Op) : List Obs := runFrom env (init env) ops
def final (env : Env) (ops : List Op) : State := finalFrom env (init env) ops


/-! ## Well-nested histories (defined on the ghost stack, along the run)

A patcher that is open is not entered again; a patch ends (end of its block, stop(), stopall()) only when no
later patch OF THE SAME TARGET is still open; a started patch is not ended as if it were a block.  Patches of
different targets may interleave freely. -/

/-- the object the most recent open patch of target `t` installed; `init t` if there is none -/
def expectAt {α : Type} (init : Nat → Option α) : List (Entry α) → Nat → Option α
  | [], t => init t
  | e :: rest, t => if e.t = t then some e.o else expectAt init rest t

/-- `p` is the most recently opened patch among the open patches of target `t` -/
def isTop {α : Type} (t p : Nat) : List (Entry α) → Bool
  | [] => false
  | e :: rest => if e.t = t then e.p == p else isTop t p rest

/-- patcher `p` has an open patch -/
def isOpen {α : Type} (p : Nat) : List (Entry α) → Bool
  | [] => false
  | e :: rest => e.p == p || isOpen p rest

def stopallOk (env : Env) : Nat → State → Bool
  | 0, _ => true
  | i + 1, st =>
    match st.active[i]? with
    | none => true
    | some p =>
      match st.patchers p with
      | none => false
      | some pt => isTop pt.spec.target p st.stack && stopallOk env i (stop env pt p st).1

def opOk (env : Env) (st : State) : Op → Bool
  | .enter p | .start p => !isOpen p st.stack
  | .exit p _ =>
    match st.patchers p with
    | none => true
    | some pt => isTop pt.spec.target p st.stack && !st.active.contains p
  | .stop p =>
    match st.patchers p with
    | none => true
    | some pt => !st.active.contains p || isTop pt.spec.target p st.stack
  | .stopall => stopallOk env st.active.length st
  | _ => true

/-- every operation respects the discipline (operations inside a skipped block body do not count) -/
def disciplinedFrom (env : Env) (st : State) : List Op → Bool
  | [] => true
  | op :: ops => (st.skip.isSome || opOk env st op) && disciplinedFrom env (step env st op).1 ops

def disciplined (env : Env) (ops : List Op) : Bool := disciplinedFrom env (init env) ops

/-- disciplined, and in the end every patch has ended -/
def wellNested (env : Env) (ops : List Op) : Bool :=
  disciplined env ops && (final env ops).stack.isEmpty

/-- the one use of patch that the code may reject: new_callable while the `autospec` that reaches `_patch` is not
    None (see `construct`); every theorem that needs patchers to exist is stated for histories without it.  With
    `autospec=None` defaults in both signatures every `PSpec` is constructible. -/
def PSpec.constructible (d : Defaults) (s : PSpec) : Bool := !(s.repl.isNewCallable && !s.autospecIsNone d)

def Op.constructible (d : Defaults) : Op → Bool
  | .construct _ s => s.constructible d
  | _ => true

/-- THE combination in which the four conventions do NOT agree in mock_.py as it is (see `conv`): the replacement is a
    plain function / classmethod / staticmethod object (so `_maybe_wrap_new` makes the `asynq(sync_fn=new)(new)` pair),
    it is reached through a class or an instance (so `__get__` rebuilds the pair and `_AsyncioWrapper` is bypassed), and
    what it does depends on asyncio mode (`Behav.syncCall`) -/
def PSpec.modeExposed (s : PSpec) (via : Via) : Bool :=
  pairAsyncioInMode && (s.behav.modeSensitive && s.repl.desc?.isSome && via != .plain)

/-- a patcher that can never be in that situation: not that kind of replacement, or a mode-insensitive one, or an
    environment in which nothing is reached through a class / an instance -/
def PSpec.modeSafe (env : Env) (s : PSpec) : Bool :=
  !(pairAsyncioInMode && (s.behav.modeSensitive && s.repl.desc?.isSome)) || env.targets.all (fun ts => ts.via == .plain)

def Op.modeSafe (env : Env) : Op → Bool
  | .construct _ s => s.modeSafe env
  | _ => true

/-! ## The property C19 as an observer over observations (no model state involved) -/

structure Watch where
  specs : Nat → Option PSpec      -- patchers the observer saw being constructed
  stack : List (Entry Tok)        -- open patches, most recent first, with the object their __enter__ returned
  active : List Nat               -- started and not stopped, in start order
  skip : Option (Nat × Nat)
  tainted : Bool                  -- the history left the well-nested discipline: `watchStep` judges nothing any more
                                  -- (shape and frame are still demanded of every observation: `watchRun`)
  bind : Nat → Nat := fun s => s  -- what each name refers to, from the `rebind` operations the observer saw
  entries : Nat → Nat := fun _ => 0  -- per patcher: how many objects its `__enter__`s have made so far (DEFAULT /
                                  -- new_callable make a NEW object at every entry)
  deriving Inhabited

def watchInit : Watch := { specs := fun _ => none, stack := [], active := [], skip := none, tainted := false }

/-- the store the property promises: per target the object of its most recent open patch, else the original -/
def expectedPeeks (env : Env) (w : Watch) : List (Option Tok) :=
  (List.range env.targets.length).map
    (expectAt (fun t => (env.initStore t).map Obj.tok) w.stack)

/-- the arguments the replacement must receive in front of the caller's; `none`: the replacement is not callable
    where it was put (non-callable `new`, or a classmethod object outside a class) - nothing is claimed -/
def expectedPrefix (r : Repl) (via : Via) : Option (List Nat) :=
  match r with
  | .value | .newCallable false => none
  | .asyncFn d => some ((bindPrefix d via).getD [])      -- an `@asynq()` function binds like the function it wraps
  | _ =>
    match r.desc? with
    | some d => bindPrefix d via
    | none => some []

/-- who must end up being called: the user's `new`, or the object made for DEFAULT / new_callable -/
def expectedCallee (p : Nat) (s : PSpec) (o : Tok) : ObjId :=
  match s.repl with
  | .default | .newCallable _ => o.id
  | _ => s.newId p

def expectedConv (p : Nat) (s : PSpec) (o : Tok) (via : Via) (args : List Nat) (kw : List (Nat × Nat)) :
    Option ConvRes :=
  (expectedPrefix s.repl via).map fun pre =>
    { out := s.behav.out,
      calls := [{ callee := expectedCallee p s o, args := pre ++ args, kw := kw }] }

def topFor {α : Type} (t : Nat) : List (Entry α) → Option (Entry α)
  | [] => none
  | e :: rest => if e.t = t then some e else topFor t rest

/-- stopall: every started patch stops, most recently started first; `none` = some stop is not well nested -/
def stopallWatch (w : Watch) : List Nat → Option Watch
  | [] => some w
  | p :: ps =>
    match w.specs p with
    | none => none
    | some s =>
      if isTop s.target p w.stack then
        stopallWatch { w with stack := eraseP p w.stack, active := w.active.erase p } ps
      else none

/-- the object a successful `__enter__` / `start()` must install and return, for every replacement kind (`n` = how
    many objects earlier entries of this patcher have made):
    * DEFAULT: a MagicMock made at this entry; new_callable: what the factory made at this entry;
    * plain function / classmethod / staticmethod object: the `asynq(sync_fn=new)(new)` pair made at construction;
    * bound method / callable that takes no attributes: the `Wrapper()` made at construction;
    * callable object, `@asynq()` function, non-callable: the caller's object ITSELF. -/
def expectedTok (p n : Nat) (s : PSpec) : Tok :=
  match s.repl with
  | .default => { id := .made p n, tag := .mock }
  | .newCallable _ => { id := .made p n, tag := .fresh }
  | .func | .cmobj | .smobj => { id := .made p 0, tag := .pair }
  | .bound | .sealed => { id := .made p 0, tag := .wrapper }
  | .callobj | .asyncFn _ | .value => { id := s.newId p, tag := .asis }

/-- does this entry make a new object? -/
def Repl.makesFresh : Repl → Bool
  | .default | .newCallable _ => true
  | _ => false

def enterWatch (env : Env) (w : Watch) (ob : Obs) (p : Nat) (isStart : Bool) : Except String Watch :=
  match w.specs p with
  | none =>
    if ob.res == .noPatcher && ob.peeks == expectedPeeks env w then
      .ok (if isStart then w else { w with skip := some (p, 0) })
    else .error "unknown-patcher"
  | some s0 =>
    if isOpen p w.stack then .ok { w with tainted := true } else
    -- the patch acts on what its name refers to NOW (string form) / on the object given at construction (patch.object)
    let s := if s0.viaObject then s0 else retarget w.bind s0
    let w := { w with specs := upd w.specs p (some s) }
    let present := (expectAt (fun t => (env.initStore t).map Obj.tok) w.stack s.target).isSome
                   || (env.inh s.target).isSome
    if !s.create && !present then
      -- nothing to patch: AttributeError, nothing changes, the block does not run
      if ob.res == .raised .attributeError && ob.peeks == expectedPeeks env w then
        .ok (if isStart then w else { w with skip := some (p, 0) })
      else .error "enter-missing"
    else
      match ob.res with
      | .entered o =>
        -- what is installed and returned is THE object the property promises for this replacement kind (not the
        -- original left in place, not a copy or a wrapper of a callable object, not something nobody made)
        if o != expectedTok p (w.entries p) s then
          .error (if s.repl == .value then "noncallable-as-is" else "installed-object") else
        let w' := { w with stack := { p := p, t := s.target, o := o } :: w.stack, active := if isStart then w.active ++ [p] else w.active,
                           entries := if s.repl.makesFresh then upd w.entries p (w.entries p + 1) else w.entries }
        if ob.peeks == expectedPeeks env w' then .ok w' else .error "installed"
      | _ => .error "enter"

/-- the four outcomes of a call against the one that is due; `none` = all four are that one -/
def convClause (via : Via) (e : ConvRes) (rs : List ConvRes) : Option String :=
  if rs == [e, e, e, e] then none
  -- the same call log under all four, but `.asyncio(...)` alone ran the replacement in asyncio mode (its synchronous
  -- asynq call was refused): named apart, and by access path, so that the signature of this failure is stable
  else if rs == [e, e, e, { e with out := .raised .runtimeError }] then
    some (if via == .plain then "asyncio-mode-reaches-replacement/direct"
          else "asyncio-mode-reaches-replacement/through-class")
  else some "conventions"

/-- one observation against the watch state; returns the clause that fails -/
def watchStep (env : Env) (w : Watch) (ob : Obs) : Except String Watch :=
  if w.tainted then .ok w else
  match w.skip with
  | some (q, d) =>
    if ob.res != .skipped then .error "with-body-skipped"
    else if ob.peeks != expectedPeeks env w then .error "store"
    else
      match ob.op with
      | .enter p => .ok (if p = q then { w with skip := some (q, d + 1) } else w)
      | .exit p _ =>
        if p = q then (match d with | 0 => .ok { w with skip := none } | d' + 1 => .ok { w with skip := some (q, d') })
        else .ok w
      | _ => .ok w
  | none =>
    match ob.op with
    | .construct p s =>
      match w.specs p with
      | some _ => if ob.res == .skipped && ob.peeks == expectedPeeks env w then .ok w else .error "construct-dup"
      | none =>
        -- every `PSpec` is a legitimate use of patch / patch.object: the patcher must come into being
        if ob.res != .made then .error "construct"
        else if ob.peeks != expectedPeeks env w then .error "store"
        else .ok { w with specs := upd w.specs p (some (retarget w.bind s)) }
    | .enter p => enterWatch env w ob p false
    | .start p => enterWatch env w ob p true
    | .exit p exc =>
      match w.specs p with
      | none => if ob.res == .noPatcher && ob.peeks == expectedPeeks env w then .ok w else .error "unknown-patcher"
      | some s =>
        if !isTop s.target p w.stack || w.active.contains p then .ok { w with tainted := true } else
        let w' := { w with stack := eraseP p w.stack }
        -- the block's exception (if any) must go on propagating, and the store is back to what was below
        if ob.res != .exited exc then .error "exit"
        else if ob.peeks != expectedPeeks env w' then .error "restore"
        else .ok w'
    | .stop p =>
      match w.specs p with
      | none => if ob.res == .noPatcher && ob.peeks == expectedPeeks env w then .ok w else .error "unknown-patcher"
      | some s =>
        if !w.active.contains p then
          if ob.res == .notActive && ob.peeks == expectedPeeks env w then .ok w else .error "stop-inactive"
        else if !isTop s.target p w.stack then .ok { w with tainted := true }
        else
          let w' := { w with stack := eraseP p w.stack, active := w.active.erase p }
          if ob.res != .stopped then .error "stop"
          else if ob.peeks != expectedPeeks env w' then .error "restore"
          else .ok w'
    | .stopall =>
      match stopallWatch w w.active.reverse with
      | none => .ok { w with tainted := true }
      | some w' =>
        if ob.res != .unit then .error "stopall"
        else if ob.peeks != expectedPeeks env w' then .error "restore"
        else .ok w'
    | .call t args kw =>
      if ob.peeks != expectedPeeks env w then .error "store" else
      match ob.res with
      | .called rs =>
        let t := w.bind t                    -- the caller goes through the name: what it refers to now
        match topFor t w.stack with
        | none => .ok w                      -- target not patched: the original's behaviour is not C19's business
        | some e =>
          match w.specs e.p with
          | none => .ok w
          | some s =>
            match expectedConv e.p s e.o (env.tspec t).via args kw with
            | none => .ok w                  -- replacement not callable there
            | some e =>
              match convClause (env.tspec t).via e rs with
              | none => .ok w
              | some c => .error c
      | _ => .error "call"
    | .peek => if ob.peeks == expectedPeeks env w then .ok w else .error "store"
    | .rebind s t =>
      -- rebinding a name touches no host: every open patch stays where it was entered
      if ob.res != .unit then .error "rebind"
      else if ob.peeks != expectedPeeks env w then .error "store"
      else .ok { w with bind := upd w.bind s t }

/-! ### what is demanded of EVERY observation, also after the history has left the well-nested discipline

`watchStep` stops judging once `tainted` is set (which object an ill-nested history leaves where is unittest.mock's
business, not C19's).  Two things hold whatever happened before and are checked for every observation:
* shape: one entry per target in the store that is shown, and a result of the kind the operation can have (a `call`
  answers with exactly four outcomes - also on an unpatched target or a non-callable replacement);
* frame: constructing a patcher, calling, looking and re-binding a name never change what any host holds. -/

/-- the kinds of result an operation can have -/
def Res.fits : Op → Res → Bool
  | _, .skipped => true
  | .construct .., .made | .construct .., .raised _ => true
  | .enter _, .entered _ | .enter _, .raised _ | .enter _, .noPatcher => true
  | .start _, .entered _ | .start _, .raised _ | .start _, .noPatcher => true
  | .exit .., .exited _ | .exit .., .raised _ | .exit .., .noPatcher => true
  | .stop _, .stopped | .stop _, .notActive | .stop _, .raised _ | .stop _, .noPatcher => true
  | .stopall, .unit | .stopall, .raised _ => true
  | .call .., .called rs => rs.length == 4
  | .peek, .unit => true
  | .rebind .., .unit => true
  | _, _ => false

/-- operations that never write to a host -/
def Op.readOnly : Op → Bool
  | .construct .. | .call .. | .peek | .rebind .. => true
  | _ => false

def shapeOk (env : Env) (ob : Obs) : Bool := ob.peeks.length == env.targets.length && ob.res.fits ob.op

/-- what the hosts hold before anything happened -/
def initPeeks (env : Env) : List (Option Tok) :=
  (List.range env.targets.length).map fun t => (env.initStore t).map Obj.tok

/-- `last`: the store shown by the previous observation.  The clause of `watchStep` comes first, so the names of the
    clauses it reports are unchanged. -/
def watchRun (env : Env) (w : Watch) (last : List (Option Tok)) : List Obs → Except String Watch
  | [] => .ok w
  | ob :: obs =>
    match watchStep env w ob with
    | .error e => .error (e ++ "@" ++ ob.op.name)
    | .ok w' =>
      if !shapeOk env ob then .error ("shape@" ++ ob.op.name)
      else if ob.op.readOnly && ob.peeks != last then .error ("frame@" ++ ob.op.name)
      else watchRun env w' ob.peeks obs

/-- `Spec.C19`: the whole history of observations is accepted -/
def spec (env : Env) (obs : List Obs) : Bool :=
  match watchRun env watchInit (initPeeks env) obs with
  | .ok _ => true
  | .error _ => false

def specClause (env : Env) (obs : List Obs) : String :=
  match watchRun env watchInit (initPeeks env) obs with
  | .ok _ => "ok"
  | .error e => e

end AsynqModel.Mock

/-! ## A replacement that `__enter__` cannot decorate (family `enterfail` of the check; its own small model)

`_PatchAsync.__enter__` is

    mock_fn = super().__enter__()          # unittest.mock: the replacement IS installed now, the original saved
    if callable(mock_fn):
        try:
            mock_fn.asynq = _AsynqWrapper(mock_fn) ...   # raises AttributeError / TypeError if it takes no attributes
        except BaseException:
            if not self.__exit__(*sys.exc_info()): raise   # (since 06c0ef8) undo the patch, then report the failure

For an explicit `new`, `_maybe_wrap_new` has put such an object into a `Wrapper()` that takes attributes.  The product
of `new_callable` is not wrapped.  If it is callable and takes no attributes (`__slots__`, an extension type) the
second step raises AFTER the first one has installed it, and nobody else would call `__exit__`: a `with` statement does
not call `__exit__` when `__enter__` raised (PEP 343), `decoration_helper` registers a patching with its ExitStack only
after `enter_context` returned, `start()` appends to `_active_patches` only after `__enter__` returned (so `stop()`
answers None and `stopall()` does not see it).  This model has these protocols as they are, one per activation style,
and the `except` clause as a parameter (`undo`; `true` = the code as it is), so that the theorem depends on what each
style does and the necessity of the clause is a theorem too.  The history model above has no such product
(`Repl.newCallable` makes an attribute-accepting callable or a non-callable). -/
namespace AsynqModel.Mock.EnterFail

/-- what `new_callable()` hands back -/
inductive Product where
  | accepting      -- callable, takes attributes (a MagicMock, a function, an ordinary instance with `__call__`)
  | rejecting      -- callable, takes no attributes
  | noncallable
  deriving Repr, DecidableEq, Inhabited

inductive Style where
  | withBlock | deco | classDeco | startStop | startStopall
  deriving Repr, DecidableEq, Inhabited

/-- what the host's `__dict__` holds -/
inductive Held where
  | orig | product | other
  deriving Repr, DecidableEq, Inhabited

structure Obs where
  entered : Bool          -- `__enter__` / `start()` returned (false: it raised AttributeError / TypeError)
  during : Option Held    -- what the host held inside the block (none: the block did not run)
  after : Held            -- what the host holds when the whole statement / the stop() / stopall() is over
  deriving Repr, DecidableEq, Inhabited

/-- everything one activation touches -/
structure St where
  held : Held             -- `host.__dict__[name]`
  saved : Bool            -- the patcher holds `temp_original` / `is_local` (set by `_patch.__enter__`, deleted by `__exit__`)
  active : Bool           -- the patcher is in `_patch._active_patches`
  deriving Repr, DecidableEq, Inhabited

def St.init : St := { held := .orig, saved := false, active := false }

/-- `_patch.__enter__` with `new_callable`: the product is made, the original remembered, `setattr(host, name, product)` -/
def patchEnter (st : St) : St := { st with held := .product, saved := true }

/-- `_patch.__exit__`: puts the original back and forgets the saved state; without saved state it raises
    AttributeError and the host stays as it is -/
def patchExit (st : St) : St := if st.saved then { st with held := .orig, saved := false } else st

/-- the second half of `_PatchAsync.__enter__`: can the wrappers be attached? -/
def attachOk : Product → Bool
  | .accepting => true        -- attributes set
  | .noncallable => true      -- `if callable(mock_fn)` is false: nothing to do
  | .rejecting => false       -- `mock_fn.asynq = ...` raises

/-- `_PatchAsync.__enter__`; the Boolean says whether it returned (false: the exception leaves it).
    `undo`: the `except BaseException: self.__exit__(...)` clause is there (mock_.py today: yes) -/
def asyncEnter (undo : Bool) (prod : Product) (st : St) : St × Bool :=
  let st1 := patchEnter st
  if attachOk prod then (st1, true)
  else if undo then (patchExit st1, false)
  else (st1, false)

/-- the whole activation in the given style -/
def run (undo : Bool) (prod : Product) (style : Style) : Obs :=
  let (st, ok) := asyncEnter undo prod St.init
  match style with
  | .withBlock | .deco | .classDeco =>
    -- `with` (PEP 343) / `decoration_helper`'s ExitStack / the same on a `copy()` of the patcher per test method:
    -- `__exit__` is called (after the body) only if `__enter__` returned
    if ok then { entered := true, during := some st.held, after := (patchExit st).held }
    else { entered := false, during := none, after := st.held }
  | .startStop | .startStopall =>
    -- `start()`: `result = self.__enter__(); self._active_patches.append(self)`: in the list only if it returned
    let st := { st with active := ok }
    let during := if ok then some st.held else none
    -- `stop()` (what a careful test does in tearDown, whether or not setUp got through): not in the list ->
    -- returns None, `__exit__` is not called; `stopall()` stops exactly the patchers in the list
    let st' := if st.active then patchExit { st with active := false } else st
    { entered := ok, during := during, after := st'.held }

/-- the code as it is -/
def runCurrent (prod : Product) (style : Style) : Obs := run true prod style

/-! ### Round 5: WHICH exception the attribute assignment raises

`mock_fn.asynq = ...` runs the product's own `__setattr__`, so the exception is the product's choice: AttributeError
(`__slots__`, a bound method, a `spec_set` mock), TypeError (an extension type) - the two `_maybe_wrap_new` names - but
just as well ValueError (a validated model that rejects undeclared fields), a KeyError / RuntimeError, an exception
that is falsy, or one that is not an `Exception` at all.  The `except` clause of `_PatchAsync.__enter__` is a set of
classes (`catches`); mock_.py today: `except BaseException` = `catchAll`. -/

inductive ExcClass where
  | attributeError | typeError | attrSub | valueError | lookupSub | runtimeError | falsyExc | baseOnly
  deriving Repr, DecidableEq, Inhabited

/-- `except BaseException:` (mock_.py today) -/
def catchAll : ExcClass → Bool := fun _ => true

/-- `except (AttributeError, TypeError):` - the two classes `_maybe_wrap_new` documents -/
def catchDocumented : ExcClass → Bool
  | .attributeError | .typeError | .attrSub => true
  | _ => false

/-- `except Exception:` -/
def catchException : ExcClass → Bool
  | .baseOnly => false
  | _ => true

/-- one activation when the product's `__setattr__` raises an exception of class `exc` and the `except` clause of
    `_PatchAsync.__enter__` catches the classes `catches`: the undo runs iff the clause catches that class -/
def runWith (catches : ExcClass → Bool) (prod : Product) (exc : ExcClass) (style : Style) : Obs :=
  run (catches exc) prod style

/-- C19 for this family: a patch that was active had the product in place, and when the statement is over - however
    it ended, also by an exception out of `__enter__` - the original is back -/
def spec (o : Obs) : Bool :=
  o.after == .orig && (o.during == none || o.during == some .product) && (o.entered == o.during.isSome)

def specClause (o : Obs) : String :=
  if o.after != .orig then (if o.entered then "original-not-restored" else "enter-failed-original-not-restored")
  else if !(o.during == none || o.during == some .product) then "replacement-not-installed"
  else if o.entered != o.during.isSome then "block"
  else "ok"

end AsynqModel.Mock.EnterFail
