/-
  Model of asynq/generator.py: `@async_generator()`, `Value`, `_AsyncGenerator.send/_send_inner/_get_one_value/next`,
  `END_OF_GENERATOR`, and the consumer loops `list_of_generator` and `take_first`.

  A generator body is a list of steps `await b | value v | valueEnd`: `await b` is `yield <some future>` (the body
  waits for its result; `b` = that future cannot complete before the scheduler flushes a batch, so a task awaiting it
  is parked, started but not computed), `value v` is `yield Value(v)` for a payload `v` that is any object OTHER than
  the marker END_OF_GENERATOR (identity tokens (Nat); also when the payload is itself a future), and `valueEnd` is
  `yield Value(END_OF_GENERATOR)`: the one payload the code cannot tell from its own end-of-generator signal
  (generator.py:96,110 test `value is END_OF_GENERATOR`).  The statement of C17 is about bodies without `valueEnd`
  (`noMarker`, an explicit hypothesis of the theorems); `valueEnd` is modelled so that the hypothesis can be stated,
  shown necessary, and the code's behaviour there is pinned by the correspondence run.  Awaited futures succeed
  (assumption).  The state has one field per attribute of `_AsyncGenerator` plus the position of the underlying
  Python generator; the futures handed to the caller by `next()` are kept in `futs` so that a history of
  caller operations (next / send(x) with x not None / compute a future / take_first / list_of_generator / compute a
  future while a sibling task advances the generator) can be replayed.  `send(x)`: CPython rejects a non-None value
  for a generator that has not started (TypeError, the body does not move, `is_stopped` stays False - `sendVal`).
  Re-entrant advances attempted by code the body calls are not part of the state machine; their expectation is the
  closed form at the end of this file (`reenterExpected`), evaluated by the driver - no theorem speaks about it.
  NOT modelled: what an await of the body is resumed with (`_send_inner`'s `yield_result`, generator.py:154-164): the
  observation field `bad` is the literal 0 in `observe`, so the observer clauses await-result / generator-arguments /
  other-generator-disturbed are checked on the implementation only.
-/
namespace AsynqModel.Generator

inductive Step where
  | await (blocks : Bool)   -- `yield <future>`; `blocks` = the future needs a batch flush to complete
  | value (v : Nat)     -- `yield Value(v)`, `v` any object other than END_OF_GENERATOR
  | valueEnd            -- `yield Value(END_OF_GENERATOR)`: the payload is the marker object itself
  deriving Repr, DecidableEq, Inhabited

abbrev Body := List Step

/-- no `Value(END_OF_GENERATOR)` in the body: the hypothesis under which C17 is stated -/
def noMarker : Body → Bool
  | [] => true
  | .valueEnd :: _ => false
  | .await _ :: r => noMarker r
  | .value _ :: r => noMarker r

/-- what a consumer receives for one task -/
inductive Item where
  | val (v : Nat)
  | endMarker           -- END_OF_GENERATOR
  deriving Repr, DecidableEq, Inhabited

/-- a future that `next()` handed to the caller -/
inductive Fut where
  | const (r : Item)    -- ConstFuture(first_value.value): computed from construction (`.endMarker` iff the
                        -- payload was the marker object)
  | pending (blocks : Bool)   -- `_send_inner.asynq(first_value)`, not computed yet (started or not);
                              -- `blocks` = `first_value` needs a batch flush
  | done (r : Item)     -- that task, computed
  deriving Repr, DecidableEq, Inhabited

/-- identity of the task stored in `self.last_task` -/
inductive LastRef where
  | handle (k : Nat)    -- the k-th future the caller obtained from next()
  | internal            -- a task created inside a consumer loop (`for task in generator: value = yield task`),
                        -- which that loop computed before doing anything else
  deriving Repr, DecidableEq, Inhabited

inductive Exc where
  | stopIteration | runtimeError | other
  | typeError     -- CPython: "can't send non-None value to a just-started generator" (the body has not moved)
  | valueError    -- CPython: "generator already executing" (a re-entrant advance; the body has not moved)
  deriving Repr, DecidableEq, Inhabited

inductive Res where
  | fut (computed : Option Item)  -- next(): a future; `some v` = `is_computed()` with value v
  | item (r : Item)               -- value of a future
  | lst (l : List Item)           -- list returned by list_of_generator / take_first
  | raised (x : Exc)
  deriving Repr, DecidableEq, Inhabited

/-- the ways of advancing the generator -/
inductive Adv where
  | next | take (n : Nat) | list
  deriving Repr, DecidableEq, Inhabited

inductive Op where
  | next                -- next(gen), the returned future is kept by the caller
  | compute (k : Nat)   -- .value() of the k-th future the caller holds
  | take (n : Nat)      -- take_first(gen, n)
  | list                -- list_of_generator(gen)
  | send                -- `gen.send.asynq(x)` for an object `x` that is not None (the rarely used sibling of next());
                        -- the returned future is kept by the caller like the one of `next`
  | par (k : Nat) (a : Adv)   -- two consumers: `yield held[k], sibling.asynq()` where the sibling advances the
                              -- generator by `a` - it runs when the k-th future has run as far as it can without
                              -- a batch flush (started, parked, not computed - or already computed)
  deriving Repr, DecidableEq, Inhabited

def Adv.toOp : Adv → Op
  | .next => .next | .take n => .take n | .list => .list

def Adv.name : Adv → String
  | .next => "next" | .take 0 => "take0" | .take _ => "take" | .list => "list"

def Op.name : Op → String
  | .next => "next" | .compute _ => "compute" | .take 0 => "take0" | .take _ => "take" | .list => "list"
  | .send => "send"
  | .par _ a => "par-" ++ a.name

structure St where
  rest : Body                  -- what the underlying Python generator has not yielded yet
  pulled : Nat                 -- how many items the underlying generator has yielded
  stopped : Bool               -- `is_stopped` (the underlying generator raised StopIteration)
  lastTask : Option LastRef    -- `last_task`
  futs : List Fut              -- the futures the caller holds, in the order next() returned them
  deriving Repr, DecidableEq, Inhabited

def init (b : Body) : St := { rest := b, pulled := 0, stopped := false, lastTask := none, futs := [] }

/-- `self.last_task is not None and not self.last_task.is_computed()` (generator.py:136-137) -/
def St.blocked (s : St) : Bool :=
  match s.lastTask with
  | some (.handle k) => (match s.futs[k]? with | some (.pending _) => true | _ => false)
  | _ => false

/-- `_get_one_value` (generator.py:168-173): `none` = StopIteration (after setting `is_stopped`) -/
def getOneValue (s : St) : St × Option Step :=
  match s.rest with
  | [] => ({ s with stopped := true }, none)
  | x :: r => ({ s with rest := r, pulled := s.pulled + 1 }, some x)

inductive SendRes where
  | raised (x : Exc)
  | const (r : Item)    -- `return ConstFuture(first_value.value)`
  | task (blocks : Bool)   -- `return task` (and `last_task = task`); `blocks`: the first awaited future
  deriving Repr, DecidableEq, Inhabited

/-- `send(None)` = `next()` (generator.py:127-152); `ref` is the identity of the task that would be created -/
def send (s : St) (ref : LastRef) : St × SendRes :=
  if s.blocked then (s, .raised .runtimeError)            -- 136-140
  else if s.stopped then (s, .raised .stopIteration)      -- 141-142
  else
    match getOneValue s with                              -- 147
    | (s1, none) => (s1, .raised .stopIteration)          -- StopIteration leaves _get_one_value and send
    | (s1, some (.value v)) => (s1, .const (.val v))      -- 148-149 (last_task is NOT updated)
    | (s1, some .valueEnd) => (s1, .const .endMarker)     -- the same lines; `first_value.value` is the marker
    | (s1, some (.await b)) => ({ s1 with lastTask := some ref }, .task b)   -- 150-152

/-- the `while True` of `_send_inner` (generator.py:158-166), after `yield first_task` returned; `_send_inner` never
    assigns `last_task` -/
def sendInnerLoop : Nat → St → St × Item
  | 0, s => (s, .endMarker)   -- out of fuel: never reached with the fuel `sendInner` gives (sendInnerLoop_spec)
  | fuel + 1, s =>
    match getOneValue s with
    | (s1, none) => (s1, .endMarker)                   -- except StopIteration: return END_OF_GENERATOR
    | (s1, some (.value v)) => (s1, .val v)            -- return value.value
    | (s1, some .valueEnd) => (s1, .endMarker)         -- return value.value, which is the marker (NOT stopped)
    | (s1, some (.await _)) => sendInnerLoop fuel s1   -- yield_result = yield value

/-- computing a `_send_inner` task (to the end, however often it is parked on the way) -/
def sendInner (s : St) : St × Item := sendInnerLoop (s.rest.length + 1) s

/-- the same loop as far as it gets without a batch flush: `none` = parked on a future that needs one -/
def startLoop : Nat → St → St × Option Item
  | 0, s => (s, none)
  | fuel + 1, s =>
    match getOneValue s with
    | (s1, none) => (s1, some .endMarker)
    | (s1, some (.value v)) => (s1, some (.val v))
    | (s1, some .valueEnd) => (s1, some .endMarker)
    | (s1, some (.await true)) => (s1, none)             -- `yield value` parks the task
    | (s1, some (.await false)) => startLoop fuel s1

/-- starting a `_send_inner` task whose `first_task` blocks or not -/
def startTask (s : St) (firstBlocks : Bool) : St × Option Item :=
  if firstBlocks then (s, none) else startLoop (s.rest.length + 1) s

/-- `.value()` of the k-th future the caller holds -/
def compute (s : St) (k : Nat) : St × Res :=
  match s.futs[k]? with
  | none => (s, .raised .other)
  | some (.const r) => (s, .item r)
  | some (.done r) => (s, .item r)
  | some (.pending _) =>
    let (s1, r) := sendInner s
    ({ s1 with futs := s1.futs.set k (.done r) }, .item r)

/-- the caller's `next(gen)`: `send`, and the returned future is remembered -/
def next (s : St) : St × Res :=
  match send s (.handle s.futs.length) with
  | (s1, .raised x) => (s1, .raised x)
  | (s1, .const r) => ({ s1 with futs := s1.futs ++ [.const r] }, .fut (some r))
  | (s1, .task b) => ({ s1 with futs := s1.futs ++ [.pending b] }, .fut none)

/-- one trip of `for task in generator:` + `value = yield task` (generator.py:94-95 and 108-109) -/
def pull (s : St) : St × Except Exc Item :=
  match send s .internal with
  | (s1, .raised x) => (s1, .error x)
  | (s1, .const r) => (s1, .ok r)
  | (s1, .task _) => let (s2, r) := sendInner s1; (s2, .ok r)

/-- `list_of_generator` (generator.py:90-99) -/
def listLoop : Nat → St → List Item → St × Res
  | 0, s, _ => (s, .raised .other)    -- out of fuel: never reached (listLoop_within_fuel)
  | fuel + 1, s, data =>
    match pull s with
    | (s1, .error .stopIteration) => (s1, .lst data)          -- the for loop ends; return data
    | (s1, .error x) => (s1, .raised x)
    | (s1, .ok .endMarker) => listLoop fuel s1 data           -- if value is END_OF_GENERATOR: continue
    | (s1, .ok v) => listLoop fuel s1 (data ++ [v])           -- data.append(value)

def listOf (s : St) : St × Res := listLoop (s.rest.length + 1) s []

/-- `take_first`'s loop (generator.py:108-114); `i` is the `enumerate` index, which counts tasks -/
def takeLoop : Nat → Nat → Nat → St → List Item → St × Res
  | 0, _, _, s, _ => (s, .raised .other)   -- out of fuel: never reached (takeLoop_within_fuel)
  | fuel + 1, n, i, s, ret =>
    match pull s with
    | (s1, .error .stopIteration) => (s1, .lst ret)
    | (s1, .error x) => (s1, .raised x)
    | (s1, .ok .endMarker) => takeLoop fuel n (i + 1) s1 ret          -- continue (skips the break test)
    | (s1, .ok v) =>
      if (i : Int) == (n : Int) - 1 then (s1, .lst (ret ++ [v]))      -- if i == n - 1: break
      else takeLoop fuel n (i + 1) s1 (ret ++ [v])

/-- `take_first(generator, n)`: `if n <= 0: return ret` (generator.py:106-107) comes before the loop, so for
    `n = 0` the generator is not touched at all (not even by the guard in `send`) -/
def takeFirst (s : St) (n : Nat) : St × Res :=
  if n == 0 then (s, .lst []) else takeLoop (s.rest.length + 1) n 0 s []

def stepBasic (s : St) : Op → St × Res
  | .next => next s
  | .compute k => compute s k
  | .take n => takeFirst s n
  | .list => listOf s
  | .par _ _ => (s, .raised .other)   -- not a basic operation (see `par`)
  | .send => (s, .raised .other)      -- not a basic operation (see `sendVal`)

/-- the underlying Python generator has not been started (and nothing keeps `send` from reaching it): CPython refuses
    a non-None value there -/
def St.fresh (s : St) : Bool := !s.blocked && !s.stopped && s.pulled == 0

/-- `send(x)` with `x` not None (generator.py:131-152, the same function as `next` = `send(None)`): the guard and the
    exhaustion test come first; then `self.generator.send(x)` (generator.py:170) - for a generator that has not
    started CPython raises TypeError WITHOUT running the body; `except StopIteration` in `_get_one_value` does not
    match, so `is_stopped` stays False and nothing has moved.  A started generator that `send` may advance is
    suspended at a `yield Value(...)` whose result the body ignores: from there on `send(x)` is `send(None)`. -/
def sendVal (s : St) : St × Res :=
  if s.blocked then (s, .raised .runtimeError)            -- 136-140
  else if s.stopped then (s, .raised .stopIteration)      -- 141-142
  else if s.pulled == 0 then (s, .raised .typeError)      -- 147 -> 170: TypeError, not StopIteration
  else next s

/-- `first, second = yield held[k], sibling.asynq()`: the scheduler runs the k-th future first, as far as it gets
    without flushing a batch; then the sibling advances the generator (`Bool` = was the k-th future computed at that
    moment, `Res` = what the sibling's advance gave); then everything is run to completion -/
def par (s : St) (k : Nat) (a : Adv) : St × Res × Option (Bool × Res) :=
  match s.futs[k]? with
  | none => (s, .raised .other, none)
  | some (.const x) => let (s1, r2) := stepBasic s a.toOp; (s1, .item x, some (true, r2))
  | some (.done x) => let (s1, r2) := stepBasic s a.toOp; (s1, .item x, some (true, r2))
  | some (.pending b) =>
    match startTask s b with
    | (s1, some x) =>
      let (s2, r2) := stepBasic { s1 with futs := s1.futs.set k (.done x) } a.toOp
      (s2, .item x, some (true, r2))
    | (s1, none) =>
      let (s2, r2) := stepBasic s1 a.toOp          -- the task is started, parked, NOT computed
      let (s3, x) := sendInner s2                   -- the batch is flushed, the task runs to its end
      ({ s3 with futs := s3.futs.set k (.done x) }, .item x, some (false, r2))

/-- what the harness records after every operation -/
structure Obs where
  op : Op
  res : Res
  sib : Option (Bool × Res)   -- `par` only: was held[k] computed when the sibling ran, and the sibling's result
  pos : Nat      -- items the underlying generator has yielded so far
  fin : Bool     -- the underlying generator has run off its end
  bad : Nat      -- awaits of the body that were resumed with something else than the awaited result
  deriving Repr, DecidableEq, Inhabited

def observeBasic (s : St) (op : Op) : St × Obs :=
  let (s1, r) := stepBasic s op
  (s1, { op := op, res := r, sib := none, pos := s1.pulled, fin := s1.stopped, bad := 0 })

def observe (s : St) (op : Op) : St × Obs :=
  match op with
  | .par k a =>
    let (s1, r, sib) := par s k a
    (s1, { op := .par k a, res := r, sib := sib, pos := s1.pulled, fin := s1.stopped, bad := 0 })
  | .send =>
    let (s1, r) := sendVal s
    (s1, { op := .send, res := r, sib := none, pos := s1.pulled, fin := s1.stopped, bad := 0 })
  | op => observeBasic s op

def run (s : St) : List Op → List Obs
  | [] => []
  | op :: ops => let (s1, o) := observe s op; o :: run s1 ops

def finalState (s : St) : List Op → St
  | [] => s
  | op :: ops => finalState (observe s op).1 ops

/-! ## Nested generators: an outer generator that iterates an inner one as documented and re-yields its Values

    for task in inner:  value = yield task;  if value is END_OF_GENERATOR: continue;  yield Value(value)

  `outerResume` is that loop, as the underlying Python generator of the outer `_AsyncGenerator`, written over the
  model of the inner generator (`send`, `sendInner`); `wrap` is the closed form of the list of steps it yields
  (theorem `C17_nested_loop`: `outerBody … (init b) .atFor = wrap b`), which is what the driver feeds to the model
  for the nested cases of the correspondence run. -/

/-- skip the awaits a `_send_inner` task consumes -/
def skipAwaits : Body → Body
  | .await _ :: r => skipAwaits r
  | b => b

/-- does a `_send_inner` task that has `b` before it get parked (one of the awaits it consumes needs a flush)? -/
def leadBlock : Body → Bool
  | .await b :: r => b || leadBlock r
  | _ => false

/-- where the Python generator of the outer generator is suspended -/
inductive Phase where
  | atFor                 -- not started, or suspended at `yield Value(value)`: resuming it goes to the `for` header
  | gotConst (r : Item)   -- suspended at `value = yield task`, `task` = the ConstFuture(r) that next(inner) returned
  | gotTask               -- suspended at `value = yield task`, `task` = the `_send_inner` task next(inner) returned
  | done                  -- returned (the `for` loop ended) or raised
  deriving Repr, DecidableEq, Inhabited

/-- resuming the outer Python generator (`self.generator.send(x)` of the OUTER `_AsyncGenerator`, where `x` is the
    result of the future it yielded last) with the inner generator in state `i`: the next step it yields, or the
    exception it ends with.  An inner task it yielded has been computed by then (the outer `_send_inner`/consumer
    yielded it to the scheduler): the inner state advances by `sendInner`.  The yielded inner task parks the task
    that awaits it iff it parks itself (`startTask … = none`).  `outerFor` is the `for` header. -/
def outerFor (i : St) : (St × Phase) × Except Exc Step :=
  match send i .internal with                  -- `for task in inner:` = next(inner)
  | (i1, .raised x) => ((i1, .done), .error x) -- StopIteration ends the loop and the function; others propagate
  | (i1, .const r) => ((i1, .gotConst r), .ok (.await false))                          -- value = yield task
  | (i1, .task bb) => ((i1, .gotTask), .ok (.await ((startTask i1 bb).2 == none)))     -- value = yield task

def outerResume (i : St) : Phase → (St × Phase) × Except Exc Step
  | .done => ((i, .done), .error .stopIteration)     -- a finished Python generator raises StopIteration
  | .atFor => outerFor i
  | .gotConst .endMarker => outerFor i               -- if value is END_OF_GENERATOR: continue
  | .gotConst (.val v) => ((i, .atFor), .ok (.value v))          -- yield Value(value)
  | .gotTask =>
    match sendInner i with
    | (i1, .endMarker) => outerFor i1
    | (i1, .val v) => ((i1, .atFor), .ok (.value v))

/-- the list of steps the outer Python generator yields until it ends (at most `n` of them) -/
def outerBody : Nat → St → Phase → Body
  | 0, _, _ => []
  | n + 1, i, ph =>
    match outerResume i ph with
    | ((i1, ph1), .ok st) => st :: outerBody n i1 ph1
    | (_, .error _) => []

/-- the outer loop after it has yielded `p` steps: the state of the INNER generator and where the loop is suspended
    (an inner task it has yielded last has not been run yet - it runs before the loop is resumed, `outerResume`) -/
def outerAfter : Nat → St → Phase → St × Phase
  | 0, i, ph => (i, ph)
  | p + 1, i, ph =>
    match outerResume i ph with
    | ((i1, ph1), .ok _) => outerAfter p i1 ph1
    | ((i1, ph1), .error _) => (i1, ph1)

/-- how far the inner generator (body `b`) has been advanced when the Python generator of the outer one has yielded `p`
    items and (`fin`) has then run off its end: (items pulled from the inner body, inner body ran off its end).  At the
    moments the harness observes (after a caller operation has returned) every task of every level is either not
    started or computed, which is the grain of `outerResume`. -/
def innerAt (b : Body) (p : Nat) (fin : Bool) : Nat × Bool :=
  let (i, ph) := outerAfter p (init b) .atFor
  if fin then
    let r := outerResume i ph
    (r.1.1.pulled, r.1.1.stopped)
  else (i.pulled, i.stopped)

/-- closed form of `outerBody`; `inTask` = the outer generator is awaiting an inner task whose Value has not been
    produced yet -/
def wrapAux : Bool → Body → Body
  | _, [] => []
  | false, .value v :: r => .await false :: .value v :: wrapAux false r   -- inner ConstFuture: await it, re-yield
  | false, .valueEnd :: r => .await false :: wrapAux false r              -- inner ConstFuture(marker): await, skip
  | false, .await b :: r => .await (b || leadBlock r) :: wrapAux true r   -- inner task: await it (parks if it parks)
  | true, .await _ :: r => wrapAux true r                           -- consumed inside the inner task
  | true, .value v :: r => .value v :: wrapAux false r              -- the inner task's result, re-yielded
  | true, .valueEnd :: r => wrapAux false r                         -- the inner task's result is the marker: skipped

def wrap (b : Body) : Body := wrapAux false b

def wrapN : Nat → Body → Body
  | 0, b => b
  | k + 1, b => wrap (wrapN k b)

/-- `k` levels of nesting over the body `b0`, the outermost Python generator having yielded `p` items (`fin`: ran off
    its end): what every level below must have yielded, from level `k - 1` down to the body itself (level 0) -/
def innerLevels (b0 : Body) : Nat → Nat → Bool → List (Nat × Bool)
  | 0, _, _ => []
  | k + 1, p, fin => let x := innerAt (wrapN k b0) p fin; x :: innerLevels b0 k x.1 x.2

/-! ## The property C17 as an observer over the observations alone (a sequential reference: the generator is
    a cursor over its body).  C17 is stated for bodies without `Value(END_OF_GENERATOR)` (`noMarker`): for such a
    payload "list_of_generator returns all the Values" and "END_OF_GENERATOR never appears in the result" contradict
    each other, so no implementation can satisfy the statement there (see `C17_marker_payload_unsatisfiable`). -/

/-- every Value payload in program order (the marker object as `.endMarker`) -/
def payloads : Body → List Item
  | [] => []
  | .await _ :: r => payloads r
  | .value v :: r => .val v :: payloads r
  | .valueEnd :: r => .endMarker :: payloads r

/-- the payloads other than the marker; for a `noMarker` body: all of them (`payloads_eq_values`) -/
def values : Body → List Nat
  | [] => []
  | .await _ :: r => values r
  | .value v :: r => v :: values r
  | .valueEnd :: r => values r

/-- the body after its n-th Value (`[]` if it has fewer): how far `take_first(gen, n)` may advance -/
def dropValues : Nat → Body → Body
  | 0, b => b
  | _ + 1, [] => []
  | n + 1, .await _ :: r => dropValues (n + 1) r
  | n + 1, .value _ :: r => dropValues n r
  | n + 1, .valueEnd :: r => dropValues (n + 1) r

/-- what the reference knows about a future the caller holds -/
inductive Known where
  | val (x : Item)             -- computed, with this value
  | pending (blocks : Bool)    -- a task that is not computed yet; `blocks` = its first awaited future needs a flush
  deriving Repr, DecidableEq, Inhabited

def Known.isPending : Known → Bool
  | .pending _ => true
  | .val _ => false

structure Watch where
  rest : Body                    -- what the reference has not delivered yet
  fin : Bool                     -- the reference has seen the end of the body
  known : List Known             -- per future the caller holds
  deriving Repr, DecidableEq, Inhabited

def watchInit (b : Body) : Watch := { rest := b, fin := false, known := [] }

/-- a previously returned task has not been computed -/
def Watch.blocked (w : Watch) : Bool := w.known.any Known.isPending

def Res.hasMarker : Res → Bool
  | .lst l => l.any (· == .endMarker)
  | _ => false

/-- the outstanding task k runs to its end: it delivers the next Value after the awaits, or END_OF_GENERATOR -/
def drainWatch (w : Watch) (k : Nat) : Watch × Item :=
  match skipAwaits w.rest with
  | .value v :: r => ({ w with rest := r, known := w.known.set k (.val (.val v)) }, .val v)
  | _ => ({ rest := [], fin := true, known := w.known.set k (.val .endMarker) }, .endMarker)

/-- what the harness's counter `bad` says went wrong: units = awaits of the body resumed with something else than the
    awaited result, hundreds = the arguments of the generator function did not arrive (`*args, **kwargs` of the wrapper),
    ten-thousands = ANOTHER generator made by the same decorated function was disturbed -/
def badClause (bad : Nat) : String :=
  if bad % 100 != 0 then "await-result"
  else if (bad / 100) % 100 != 0 then "generator-arguments"
  else "other-generator-disturbed"

/-- one observation of a basic operation against the reference; returns the clause that fails -/
def watchBasic (total : Nat) (w : Watch) (ob : Obs) : Except String Watch :=
  if ob.bad != 0 then .error (badClause ob.bad) else
  if ob.res.hasMarker then .error "end-marker" else
  match ob.op with
  | .next =>
    if w.blocked then
      if ob.res == .raised .runtimeError && ob.pos + w.rest.length == total && ob.fin == w.fin then .ok w
      else .error "guard"
    else
      match w.rest with
      | [] =>
        if ob.res == .raised .stopIteration && ob.pos == total && ob.fin then .ok { w with fin := true }
        else .error "exhausted"
      | .value v :: r =>
        if ob.res == .fut (some (.val v)) && ob.pos + r.length == total && ob.fin == w.fin then
          .ok { w with rest := r, known := w.known ++ [.val (.val v)] }
        else .error "next-value"
      | .await b :: r =>
        if ob.res == .fut none && ob.pos + r.length == total && ob.fin == w.fin then
          .ok { w with rest := r, known := w.known ++ [.pending b] }
        else .error "next-task"
      | .valueEnd :: _ => .error "marker-payload"     -- outside the statement (`spec` demands `noMarker`)
  | .compute k =>
    match w.known[k]? with
    | none =>
      -- a future the caller does not hold (malformed history): the harness's own error, nothing may have moved
      if ob.res == .raised .other && ob.pos + w.rest.length == total && ob.fin == w.fin then .ok w
      else .error "no-such-future"
    | some (.val x) =>
      if ob.res == .item x && ob.pos + w.rest.length == total && ob.fin == w.fin then .ok w
      else .error "future-stable"
    | some (.pending _) =>
      match skipAwaits w.rest with
      | .value v :: r =>
        if ob.res == .item (.val v) && ob.pos + r.length == total && ob.fin == w.fin then
          .ok { w with rest := r, known := w.known.set k (.val (.val v)) }
        else .error "task-value"
      | _ =>
        if ob.res == .item .endMarker && ob.pos == total && ob.fin then
          .ok { rest := [], fin := true, known := w.known.set k (.val .endMarker) }
        else .error "task-end"
  | .take n =>
    if n == 0 then
      -- take_first(gen, 0) returns no Values and does not touch the generator, whether or not a task is pending
      if ob.res == .lst [] && ob.pos + w.rest.length == total && ob.fin == w.fin then .ok w
      else .error "take-zero"
    else if w.blocked then
      if ob.res == .raised .runtimeError && ob.pos + w.rest.length == total && ob.fin == w.fin then .ok w
      else .error "guard"
    else
      let r := dropValues n w.rest
      let fin := w.fin || decide ((values w.rest).length < n)
      if ob.res != .lst (((values w.rest).take n).map .val) then .error "take-values"
      else if ob.pos + r.length != total then .error "take-consumed"
      else if ob.fin != fin then .error "take-finished"
      else .ok { w with rest := r, fin := fin }
  | .list =>
    if w.blocked then
      if ob.res == .raised .runtimeError && ob.pos + w.rest.length == total && ob.fin == w.fin then .ok w
      else .error "guard"
    else
      if ob.res != .lst ((values w.rest).map .val) then .error "list-values"
      else if ob.pos != total || !ob.fin then .error "list-consumed"
      else .ok { w with rest := [], fin := true }
  | .par _ _ => .error "not-basic"
  | .send => .error "not-basic"

/-- an advance was refused: an exception other than StopIteration (which would say "exhausted") -/
def Res.isRefusal : Res → Bool
  | .raised .stopIteration => false
  | .raised _ => true
  | _ => false

/-- the reference has delivered nothing yet, has not seen the end and no returned task is uncomputed: the underlying
    generator has not been started -/
def Watch.fresh (total : Nat) (w : Watch) : Bool := !w.blocked && !w.fin && w.rest.length == total

/-- the sibling's advance, judged as the basic operation it is, with the position observed at the end -/
def sibObs (ob : Obs) (a : Adv) (r2 : Res) : Obs :=
  { op := a.toOp, res := r2, sib := none, pos := ob.pos, fin := ob.fin, bad := ob.bad }

/-- what an advance must give while the previously returned task is not computed -/
def refused (a : Adv) : Res :=
  match a with
  | .take 0 => .lst []            -- take_first(gen, 0) does not advance
  | _ => .raised .runtimeError

/-- one observation against the reference; returns the clause that fails -/
def watchStep (total : Nat) (w : Watch) (ob : Obs) : Except String Watch :=
  match ob.op with
  | .par k a =>
    if ob.bad != 0 then .error (badClause ob.bad) else
    match ob.sib with
    | none =>
      match w.known[k]? with
      | none =>
        if ob.res == .raised .other && ob.pos + w.rest.length == total && ob.fin == w.fin then .ok w
        else .error "no-such-future"
      | some _ => .error "sibling-missing"
    | some (d, r2) =>
      match w.known[k]? with
      | none => .error "no-such-future"
      | some (.val x) =>
        if ob.res != .item x || !d then .error "future-stable"
        else watchBasic total w (sibObs ob a r2)
      | some (.pending pb) =>
        let (w1, x) := drainWatch w k
        -- the task cannot be computed before a batch is flushed iff its first await or one of the awaits it
        -- consumes before its Value needs a flush; the sibling runs before any flush
        let parks := pb || leadBlock w.rest
        if ob.res != .item x then .error "task-result"
        else if d == parks then .error "task-parked"
        else if d then watchBasic total w1 (sibObs ob a r2)     -- the task was computed when the sibling ran
        else
          -- the task had started but was NOT computed when the sibling advanced: the guard must still hold
          if r2 == refused a && ob.pos + w1.rest.length == total && ob.fin == w1.fin then .ok w1
          else .error "guard-started"
  | .send =>
    -- `send(x)`, x not None.  `_AsyncGenerator.send` is the generator protocol's `send` (`next()` is `send(None)`):
    -- a generator that has not started refuses a non-None value with TypeError (PEP 342) and then NOTHING may have
    -- moved - the Values are all still to be delivered; any other generator treats it as `next()`.  (Until round 5
    -- this clause accepted any exception but StopIteration, and a fresh generator that treated send(x) as next();
    -- the second audit listed those as accepted wrong observations, and with them accepted `spec` was not the model:
    -- `C17_spec_exact`.)
    if ob.sib.isSome then .error "sibling-unexpected"
    else if w.fresh total then
      if ob.bad != 0 then .error (badClause ob.bad)
      else if ob.res == .raised .typeError && ob.pos + w.rest.length == total && ob.fin == w.fin then .ok w
      else if ob.res.isRefusal && ob.pos + w.rest.length == total && ob.fin == w.fin then .error "send-refusal-class"
      else .error "send-rejected"
    else watchBasic total w { ob with op := .next }
  | _ => if ob.sib.isSome then .error "sibling-unexpected" else watchBasic total w ob

def watchRun (total : Nat) (w : Watch) : List Obs → Except String Watch
  | [] => .ok w
  | ob :: obs =>
    match watchStep total w ob with
    | .ok w' => watchRun total w' obs
    | .error e => .error (e ++ "@" ++ ob.op.name)

/-- `Spec.C17`: the body is one the statement is about and the whole history is accepted -/
def spec (b : Body) (obs : List Obs) : Bool :=
  noMarker b &&
  match watchRun b.length (watchInit b) obs with
  | .ok _ => true
  | .error _ => false

def specClause (b : Body) (obs : List Obs) : String :=
  if !noMarker b then "marker-payload" else
  match watchRun b.length (watchInit b) obs with
  | .ok _ => "ok"
  | .error e => e

/-- what is left of the statement for a body WITH a `Value(END_OF_GENERATOR)` (outside C17): every await is
    resumed with the awaited result and END_OF_GENERATOR appears in no list - the correspondence run judges the rest -/
def outsideClause (obs : List Obs) : String :=
  if obs.any (fun o => o.bad != 0) then "await-result"
  else if obs.any (fun o => o.res.hasMarker || (match o.sib with | some (_, r) => r.hasMarker | none => false)) then
    "end-marker"
  else "ok"

/-! ## Re-entrant advances: code that the BODY calls tries to advance the generator that is executing it

  (`yield Value(lookahead())` where `lookahead` calls `next(gen)` / `take_first(gen, n)` / `list_of_generator(gen)` /
  `gen.send(x)` on the running generator and catches the refusal.)  The model above has no state "the body is
  executing", so this family is judged by the DIRECT EXPECTATION below (evaluated by the driver on the log the harness
  records; NO theorem speaks about it):
  * the code before the j-th item runs inside the `_send_inner` task iff item j-1 is an await (the task consumed it;
    that task is `last_task` and not computed): `send` raises RuntimeError at generator.py:136-140 - the guard clause
    of C17;
  * otherwise it runs inside `send()` itself (first `_get_one_value`, generator.py:147): `last_task` is None or computed,
    `is_stopped` is False, so `self.generator.send` is reached and CPython refuses it: ValueError (generator already
    executing); `except StopIteration` does not match, nothing is marked stopped;
  * `take_first(gen, 0)` returns `[]` without touching anything.
  In every case nothing moves: the rest of the history is judged by `spec` as if the attempt had not happened.
  Status of the three expectations: the first and the third are consequences of the property text (guard clause; "none
  for n = 0").  About the second the property is SILENT: `reenterAccepts` (SPEC) only demands some exception other than
  StopIteration, and that it is ValueError (CORR, `reenterCheck true`) is today's CPython behaviour - a regression test
  of the code as it exists, not a verdict on C17. -/

def prevIsAwait (b : Body) (j : Nat) : Bool :=
  j != 0 && (match b[j - 1]? with | some (.await _) => true | _ => false)

/-- what the re-entrant advance `a`, attempted by the code that runs before item `j` (`j = b.length`: after the last
    item), must give -/
def reenterExpected (b : Body) (j : Nat) (a : Op) : Res :=
  match a with
  | .take 0 => .lst []
  | _ => if prevIsAwait b j then .raised .runtimeError else .raised .valueError

/-- one entry of the log: position, the advance attempted, what it gave -/
structure ReEvent where
  j : Nat
  a : Op
  res : Res
  deriving Repr, DecidableEq, Inhabited

/-- the attempts that are due while the underlying generator of the body moves from `p` items yielded (`f`: run off its
    end) to `p'` (`f'`) -/
def reenterDue (b : Body) (annot : List (Nat × Op)) (p : Nat) (f : Bool) (p' : Nat) (f' : Bool) : List ReEvent :=
  (annot.filter (fun x => (p ≤ x.1 && x.1 < p') || (x.1 == b.length && f' && !f))).map
    (fun x => { j := x.1, a := x.2, res := reenterExpected b x.1 x.2 })

def reenterClauseOf (e : ReEvent) : String :=
  (match e.res with
    | .raised .runtimeError => "reenter-guard"
    | .raised .valueError => "reenter-rejected"
    | _ => "reenter-take-zero") ++ "@" ++ e.a.name

/-- what C17 itself demands of the attempt (`e` = what the code as it exists does, `g` = what was observed): the guard
    clause (RuntimeError while the running task is not computed) and `take_first(gen, 0) = []` exactly; inside `send()`
    the statement only demands that the advance is REFUSED - any exception but StopIteration (the generator is not
    exhausted) - that it is CPython's ValueError is the code as it exists (correspondence), not the property -/
def reenterAccepts (e g : ReEvent) : Bool :=
  e.j == g.j && e.a == g.a &&
  (match e.res with
    | .raised .valueError => (match g.res with | .raised .stopIteration => false | .raised _ => true | _ => false)
    | r => g.res == r)

/-- compare the log of one operation with what is due; the clause that fails (`exact`: as the code does it) -/
def reenterCheck (exact : Bool) : List ReEvent → List ReEvent → Option String
  | [], [] => none
  | e :: es, g :: gs =>
    if (if exact then e == g else reenterAccepts e g) then reenterCheck exact es gs else some (reenterClauseOf e)
  | e :: _, [] => some ("reenter-missing@" ++ e.a.name)
  | [], g :: _ => some ("reenter-unexpected@" ++ g.a.name)

/-- the whole history: per operation the base position after it and its log -/
def reenterRun (exact : Bool) (b : Body) (annot : List (Nat × Op)) :
    Nat → Bool → List (Nat × Bool × List ReEvent) → Option String
  | _, _, [] => none
  | p, f, (p', f', log) :: rest =>
    match reenterCheck exact (reenterDue b annot p f p' f') log with
    | some c => some c
    | none => reenterRun exact b annot p' f' rest

end AsynqModel.Generator
