import AsynqModel.Lib.Cache
/-
  C13, families: ONE decorator object applied to SEVERAL functions

      cached = alru_cache(maxsize=3)          per = acached_per_instance()       const = alazy_constant(ttl=5)
      @cached                                 class C:                           @const
      def f(..): ...                              @per                           def c1(): ...
      @cached                                     def m1(self, ..): ...          @const
      def g(..): ...                              @per                           def c2(): ...
                                                  def m2(self, ..): ...

  What the code does (asynq/tools.py):
    * `alru_cache(maxsize, key_fn)` only returns `decorator`; `decorator(fn)` (tools.py:228-250) runs once per decorated
      function and builds `cache = LRUCache(maxsize)` EACH time: one LRU cache per function, all with the decorator
      object's maxsize and key_fn.
    * `acached_per_instance()` returns `cache_fun`; `cache_fun(fun)` (tools.py:175-207) builds `cache = {}` each time: one
      closure dict `id(instance) -> (weakref, {key: value})` per METHOD.  The instance is shared by the methods: it is
      freed (and every method's weakref callback fires) only when NO method's dict holds a value that refers to it.
    * `alazy_constant(ttl)` returns `decorator`; `decorator(fn)` (tools.py:264-283) keeps refresh time and cached value as
      attributes of the wrapper it creates: one pair per function.  `utime()` is one clock for all of them.

  The property for a family is the observer `Fam.spec`: one reference cache PER FUNCTION (per method and instance), each
  the reference cache of the single-function property (`Alru.watchStep`, `PerInst.watchStep`, `Lazy.watchStep`).
  A function is a token `Nat`; the signatures may differ from function to function (`mk f`, `bd f`).
-/
namespace AsynqModel.Cache

/-- update of a family at one index -/
def setAt {α : Type} (g : Nat → α) (f : Nat) (a : α) : Nat → α := fun j => if j == f then a else g j

def sumOver (n : Nat) (g : Nat → Nat) : Nat := ((List.range n).map g).foldr (· + ·) 0

namespace Alru.Fam
/-! ### alru_cache: `decorator(fn)` once per function -/

structure Op where
  fn : Nat           -- which of the decorated functions is called
  op : Alru.Op
  deriving Repr, DecidableEq, Inhabited

/-- the closure of each `decorator(fn)` call: `cache = LRUCache(maxsize)` (tools.py:229) and that function's body-run count -/
abbrev St := Nat → Alru.St

def init (cap : Nat) : St := fun _ => Alru.init cap

/-- a call of function `o.fn` runs ITS wrapper over ITS cache; nothing else is touched -/
def observe (mk : Nat → Call → Option Key) (bd : Nat → Call → Option (List Nat)) (sts : St) (o : Op) : St × Obs :=
  let r := Alru.observe (mk o.fn) (bd o.fn) (sts o.fn) o.op
  (setAt sts o.fn r.1, r.2)

def run (mk : Nat → Call → Option Key) (bd : Nat → Call → Option (List Nat)) (sts : St) : List Op → List Obs
  | [] => []
  | o :: ops => let r := observe mk bd sts o; r.2 :: run mk bd r.1 ops

def finalState (mk : Nat → Call → Option Key) (bd : Nat → Call → Option (List Nat)) (sts : St) : List Op → St
  | [] => sts
  | o :: ops => finalState mk bd (observe mk bd sts o).1 ops

/-- the observer: one reference cache per function -/
abbrev W := Nat → Alru.Watch

def watchInit : W := fun _ => { entries := [], runs := 0 }

def watchRun (rk : Nat → Call → Option Key) (bd : Nat → Call → Option (List Nat)) (cap : Nat) (ws : W) :
    List Op → List Obs → Except Clause W
  | [], [] => .ok ws
  | o :: ops, ob :: obs =>
    match Alru.watchStep (rk o.fn) (bd o.fn) cap (ws o.fn) o.op ob with
    | .ok w' => watchRun rk bd cap (setAt ws o.fn w') ops obs
    | .error e => .error e
  | _, _ => .error .shape

def spec (rk : Nat → Call → Option Key) (bd : Nat → Call → Option (List Nat)) (cap : Nat) (ops : List Op)
    (obs : List Obs) : Bool :=
  match watchRun rk bd cap watchInit ops obs with
  | .ok _ => true
  | .error _ => false

def specClause (rk : Nat → Call → Option Key) (bd : Nat → Call → Option (List Nat)) (cap : Nat) (ops : List Op)
    (obs : List Obs) : Option Clause :=
  match watchRun rk bd cap watchInit ops obs with
  | .ok _ => none
  | .error e => some e

/-- the calls of function `f`, and the observations made on them -/
def opsOf (f : Nat) (ops : List Op) : List Alru.Op := (ops.filter fun o => o.fn == f).map (·.op)

def obsOf (f : Nat) : List Op → List Obs → List Obs
  | o :: ops, ob :: obs => if o.fn == f then ob :: obsOf f ops obs else obsOf f ops obs
  | _, _ => []

end Alru.Fam

namespace PerInst.Fam
/-! ### acached_per_instance: `cache_fun(fun)` once per method, instances shared by the methods -/

inductive Op where
  | call (fn : Nat) (inst : Nat) (c : Call) (raises : Bool) (selfRef : Bool)
  | drop (inst : Nat)       -- the program gives up the instance: it concerns the closure dict of EVERY method
  deriving Repr, DecidableEq, Inhabited

abbrev St := Nat → PerInst.St

def init : St := fun _ => PerInst.init

/-- `len(__acached_per_instance_cache__)` of one method -/
def entries (st : PerInst.St) : Nat := st.insts.length + st.zombies

/-- is the instance reachable from a value cached by ANY of the `nfn` methods? -/
def pinnedAny (nfn : Nat) (sts : St) (i : Nat) : Bool := (List.range nfn).any fun f => (sts f).pinned.contains i

/-- what giving up instance `i` does to ONE method's closure dict: if the instance stays alive (`pin`) no weakref
    callback fires, and an entry this method holds for it stays for good (a zombie); otherwise `clear_cache` deletes it -/
def dropIn (pin : Bool) (st : PerInst.St) (i : Nat) : PerInst.St :=
  if pin && (st.insts.lookup i).isSome then
    { st with insts := st.insts.filter (fun p => p.1 != i), pinned := st.pinned.filter (· != i), zombies := st.zombies + 1 }
  else { st with insts := st.insts.filter fun p => p.1 != i }

/-- a call runs `new_fun` of method `fn` over that method's dict; a drop is seen by all `nfn` methods.  Observation of a
    drop: the total number of entries and of body runs over all methods -/
def observe (nfn : Nat) (mk : Nat → Call → Option Key) (bd : Nat → Call → Option (List Nat)) (sts : St) : Op → St × Obs
  | .call f i c raises sr =>
    let r := PerInst.observe (mk f) (bd f) (sts f) (.call i c raises sr)
    (setAt sts f r.1, r.2)
  | .drop i =>
    let pin := pinnedAny nfn sts i
    let sts' : St := fun f => dropIn pin (sts f) i
    (sts', { res := .unit, runs := sumOver nfn fun f => (sts' f).runs, extra := sumOver nfn fun f => entries (sts' f) })

def run (nfn : Nat) (mk : Nat → Call → Option Key) (bd : Nat → Call → Option (List Nat)) (sts : St) : List Op → List Obs
  | [] => []
  | o :: ops => let r := observe nfn mk bd sts o; r.2 :: run nfn mk bd r.1 ops

/-- the observer: one reference (cache per live instance) per method; a dropped instance is gone from all of them,
    whatever the cached values were -/
abbrev W := Nat → PerInst.Watch

def watchInit : W := fun _ => PerInst.watchInit

def dropW (w : PerInst.Watch) (i : Nat) : PerInst.Watch :=
  { ref := fun j => if j == i then fun _ => none else w.ref j, live := w.live.filter (· != i), runs := w.runs }

def watchStep (nfn : Nat) (rk : Nat → Call → Option Key) (bd : Nat → Call → Option (List Nat)) (ws : W) (op : Op)
    (ob : Obs) : Except Clause W :=
  match op with
  | .call f i c raises sr =>
    match PerInst.watchStep (rk f) (bd f) (ws f) (.call i c raises sr) ob with
    | .ok w' => .ok (setAt ws f w')
    | .error e => .error e
  | .drop i =>
    let ws' : W := fun f => dropW (ws f) i
    if ob.res != .unit || ob.runs != sumOver nfn (fun f => (ws f).runs) then .error .noop
    else if ob.extra != sumOver nfn (fun f => (ws' f).live.length) then .error .instances
    else .ok ws'

def watchRun (nfn : Nat) (rk : Nat → Call → Option Key) (bd : Nat → Call → Option (List Nat)) (ws : W) :
    List Op → List Obs → Except Clause W
  | [], [] => .ok ws
  | o :: ops, ob :: obs =>
    match watchStep nfn rk bd ws o ob with
    | .ok ws' => watchRun nfn rk bd ws' ops obs
    | .error e => .error e
  | _, _ => .error .shape

def spec (nfn : Nat) (rk : Nat → Call → Option Key) (bd : Nat → Call → Option (List Nat)) (ops : List Op)
    (obs : List Obs) : Bool :=
  match watchRun nfn rk bd watchInit ops obs with
  | .ok _ => true
  | .error _ => false

def specClause (nfn : Nat) (rk : Nat → Call → Option Key) (bd : Nat → Call → Option (List Nat)) (ops : List Op)
    (obs : List Obs) : Option Clause :=
  match watchRun nfn rk bd watchInit ops obs with
  | .ok _ => none
  | .error e => some e

def noSelfRef (ops : List Op) : Bool :=
  ops.all fun op => match op with | .call _ _ _ _ sr => !sr | .drop _ => true

end PerInst.Fam

namespace Lazy.Fam
/-! ### alazy_constant: `decorator(fn)` once per function, one clock -/

inductive Op where
  | call (fn : Nat) (raises : Bool) (dur : Nat)
  | dirty (fn : Nat)          -- `fn.dirty()`: each wrapper has its own
  | tick (d : Nat)            -- the clock is global; its observation is made through function 0
  deriving Repr, DecidableEq, Inhabited

def Op.fn : Op → Nat
  | .call f _ _ => f | .dirty f => f | .tick _ => 0

def Op.op : Op → Lazy.Op
  | .call _ r d => .call r d | .dirty _ => .dirty | .tick d => .tick d

/-- `now` = `utime()`; `comps f` = the attributes of wrapper `f` (its field `now` is the time of its last step: the
    wrapper looks at the clock only when it runs) -/
structure St where
  now : Nat
  comps : Nat → Lazy.St

def init (t0 : Nat) : St := { now := t0, comps := fun _ => Lazy.init t0 }

/-- the wrapper of `o.fn` runs at the current time of the one clock; a body that takes time advances it for everybody -/
def observe (ttl : Nat) (s : St) (o : Op) : St × Obs :=
  let r := Lazy.observe ttl { (s.comps o.fn) with now := s.now } o.op
  ({ now := r.1.now, comps := setAt s.comps o.fn r.1 }, r.2)

def run (ttl : Nat) (s : St) : List Op → List Obs
  | [] => []
  | o :: ops => let r := observe ttl s o; r.2 :: run ttl r.1 ops

/-- the observer: one stored value (and when it was stored) per function, one clock -/
structure W where
  now : Nat
  comps : Nat → Lazy.Watch

def watchInit (t0 : Nat) : W := { now := t0, comps := fun _ => { stored := none, now := t0, runs := 0 } }

def watchRun (ttl : Nat) (ws : W) : List Op → List Obs → Except Clause W
  | [], [] => .ok ws
  | o :: ops, ob :: obs =>
    match Lazy.watchStep ttl { (ws.comps o.fn) with now := ws.now } o.op ob with
    | .ok w' => watchRun ttl { now := w'.now, comps := setAt ws.comps o.fn w' } ops obs
    | .error e => .error e
  | _, _ => .error .shape

def spec (ttl t0 : Nat) (ops : List Op) (obs : List Obs) : Bool :=
  match watchRun ttl (watchInit t0) ops obs with
  | .ok _ => true
  | .error _ => false

def specClause (ttl t0 : Nat) (ops : List Op) (obs : List Obs) : Option Clause :=
  match watchRun ttl (watchInit t0) ops obs with
  | .ok _ => none
  | .error e => some e

end Lazy.Fam

end AsynqModel.Cache
