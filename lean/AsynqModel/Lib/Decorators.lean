/-
  Model of asynq/decorators.py (asynq, async_proxy, make_async_decorator, the decorator and binder classes,
  async_call and the classification helpers), of the wrappers deduplicate / aretry / alru_cache /
  acached_per_instance of asynq/tools.py, and of what they stand on: qcore.decorators.DecoratorBase.__init__ /
  __get__, DecoratorBinder.__call__, and CPython's descriptor protocol for functions, staticmethod and
  classmethod objects.

  Python objects are terms of `Obj`; calling an object (`f(*args, **kwargs)`) or its `.asynq` attribute is the
  interpreter `app`; attribute access through an instance / class / subclass is `descrGet`.  Objects that matter
  for identity (instances, classes, argument values, user function bodies) are tokens (Nat).
  Core Lean only.
-/
namespace AsynqModel.Decorators

/-! ## values -/

/-- `*args, **kwargs` of one call: positional tokens and (name, value) pairs; both ARBITRARY lists -/
structure Args where
  pos : List Nat
  kw : List (Nat × Nat)
  deriving Repr, DecidableEq, Inhabited

/-- `f(x, *args, **kwargs)` -/
def Args.push (a : Args) (x : Nat) : Args := { a with pos := x :: a.pos }

/-- `f(*args)` if instance is None else `f(instance, *args)`.
    The test in the code is `is None`, which is exactly the `Option` here: a receiver token has no truth value in
    the model, so an instance (or class) that is FALSY - `__len__() == 0`, `__bool__() is False` - is prepended like
    any other BY CONSTRUCTION of the model (`C09_any_receiver`: arbitrary receiver tokens); that the code really tests
    `is None` is checked by the harness, which runs every class-bound cell with falsy receivers too. -/
def Args.pushOpt (a : Args) : Option Nat → Args
  | none => a
  | some x => a.push x

/-- a user-written function body -/
structure Body where
  id : Nat        -- identity: 1 = the async body, 2 = its sync_fn, 3 / 4 = those of the same-named twin
  gen : Bool      -- inspect.isgeneratorfunction
  retFut : Bool   -- returns a future itself (the contract of a function under @async_proxy)
  pureMark : Bool := false
      -- the function object carries `is_pure_async_fn = true_fn` (set by async_proxy(pure=True), like lazy())
  deriving Repr, DecidableEq, Inhabited

/-- "user body `body` ran (or will run when the future is computed) with exactly these arguments" -/
structure Reach where
  body : Nat
  args : Args
  wrapped : Bool := false   -- the result passed through a user-written make_async_decorator wrapper_fn
  deriving Repr, DecidableEq, Inhabited

inductive Err where
  | noAsynq       -- AttributeError: no attribute `asynq`
  | typeError     -- TypeError raised by the call machinery itself (object not callable, missing `self`)
  | notFuture     -- AttributeError: `.value()` of / yield of something that is not a future
  | skipped       -- not an error of the library: the convention is not run on this case (the second call of the
                  -- conventions `sibling` / `siblingCall` / `prior` would be IDENTICAL to the observed one; how often
                  -- a body runs for identical calls is the subject of C12 / C13, not of C09)
  deriving Repr, DecidableEq, Inhabited

/-- what a call expression evaluates to -/
inductive Res where
  | val (r : Reach)      -- the (eventual) result of running body `r`: its return value or the exception it raises
  | gen (x : Res)        -- a GENERATOR OBJECT that has not been started; running it to the end produces `x`
                         -- (what calling a generator function returns: its body is not entered by the call)
  | futOf (x : Res)      -- a future (task, ConstFuture, ...) whose outcome is `x`
  | err (e : Err)
  deriving Repr, DecidableEq, Inhabited

/-- a future whose outcome is the result of running `r` -/
@[match_pattern, reducible] def Res.fut (r : Reach) : Res := .futOf (.val r)

/-- a future whose VALUE is a future of `r` (an @asynq() body that returned a future object) -/
@[match_pattern, reducible] def Res.nested (r : Reach) : Res := .futOf (.futOf (.val r))

/-- `ConstFuture(x)` / `task_cls(self._fn_wrapper(args, kwargs), ...)`: a future of what the call produces - whatever
    that is (a value, a future, a generator object that nobody runs).  An exception raised by the call itself stays
    that exception (whether it surfaces when the future is created or when it first runs is not observed). -/
def Res.task : Res → Res
  | .err e => .err e
  | x => .futOf x

/-- `task_cls(generator, ...)` (decorators.py:183-187, `needs_wrapper`): the task RUNS the generator object it is
    given, so its outcome is what the run produces.  Something that is not a generator has no `send`: the task fails
    with AttributeError when it first runs. -/
def Res.drive : Res → Res
  | .gen x => .futOf x
  | .err e => .err e
  | _ => .futOf (.err .notFuture)

/-- `.value()` (and, by C01, yielding it from a task): the outcome of the future -/
def Res.value : Res → Res
  | .futOf x => x
  | .val _ => .err .notFuture
  | .gen _ => .err .notFuture
  | .err e => .err e

/-- a user wrapper_fn post-processes the value it awaited (`return wrap(value)`); exceptions pass through -/
def Res.mark : Res → Res
  | .val r => .val { r with wrapped := true }
  | r => r

/-! ## objects -/

/-- `DecoratorBase.type` -/
inductive DType where
  | plain | static | classm
  | method      -- `type(fn)` of a bound method (it also has `__func__`)
  deriving Repr, DecidableEq, Inhabited

/-- the decorator classes -/
inductive DecCls where
  | pure        -- PureAsyncDecorator              binder_cls = PureAsyncDecoratorBinder
  | async       -- AsyncDecorator                  binder_cls = AsyncDecoratorBinder
  | pair        -- AsyncAndSyncPairDecorator       binder_cls = AsyncAndSyncPairDecoratorBinder
  | proxy       -- AsyncProxyDecorator             (inherits AsyncDecoratorBinder)
  | pairProxy   -- AsyncAndSyncPairProxyDecorator  (inherits AsyncDecoratorBinder)
  | wrapper     -- AsyncWrapper (make_async_decorator)  binder_cls = AsyncDecoratorBinder
  | dedup       -- tools.DeduplicateDecorator      binder_cls = DeduplicateDecoratorBinder (asynq inherited)
  deriving Repr, DecidableEq, Inhabited

inductive Obj where
  | pyNone                                 -- None
  | func (b : Body)                        -- a plain Python function written by the user
  | fwd (needSelf : Bool) (mark : Bool) (cached : Bool) (target : Obj)
      -- generator function of a tools wrapper / of a make_async_decorator wrapper_fn:
      --   def w(*args, **kwargs): return (yield target.asynq(*args, **kwargs))               (aretry)
      --   def w(self, *args, **kwargs): return (yield target.asynq(self, *args, **kwargs))   (needSelf: acached_per_instance)
      --   def w(*args, **kwargs): return wrap((yield target.asynq(*args, **kwargs)))         (mark: a user wrapper_fn)
      --   cached (alru_cache, acached_per_instance): `try: return cache[key]` first, `cache[key] = value` afterwards
  | smethod (f : Obj)                      -- staticmethod(f)
  | cmethod (f : Obj)                      -- classmethod(f)
  | boundm (recv : Nat) (f : Obj)          -- bound method object
  | dec (c : DecCls) (ty : DType) (fn : Obj) (aux : Obj)
      -- decorator instance: `.fn`, `.type`; aux = `.sync_fn` (pair, pairProxy) / `.wrapper_fn` (wrapper)
  | binder (d : Obj) (inst : Option Nat)   -- `d.binder_cls(d, inst)`
  deriving Repr, DecidableEq, Inhabited

/-- `DecoratorBase.type` of an object that has `is_decorator` -/
def Obj.dtype : Obj → DType
  | .dec _ ty _ _ => ty
  | _ => .plain

def Obj.decCls? : Obj → Option DecCls
  | .dec c _ _ _ => some c
  | _ => none

/-- identity of the function under a decorator (`id(self.fn)` in DeduplicateDecorator.cache_key): in every world
    built here one decorator exists per user body, so the body's identity stands for the object's -/
def Obj.ident : Obj → Nat
  | .func b => b.id
  | .fwd _ _ _ t => t.ident
  | .smethod f => f.ident
  | .cmethod f => f.ident
  | .boundm _ f => f.ident
  | .dec _ _ fn _ => fn.ident
  | .binder d _ => d.ident
  | .pyNone => 0

/-- qcore.decorators.DecoratorBase.__init__ (qcore/decorators.py:79-88):
      if hasattr(fn, "__func__"): self.type = type(fn); fn = fn.__func__
      elif hasattr(fn, "is_decorator"): self.type = fn.type
      else: self.type = None -/
def mkDec (c : DecCls) (fn aux : Obj) : Obj :=
  match fn with
  | .smethod f => .dec c .static f aux
  | .cmethod f => .dec c .classm f aux
  | .boundm _ f => .dec c .method f aux
  | .dec c' ty f' a' => .dec c ty (.dec c' ty f' a') aux
  | f => .dec c .plain f aux

/-- CPython's descriptor protocol for plain functions, staticmethod and classmethod objects: `o.__get__(owner, cls)` -/
def pyGet (o : Obj) (owner : Option Nat) (cls : Nat) : Obj :=
  match o with
  | .func b => match owner with | some i => .boundm i (.func b) | none => .func b
  | .fwd s m c t => match owner with | some i => .boundm i (.fwd s m c t) | none => .fwd s m c t
  | .smethod f => f
  | .cmethod f => .boundm cls f
  | o => o

/-- qcore.decorators.DecoratorBase.__get__ (qcore/decorators.py:99-105):
      if self.type is staticmethod: return self
      if owner is None and self.type is not classmethod: return self.binder_cls(self)
      return self.binder_cls(self, cls if self.type is classmethod else owner) -/
def baseGet (d : Obj) (owner : Option Nat) (cls : Nat) : Obj :=
  if d.dtype = .static then d
  else if owner = none ∧ d.dtype ≠ .classm then .binder d none
  else .binder d (if d.dtype = .classm then some cls else owner)

/-- attribute access through an instance (`owner = some i`) or a class (`owner = none`): `type(o).__get__(o, owner, cls)`.
    A pure function: neither `DecoratorBase.__get__` nor the pair override keeps anything between two accesses
    (each access of a pair builds a FRESH copy), so in the model the result cannot depend on which accesses came
    before (by construction; no theorem is claimed for it) - that the CODE keeps nothing is checked by the harness,
    which looks the attribute up through the other paths first (`Case.pre`, read by no function of the model).
    AsyncAndSyncPairDecorator.__get__ (decorators.py:263-280) first binds sync_fn, re-wraps fn in its
    staticmethod / classmethod type, builds a fresh pair decorator and applies the base `__get__` to it. -/
def descrGet (o : Obj) (owner : Option Nat) (cls : Nat) : Obj :=
  match o with
  | .dec .pair ty fn aux =>
    let syncFn := pyGet aux owner cls
    let fn' := match ty with
      | .static => Obj.smethod fn
      | .classm => Obj.cmethod fn
      | _ => fn
    baseGet (mkDec .pair fn' syncFn) owner cls
  | .dec c ty fn aux => baseGet (.dec c ty fn aux) owner cls
  | o => pyGet o owner cls

/-- qcore.inspection.is_cython_or_generator(fn) as used for `needs_wrapper` (decorators.py:154) -/
def needsWrapper : Obj → Bool
  | .func b => b.gen
  | .fwd _ _ _ _ => true
  | _ => false

/-! ## the in-flight table of deduplicate, the caches of alru_cache / acached_per_instance -/

/-- hashes of the components of a key tuple under `h` (the hash of every value token): CPython hashes a tuple from
    the hashes of its elements, so two keys whose elements hash alike collide - `hash(-1) == hash(-2)`,
    `hash(n) == hash(n + 2**61 - 1)`, user classes with a constant `__hash__` -/
def Args.hashes (h : Nat → Nat) (a : Args) : List Nat × List (Nat × Nat) :=
  (a.pos.map h, a.kw.map fun p => (p.1, h p.2))

abbrev Table := List ((Nat × Args) × Reach)

/-- `d[key]` of a Python dict whose keys are tuples of the value tokens: an entry is found when its hash equals the
    hash of `key` AND it is the same key (identity or `==` of every component - argument values compare by identity
    here).  Colliding hashes alone never make two keys one: `C09_dict_hash_irrelevant`. -/
def dictFind (h : Nat → Nat) (l : Table) (k : Nat × Args) : Option Reach :=
  (l.find? (fun e => decide ((e.1.1, e.1.2.hashes h) = (k.1, k.2.hashes h)) && decide (e.1 = k))).map (·.2)

/-- `DeduplicateDecorator.tasks` restricted to tasks that are not running: key = (id(self.fn), keygetter(args, kwargs)).
    `keyOf` is the keygetter (qcore.caching.get_args_tuple over the argspec, or user supplied): a parameter.
    `cache`: the LRUCache of alru_cache / the per-instance dictionaries of acached_per_instance, key =
    (function, cache_key(args, kwargs)) (for acached_per_instance the receiver is part of `args`: one dictionary
    per `id(self)`).  `hashOf`: the hash of every value token - ARBITRARY.  `raises`: the user's bodies raise
    (scripted input; an exception is never cached). -/
structure Env where
  keyOf : Args → Args
  tasks : Table
  cache : Table := []
  hashOf : Nat → Nat := id
  raises : Bool := false

def Env.lookup (env : Env) (k : Nat × Args) : Option Reach := dictFind env.hashOf env.tasks k

def Env.cacheLookup (env : Env) (k : Nat × Args) : Option Reach := dictFind env.hashOf env.cache k

def Env.empty : Env := { keyOf := id, tasks := [] }

/-! ## calling -/

inductive Mode where
  | call     -- `o(*args, **kwargs)`
  | asynq    -- `o.asynq(*args, **kwargs)`
  deriving Repr, DecidableEq, Inhabited

/-- the interpreter.  One clause per `__call__` / `asynq` method of the Python classes. -/
def app (env : Env) : Mode → Obj → Args → Res
  | _, .pyNone, _ => .err .typeError                           -- 'NoneType' object is not callable
  -- user functions --------------------------------------------------------------------------------
  | .call, .func b, a =>
    -- a generator function only BUILDS a generator object (the arguments are bound, the body is not entered)
    if b.gen then .gen (.val ⟨b.id, a, false⟩)
    else if b.retFut then .fut ⟨b.id, a, false⟩ else .val ⟨b.id, a, false⟩
  | .asynq, .func _, _ => .err .noAsynq
  | .call, .fwd needSelf mark cached t, a =>
    -- a generator function: the call binds the arguments and hands back a generator object whose run is
    -- `value = yield target.asynq(...)`; `return value` (a user wrapper_fn returns `wrap(value)`)
    if needSelf ∧ a.pos = [] then .err .typeError
    else
      -- alru_cache (tools.py:236-243) / acached_per_instance (tools.py:194-206): `try: return cache[key]`
      match (if cached then env.cacheLookup (t.ident, env.keyOf a) else none) with
      | some r => .gen (.val r)
      | none => if mark then .gen (app env .asynq t a).value.mark else .gen (app env .asynq t a).value
  | .asynq, .fwd _ _ _ _, _ => .err .noAsynq
  | .call, .smethod f, a => app env .call f a                -- staticmethod objects are callable (3.10+)
  | .asynq, .smethod _, _ => .err .noAsynq
  | .call, .cmethod _, _ => .err .typeError                  -- 'classmethod' object is not callable
  | .asynq, .cmethod _, _ => .err .noAsynq
  | .call, .boundm r f, a => app env .call f (a.push r)
  | .asynq, .boundm _ _, _ => .err .noAsynq                  -- attribute lookup falls through to the plain function
  -- binders ---------------------------------------------------------------------------------------
  | .call, .binder d inst, a =>
    if d.decCls? = some .pair then
      -- AsyncAndSyncPairDecoratorBinder.__call__ (decorators.py:234-238): `self.decorator(*args, **kwargs)`
      app env .call d a
    else
      -- qcore DecoratorBinder.__call__ (qcore/decorators.py:50-54)
      app env .call d (a.pushOpt inst)
  | .asynq, .binder d inst, a =>
    if d.decCls? = some .pure then .err .noAsynq             -- PureAsyncDecoratorBinder has no `asynq`
    else app env .asynq d (a.pushOpt inst)                   -- AsyncDecoratorBinder.asynq (decorators.py:191-195)
  -- decorators ------------------------------------------------------------------------------------
  | .call, .dec c _ fn aux, a =>
    match c with
    | .pure =>
      -- PureAsyncDecorator.__call__ -> _call_pure (decorators.py:176-187)
      if needsWrapper fn then (app env .call fn a).drive     -- result = self.fn(*args, **kwargs): a generator, run by the task
      else (app env .call fn a).task                         -- result = self._fn_wrapper(args, kwargs)
    | .async =>
      -- AsyncDecorator.__call__ (decorators.py:219-230): `self._call_pure(args, kwargs).value()`
      if needsWrapper fn then (app env .call fn a).drive.value else (app env .call fn a).task.value
    | .pair => app env .call aux a                           -- decorators.py:261 `self.sync_fn(*args, **kwargs)`
    | .proxy => (app env .call fn a).value                   -- AsyncDecorator.__call__ over AsyncProxyDecorator._call_pure
    | .pairProxy => app env .call aux a                      -- decorators.py:319
    | .wrapper => (app env .call aux a).value                -- AsyncWrapper.__call__ (decorators.py:433-434)
    | .dedup =>
      -- inherited AsyncDecorator.__call__; `fn` is the inner decorator, so needs_wrapper is False and the
      -- task body is `_fn_wrapper`: `self.fn(*args, **kwargs)` - a synchronous call of the inner function
      (app env .call fn a).task.value
  | .asynq, .dec c _ fn aux, a =>
    match c with
    | .pure => .err .noAsynq
    | .async | .pair =>
      -- AsyncDecorator.asynq (decorators.py:213-214) -> _call_pure
      if needsWrapper fn then (app env .call fn a).drive else (app env .call fn a).task
    | .proxy | .pairProxy => app env .call fn a              -- AsyncProxyDecorator._call_pure (decorators.py:304-308)
    | .wrapper => app env .call aux a                        -- AsyncWrapper.asynq -> _call_async (decorators.py:430-437)
    | .dedup =>
      -- DeduplicateDecorator.asynq (tools.py:355-378)
      match env.lookup (fn.ident, env.keyOf a) with
      | some r => .fut r                                     -- a task with this key is in flight: return it
      | none => app env .asynq fn a                          -- `self.fn.asynq(*args, **kwargs)`

/-! ## classification helpers (decorators.py:51-106) -/

/-- `hasattr(fn, "asynq")` -/
def hasAsynqAttr : Obj → Bool
  | .dec .pure _ _ _ => false
  | .dec _ _ _ _ => true
  | .binder d _ => d.decCls? ≠ some .pure ∧ d.decCls? ≠ none
  | _ => false

/-- has_async_fn (decorators.py:51-53); nothing here has an attribute called `async` -/
def hasAsyncFn (o : Obj) : Bool := hasAsynqAttr o

/-- is_pure_async_fn (decorators.py:56-74): decorators answer through their `is_pure_async_fn()` method, the pure
    binder through its own; the other binders have neither that attribute nor `.fn`; a plain function answers
    through the attribute async_proxy(pure=True) put on it, and a bound method forwards the lookup to its
    `__func__`; staticmethod / classmethod objects themselves do not carry it -/
def isPureAsyncFn : Obj → Bool
  | .dec .pure _ _ _ => true
  | .dec _ _ _ _ => false
  | .binder d _ => d.decCls? = some .pure
  | .func b => b.pureMark
  | .boundm _ f => isPureAsyncFn f
  | _ => false

/-- is_async_fn (decorators.py:77-79) -/
def isAsyncFn (o : Obj) : Bool := hasAsynqAttr o || isPureAsyncFn o

/-- what get_async_fn / get_async_or_sync_fn hand back -/
inductive Conv where
  | attr      -- `fn.asynq`
  | self      -- `fn` itself
  | absent    -- None
  deriving Repr, DecidableEq, Inhabited

/-- get_async_fn(fn) (decorators.py:82-97, wrap_if_none=False) -/
def getAsyncFn (o : Obj) : Conv :=
  if hasAsynqAttr o then .attr else if isPureAsyncFn o then .self else .absent

/-- get_async_or_sync_fn(fn) (decorators.py:100-106) -/
def getAsyncOrSyncFn (o : Obj) : Conv :=
  if hasAsynqAttr o then .attr else .self

/-- calling what a conversion helper returned -/
def appConv (env : Env) (c : Conv) (o : Obj) (a : Args) : Res :=
  match c with
  | .attr => app env .asynq o a
  | .self => app env .call o a
  | .absent => .err .noAsynq

/-- the BODY of async_call (decorators.py:406-413), once its parameters are bound; async_call is an @async_proxy
    function, so `async_call.asynq(fn, ...)` is this future and `async_call(fn, ...)` its value -/
def asyncCallBody (env : Env) (o : Obj) (a : Args) : Res :=
  if isPureAsyncFn o then app env .call o a
  else if hasAsynqAttr o then app env .asynq o a
  else (app env .call o a).task                               -- futures.ConstFuture(fn(*args, **kwargs))

/-- name token of the keyword `fn` (harness: NAMES[6]); the other keyword names are 1..5 = a..e -/
def nameFn : Nat := 6

/-- the call passes a keyword argument called `n` -/
def Args.hasKw (a : Args) (n : Nat) : Bool := a.kw.any (fun p => p.1 == n)

/-- no keyword argument of the call is called `fn` -/
def Args.fnFree (a : Args) : Bool := !a.hasKw nameFn

/-- `async_call(o, *args, **kwargs)` / `async_call.asynq(o, *args, **kwargs)` AS THE CODE IS (decorators.py:398
    `def async_call(fn, *args, **kwargs)`): the callable is bound to the positional-or-keyword parameter `fn`, so a
    keyword argument that is itself called `fn` is a second value for that parameter - CPython raises TypeError
    ("got multiple values for argument 'fn'") before the body of async_call is entered, although `o(fn=...)` and
    `o.asynq(fn=...)` accept the keyword.  GENUINE DEFECT (`C09_async_call_kw_fn`, `C09_async_call_fn_counterexample`);
    the repaired tree (`def async_call(fn, /, *args, **kwargs)`) is `asyncCallBody` (`modelCvF`). -/
def asyncCall (env : Env) (o : Obj) (a : Args) : Res :=
  if a.hasKw nameFn then .err .typeError else asyncCallBody env o a

/-! ## the finite table: decorator kind x function type x access path -/

inductive Kind where
  | raw          -- undecorated
  | asynq        -- @asynq()
  | pure         -- @asynq(pure=True)
  | proxy        -- @async_proxy()
  | proxyPure    -- @async_proxy(pure=True): `decorate` marks the function pure and returns it (decorators.py:369-374)
  | pair         -- @asynq(sync_fn=...)
  | pairProxy    -- @async_proxy(sync_fn=...)
  | mad          -- make_async_decorator(inner, wrapper_fn, name) over @asynq()
  | dedup        -- @deduplicate() over @asynq()
  | aretry       -- @aretry(...) over @asynq()
  | alru         -- @alru_cache() over @asynq()
  | acpi         -- @acached_per_instance() over @asynq()
  deriving Repr, DecidableEq, Inhabited

inductive FnType where
  | plain | static | classm
  deriving Repr, DecidableEq, Inhabited

inductive Access where
  | direct       -- module-level function: no descriptor protocol involved
  | inst | cls | subInst | subCls
  deriving Repr, DecidableEq, Inhabited

/-- the user's function is a plain function, a generator function, or a generator function that blocks on a batch.
    The model distinguishes plain from generator functions (`Body.gen`: `needs_wrapper`, `Res.gen`); `gen` and `batch`
    differ only in what the real body yields, which the model does not look at (scheduling is C01-C08's subject). -/
inductive BodyKind where
  | plain | gen | batch
  deriving Repr, DecidableEq, Inhabited

def wrapFt (ft : FnType) (f : Obj) : Obj :=
  match ft with
  | .plain => f
  | .static => .smethod f
  | .classm => .cmethod f

/-- the object the harness stores in the class dictionary (or module) - mirrors `World._decorate` of checks/c09.py,
    i.e. what the decorator factories asynq() / async_proxy() / make_async_decorator / tools.* construct -/
def build (k : Kind) (ft : FnType) (bk : BodyKind) (twin : Bool) : Obj :=
  let aid := if twin then 3 else 1
  let f := Obj.func { id := aid, gen := bk != .plain, retFut := false }
  let fp := Obj.func { id := aid, gen := false, retFut := true }      -- proxied: logs, then returns a future
  let sf := Obj.func { id := aid + 1, gen := false, retFut := false }
  let inner := mkDec .async (wrapFt ft f) .pyNone
  match k with
  | .raw => wrapFt ft f
  | .asynq => inner
  | .pure => mkDec .pure (wrapFt ft f) .pyNone
  | .proxy => mkDec .proxy (wrapFt ft fp) .pyNone
  | .proxyPure =>
    -- `if pure: getattr(fn, "__func__", fn).is_pure_async_fn = core_helpers.true_fn; return fn`
    wrapFt ft (.func { id := aid, gen := false, retFut := true, pureMark := true })
  | .pair => mkDec .pair (wrapFt ft f) (wrapFt ft sf)
  | .pairProxy => mkDec .pairProxy (wrapFt ft fp) sf
  | .mad => mkDec .wrapper inner (mkDec .pure (.fwd false true false inner) .pyNone)
  | .dedup => mkDec .dedup inner .pyNone
  | .aretry => mkDec .async (.fwd false false false inner) .pyNone
  | .alru => mkDec .async (.fwd false false true inner) .pyNone
  | .acpi => mkDec .async (.fwd true false true inner) .pyNone

/-- tokens of the generated hierarchy: instance of Base, Base, instance of Sub, Sub (twin hierarchy: + 4) -/
def tokInst (off : Nat) : Nat := 1 + off
def tokCls (off : Nat) : Nat := 2 + off
def tokSubInst (off : Nat) : Nat := 3 + off
def tokSubCls (off : Nat) : Nat := 4 + off

/-- fetch the callable through the access path -/
def access (o : Obj) (acc : Access) (off : Nat) : Obj :=
  match acc with
  | .direct => o
  | .inst => descrGet o (some (tokInst off)) (tokCls off)
  | .cls => descrGet o none (tokCls off)
  | .subInst => descrGet o (some (tokSubInst off)) (tokSubCls off)
  | .subCls => descrGet o none (tokSubCls off)

/-- an instance method fetched from the class is unbound: the caller passes the instance explicitly -/
def explicitSelf (ft : FnType) (acc : Access) (off : Nat) : List Nat :=
  match ft, acc with
  | .plain, .cls => [tokInst off]
  | .plain, .subCls => [tokSubInst off]
  | _, _ => []

def callerArgs (ft : FnType) (acc : Access) (off : Nat) (a : Args) : Args :=
  { a with pos := explicitSelf ft acc off ++ a.pos }

/-- the generated body has a receiver parameter iff it lives in a class and is not a staticmethod -/
def hasRecvParam (ft : FnType) (acc : Access) : Bool := acc != .direct && ft != .static

/-! ### a SECOND call of the same decorated attribute (conventions `sibling`, `siblingCall`, `prior`) -/

/-- how the second call differs from the observed one -/
inductive Rel where
  | args     -- same callable, same receiver; every argument VALUE replaced by another object (same spelling)
  | recv     -- same argument objects; another receiver: the same attribute fetched through a second instance of the
             -- same class (instance methods; the explicit `self` of an unbound method) or through the other class
             -- of the hierarchy (classmethods).  Callables without a receiver fall back to `args`.
  deriving Repr, DecidableEq, Inhabited

/-- the value object that replaces value `v` in the second call -/
def substTok (v : Nat) : Nat := v + 100

def Args.subst (a : Args) : Args :=
  { pos := a.pos.map substTok, kw := a.kw.map fun p => (p.1, substTok p.2) }

/-- second instances of Base and of Sub -/
def tokInst2 : Nat := 9
def tokSubInst2 : Nat := 10

def Access.swap : Access → Access
  | .inst => .subInst | .subInst => .inst | .cls => .subCls | .subCls => .cls | .direct => .direct

/-- the second call really uses another receiver -/
def effRecv (rel : Rel) (ft : FnType) (acc : Access) : Bool := rel == .recv && hasRecvParam ft acc

/-- the same attribute fetched for the second call (relation `recv`) -/
def accessSib (o : Obj) (ft : FnType) (acc : Access) : Obj :=
  match ft, acc with
  | .plain, .inst => descrGet o (some tokInst2) (tokCls 0)
  | .plain, .subInst => descrGet o (some tokSubInst2) (tokSubCls 0)
  | .classm, acc => access o acc.swap 0
  | _, acc => access o acc 0

def explicitSelfSib (ft : FnType) (acc : Access) : List Nat :=
  match ft, acc with
  | .plain, .cls => [tokInst2]
  | .plain, .subCls => [tokSubInst2]
  | _, _ => []

/-- the caller's arguments of the second call -/
def sibCallerArgs (ft : FnType) (acc : Access) (rel : Rel) (a : Args) : Args :=
  if effRecv rel ft acc then { a with pos := explicitSelfSib ft acc ++ a.pos } else callerArgs ft acc 0 a.subst

/-- the second call would be the very same call (no receiver to vary, no argument to replace) -/
def identicalSib (ft : FnType) (acc : Access) (rel : Rel) (a : Args) : Bool :=
  !effRecv rel ft acc && a.pos.isEmpty && a.kw.isEmpty

/-- the bindings the property speaks about: a module-level callable is a plain function (a bare staticmethod /
    classmethod object outside a class is not a callable the decorators are applied to), and the function-style
    wrappers aretry / alru_cache / acached_per_instance are written for functions and instance methods only
    (acached_per_instance needs an instance).  Outside, the model does not follow the reference table
    (`C09_supported_needed`), the generator produces no case and `spec` rejects every report. -/
def supported (k : Kind) (ft : FnType) (acc : Access) : Bool :=
  (acc != .direct || ft == .plain) &&
  (match k with
   | .aretry | .alru => ft == .plain
   | .acpi => ft == .plain && acc != .direct
   | _ => true)

/-! ## calling conventions -/

inductive Cv where
  | sync            -- `b(*args)` (a future that comes back is evaluated with `.value()` and flagged)
  | asynqValue      -- `b.asynq(*args).value()`
  | yieldAsynq      -- `yield b.asynq(*args)` from a task
  | nestedSync      -- `b(*args)` inside a task
  | asyncCall       -- `yield async_call.asynq(b, *args)` from a task
  | asyncCallSync   -- `async_call(b, *args)`
  | getAsyncFn      -- `get_async_fn(b)(*args).value()`
  | getAsyncOrSync  -- `get_async_or_sync_fn(b)(*args)` (+ `.value()` if it is a future)
  | getAsyncFnWrap  -- `get_async_fn(b, wrap_if_none=True)(*args).value()`
  | twin            -- `yield [twin.asynq(*args), b.asynq(*args)]`: a same-named callable is in flight
  | sibling         -- `yield [b'.asynq(*args'), b.asynq(*args)]`: a SECOND CALL OF THE SAME attribute is in flight
  | siblingCall     -- `yield [async_call.asynq(b', *args'), async_call.asynq(b, *args)]`
  | prior           -- `b'.asynq(*args').value()` completed (or failed) BEFORE `b.asynq(*args).value()`
  deriving Repr, DecidableEq, Inhabited

/-- the conventions with a second call of the same attribute -/
def Cv.isSib : Cv → Bool
  | .sibling | .siblingCall | .prior => true
  | _ => false

def Cv.all : List Cv :=
  [.sync, .asynqValue, .yieldAsynq, .nestedSync, .asyncCall, .asyncCallSync, .getAsyncFn, .getAsyncOrSync,
   .getAsyncFnWrap, .twin, .sibling, .siblingCall, .prior]

def Cv.name : Cv → String
  | .sync => "sync" | .asynqValue => "asynqValue" | .yieldAsynq => "yieldAsynq" | .nestedSync => "nestedSync"
  | .asyncCall => "asyncCall" | .asyncCallSync => "asyncCallSync" | .getAsyncFn => "getAsyncFn"
  | .getAsyncOrSync => "getAsyncOrSync" | .getAsyncFnWrap => "getAsyncFnWrap" | .twin => "twin"
  | .sibling => "sibling" | .siblingCall => "siblingCall" | .prior => "prior"

/-- result of a convention: futures that ran before (`pre`, the twin's), the result, "a future came back" -/
structure CvRes where
  pre : List Res
  res : Res
  flag : Bool
  deriving Repr, DecidableEq, Inhabited

/-- evaluate a future that came back from a plain call, remembering that it was one (harness `value_of`) -/
def valueOf (r : Res) : Res × Bool :=
  match r with
  | .futOf x => (x, true)
  | r => (r, false)

/-- what `DeduplicateDecorator.asynq` leaves in `tasks` after `o.asynq(*a)` on an empty table -/
def dedupEntry (env : Env) (o : Obj) (a : Args) : List ((Nat × Args) × Reach) :=
  match o with
  | .binder d inst =>
    (match d with
     | .dec .dedup _ fn _ =>
       (match app env .asynq fn (a.pushOpt inst) with
        | .fut r => [((fn.ident, env.keyOf (a.pushOpt inst)), r)]
        | _ => [])
     | _ => [])
  | .dec .dedup _ fn _ =>
    (match app env .asynq fn a with
     | .fut r => [((fn.ident, env.keyOf a), r)]
     | _ => [])
  | _ => []

/-- what a completed `o.asynq(*a).value()` leaves in the cache of alru_cache / acached_per_instance: the value
    under the key of the call - unless the body raised (`value = yield ...` re-raises before `cache[key] = value`).
    (A call whose arguments do not bind raises TypeError and stores nothing; the model stores an entry whose
    replay would fail to bind in the same way, under a key no other spelling shares.) -/
def cacheEntry (env : Env) (o : Obj) (a : Args) : Table :=
  if env.raises then [] else
  match o with
  | .binder (.dec .async _ (.fwd needSelf _ true t) _) inst =>
    if needSelf ∧ (a.pushOpt inst).pos = [] then [] else
    (match (app env .asynq t (a.pushOpt inst)).value with
     | .val r => [((t.ident, env.keyOf (a.pushOpt inst)), r)]
     | _ => [])
  | .dec .async _ (.fwd needSelf _ true t) _ =>
    if needSelf ∧ a.pos = [] then [] else
    (match (app env .asynq t a).value with
     | .val r => [((t.ident, env.keyOf a), r)]
     | _ => [])
  | _ => []

/-- one convention on the callable `b` (`tb`, `ta`: the twin callable and its arguments; `sb`, `sa`: the callable
    and the arguments of the second call of the same attribute).  `asyncCall`: what `async_call(b, ...)` does - the
    code as it is (`Decorators.asyncCall`: `runCv`) or the repaired tree (`asyncCallBody`: `modelCvF`). -/
def runCvWith (asyncCall : Env → Obj → Args → Res) (env : Env) (cv : Cv) (b : Obj) (a : Args) (tb : Obj) (ta : Args)
    (sb : Obj) (sa : Args) : CvRes :=
  match cv with
  | .sync | .nestedSync => let (r, f) := valueOf (app env .call b a); ⟨[], r, f⟩
  | .asynqValue | .yieldAsynq => ⟨[], (app env .asynq b a).value, false⟩
  | .asyncCall | .asyncCallSync => ⟨[], (asyncCall env b a).value, false⟩
  | .getAsyncFn => ⟨[], (appConv env (getAsyncFn b) b a).value, false⟩
  | .getAsyncOrSync => let (r, f) := valueOf (appConv env (getAsyncOrSyncFn b) b a); ⟨[], r, f⟩
  | .getAsyncFnWrap =>
    -- decorators.py:90-96: nothing async -> `sync_to_async_fn_wrapper`: `ConstFuture(fn(*args, **kwargs))`
    ⟨[], (match getAsyncFn b with
          | .absent => (app env .call b a).task
          | cv => appConv env cv b a).value, false⟩
  | .twin =>
    let t1 := app env .asynq tb ta
    let env' : Env := { env with tasks := dedupEntry env tb ta ++ env.tasks }
    ⟨[t1.value], (app env' .asynq b a).value, false⟩
  | .sibling =>
    -- both futures are created before either runs: the first is in `DeduplicateDecorator.tasks` when the second
    -- `.asynq(...)` looks its key up
    let t1 := app env .asynq sb sa
    let env' : Env := { env with tasks := dedupEntry env sb sa ++ env.tasks }
    ⟨[t1.value], (app env' .asynq b a).value, false⟩
  | .siblingCall =>
    let t1 := asyncCall env sb sa
    let env' : Env := { env with tasks := dedupEntry env sb sa ++ env.tasks }
    ⟨[t1.value], (asyncCall env' b a).value, false⟩
  | .prior =>
    -- the first call has completed: its entry left `tasks` (callback on_computed), its value stays in the cache
    let t1 := app env .asynq sb sa
    let env' : Env := { env with cache := cacheEntry env sb sa ++ env.cache }
    ⟨[t1.value], (app env' .asynq b a).value, false⟩

/-- the conventions of the code as it is -/
def runCv : Env → Cv → Obj → Args → Obj → Args → Obj → Args → CvRes := runCvWith asyncCall

/-- the conventions that go through `async_call` -/
def Cv.viaAsyncCall : Cv → Bool
  | .asyncCall | .asyncCallSync | .siblingCall => true
  | _ => false

/-- a whole cell of the table -/
structure Cell where
  kind : Kind
  ft : FnType
  acc : Access
  bk : BodyKind
  deriving Repr, DecidableEq, Inhabited

def twinOff : Nat := 4

def Cell.callable (c : Cell) : Obj := access (build c.kind c.ft c.bk false) c.acc 0
def Cell.twinCallable (c : Cell) : Obj := access (build c.kind c.ft c.bk true) c.acc twinOff

/-- the attribute as fetched for the second call -/
def Cell.sibCallable (c : Cell) (rel : Rel) : Obj :=
  if effRecv rel c.ft c.acc then accessSib (build c.kind c.ft c.bk false) c.ft c.acc else c.callable

/-- a convention that is not run on a case -/
def CvRes.skipped : CvRes := ⟨[], .err .skipped, false⟩

/-- the convention as run -/
def modelCvRunWith (ac : Env → Obj → Args → Res) (env : Env) (c : Cell) (cv : Cv) (a : Args) (rel : Rel) : CvRes :=
  runCvWith ac env cv c.callable (callerArgs c.ft c.acc 0 a) c.twinCallable (callerArgs c.ft c.acc twinOff a)
    (c.sibCallable rel) (sibCallerArgs c.ft c.acc rel a)

def modelCvWith (ac : Env → Obj → Args → Res) (env : Env) (c : Cell) (cv : Cv) (a : Args) (rel : Rel := .args) : CvRes :=
  if cv.isSib && identicalSib c.ft c.acc rel a then CvRes.skipped else modelCvRunWith ac env c cv a rel

def modelCvRun (env : Env) (c : Cell) (cv : Cv) (a : Args) (rel : Rel) : CvRes := modelCvRunWith asyncCall env c cv a rel

/-- MODEL (the code as it is): convention `cv` on cell `c` with the caller's arguments `a` (`rel`: how the second call
    of the conventions `sibling` / `siblingCall` / `prior` differs; they are skipped when it would not differ) -/
def modelCv (env : Env) (c : Cell) (cv : Cv) (a : Args) (rel : Rel := .args) : CvRes :=
  modelCvWith asyncCall env c cv a rel

/-- MODEL OF THE REPAIRED TREE (`def async_call(fn, /, *args, **kwargs)`): a keyword called `fn` is an ordinary
    keyword.  Coincides with `modelCv` on every call without such a keyword (`modelCv_eq_F`) and on every convention
    that does not go through async_call (`modelCv_eq_F_other`). -/
def modelCvRunF (env : Env) (c : Cell) (cv : Cv) (a : Args) (rel : Rel) : CvRes := modelCvRunWith asyncCallBody env c cv a rel
def modelCvF (env : Env) (c : Cell) (cv : Cv) (a : Args) (rel : Rel := .args) : CvRes :=
  modelCvWith asyncCallBody env c cv a rel

/-! ## reference semantics: how an UNDECORATED Python function of that type binds, plus the one exception -/

/-- what Python prepends for a plain `def` / staticmethod / classmethod reached through the access path -/
def refPrefix (ft : FnType) (acc : Access) (off : Nat) : List Nat :=
  match acc, ft with
  | .direct, _ => []
  | _, .static => []
  | .inst, .plain => [tokInst off]
  | .subInst, .plain => [tokSubInst off]
  | .cls, .plain => []
  | .subCls, .plain => []
  | .inst, .classm => [tokCls off]
  | .cls, .classm => [tokCls off]
  | .subInst, .classm => [tokSubCls off]
  | .subCls, .classm => [tokSubCls off]

/-- the arguments the body must receive: exactly one receiver (bound or explicit), then the caller's arguments -/
def refArgs (ft : FnType) (acc : Access) (off : Nat) (a : Args) : Args :=
  { a with pos := refPrefix ft acc off ++ (explicitSelf ft acc off ++ a.pos) }

/-- what Python prepends for the SECOND call of relation `recv` -/
def refPrefixSib (ft : FnType) (acc : Access) : List Nat :=
  match ft, acc with
  | .plain, .inst => [tokInst2]
  | .plain, .subInst => [tokSubInst2]
  | .classm, acc => refPrefix .classm acc.swap 0
  | ft, acc => refPrefix ft acc 0

/-- the arguments the body must receive in the second call -/
def refArgsSib (ft : FnType) (acc : Access) (rel : Rel) (a : Args) : Args :=
  if effRecv rel ft acc then { a with pos := refPrefixSib ft acc ++ (explicitSelfSib ft acc ++ a.pos) }
  else refArgs ft acc 0 a.subst

def Kind.hasSyncFn : Kind → Bool
  | .pair | .pairProxy => true
  | _ => false

/-- the harness's make_async_decorator wrapper_fn post-processes the value: EVERY convention must go through it -/
def Kind.userWrapped : Kind → Bool
  | .mad => true
  | _ => false

/-- a pure async callable: the plain call hands back a future (and there is no `.asynq`) -/
def Kind.pureLike : Kind → Bool
  | .pure | .proxyPure => true
  | _ => false

/-- the callable has an `.asynq` attribute -/
def Kind.hasAsynq : Kind → Bool
  | .raw | .pure | .proxyPure => false
  | _ => true

/-- an UNDECORATED generator function (body kinds `gen`, `batch` are generator functions): ordinary Python - calling
    it builds a generator object and runs nothing.  The library offers nothing that would run it: `async_call`,
    `get_async_or_sync_fn` and `get_async_fn(wrap_if_none=True)` hand the generator object on. -/
def Cell.rawGen (c : Cell) : Bool := c.kind == .raw && c.bk != .plain

/-- REFERENCE: what a call that reaches body `r` hands to its caller in the end: the result of RUNNING the body -
    except for an undecorated generator function, where it is the generator object -/
def Cell.refVal (c : Cell) (r : Reach) : Res := if c.rawGen then .gen (.val r) else .val r

/-- REFERENCE: the statement of C09 as a table (`refCv` below: the same, minus the conventions that are not run) -/
def refCvRun (c : Cell) (cv : Cv) (a : Args) (rel : Rel) : CvRes :=
  let sib : Reach := ⟨1, refArgsSib c.ft c.acc rel a, c.kind.userWrapped⟩
  let own : Reach := ⟨1, refArgs c.ft c.acc 0 a, c.kind.userWrapped⟩
  let sync : Reach := ⟨2, refArgs c.ft c.acc 0 a, false⟩
  let tw : Reach := ⟨3, refArgs c.ft c.acc twinOff a, c.kind.userWrapped⟩
  match cv with
  | .sync | .nestedSync => ⟨[], c.refVal (if c.kind.hasSyncFn then sync else own), c.kind.pureLike⟩
  | .asynqValue | .yieldAsynq => ⟨[], if c.kind.hasAsynq then .val own else .err .noAsynq, false⟩
  | .asyncCall | .asyncCallSync => ⟨[], c.refVal own, false⟩
  | .getAsyncFn => ⟨[], if c.kind == .raw then .err .noAsynq else .val own, false⟩
  | .getAsyncOrSync => ⟨[], c.refVal own, c.kind != .raw⟩
  | .getAsyncFnWrap => ⟨[], c.refVal own, false⟩
  | .twin => if c.kind.hasAsynq then ⟨[.val tw], .val own, false⟩ else ⟨[.err .noAsynq], .err .noAsynq, false⟩
  -- a second call of the same attribute - with another receiver or other argument objects, in flight or completed,
  -- whatever their hashes - changes nothing: each call runs the body with ITS receiver and ITS arguments
  | .sibling | .prior =>
    if c.kind.hasAsynq then ⟨[.val sib], .val own, false⟩ else ⟨[.err .noAsynq], .err .noAsynq, false⟩
  | .siblingCall => ⟨[c.refVal sib], c.refVal own, false⟩

def refCv (c : Cell) (cv : Cv) (a : Args) (rel : Rel := .args) : CvRes :=
  if cv.isSib && identicalSib c.ft c.acc rel a then CvRes.skipped else refCvRun c cv a rel

/-- answers of the five helpers -/
structure Cls where
  isAsync : Bool
  isPure : Bool
  hasAsync : Bool
  getAsync : Conv
  getAsyncOrSync : Conv
  deriving Repr, DecidableEq, Inhabited

def modelCls (c : Cell) : Cls :=
  let b := c.callable
  ⟨isAsyncFn b, isPureAsyncFn b, hasAsyncFn b, getAsyncFn b, getAsyncOrSyncFn b⟩

def refCls (c : Cell) : Cls :=
  ⟨c.kind != .raw, c.kind.pureLike, c.kind.hasAsynq,
   if c.kind.hasAsynq then .attr else if c.kind.pureLike then .self else .absent,
   if c.kind.hasAsynq then .attr else .self⟩

/-- what attribute access returned -/
inductive Shape where
  | function | method | decorator | binder | other
  deriving Repr, DecidableEq, Inhabited

structure Got where
  shape : Shape
  inst : Nat          -- `__self__` of a bound method / `.instance` of a binder; 0 = None / not applicable
  deriving Repr, DecidableEq, Inhabited

def shapeOf : Obj → Got
  | .func _ => ⟨.function, 0⟩
  | .fwd _ _ _ _ => ⟨.function, 0⟩
  | .boundm r _ => ⟨.method, r⟩
  | .dec _ _ _ _ => ⟨.decorator, 0⟩
  | .binder _ i => ⟨.binder, i.getD 0⟩
  | _ => ⟨.other, 0⟩

def modelGot (c : Cell) : Got := shapeOf c.callable

/-- REFERENCE: a decorated staticmethod (or module function) is the decorator itself, everything else a binder
    holding exactly the receiver Python would bind; undecorated functions follow Python -/
def refGot (c : Cell) : Got :=
  let recv := (refPrefix c.ft c.acc 0).headD 0
  if c.kind == .raw || c.kind == .proxyPure then
    (if recv == 0 then ⟨.function, 0⟩ else ⟨.method, recv⟩)
  else if c.acc == .direct || c.ft == .static then ⟨.decorator, 0⟩
  else ⟨.binder, recv⟩

/-- the observable part: the receiver held by what attribute access returned (0 = none) -/
def modelRecv (c : Cell) : Nat := (modelGot c).inst
def refRecv (c : Cell) : Nat := (refPrefix c.ft c.acc 0).headD 0

/-! ## CPython's binding of arguments to parameters (assumed semantics; exercised by the correspondence run) -/

structure Sig where
  params : List (Nat × Option Nat)    -- positional-or-keyword parameters: (name, default); the receiver has name 0
  varargs : Bool
  kwonly : List (Nat × Option Nat)
  varkw : Bool
  deriving Repr, DecidableEq, Inhabited

def lookupKw (kw : List (Nat × Nat)) (n : Nat) : Option Nat :=
  (kw.find? (fun p => p.1 == n)).map (·.2)

def insertKw (p : Nat × Nat) : List (Nat × Nat) → List (Nat × Nat)
  | [] => [p]
  | q :: qs => if p.1 ≤ q.1 then p :: q :: qs else q :: insertKw p qs

def sortKw (l : List (Nat × Nat)) : List (Nat × Nat) := l.foldr insertKw []

def flatKw : List (Nat × Nat) → List Nat
  | [] => []
  | p :: ps => p.1 :: p.2 :: flatKw ps

def fillParams (kw : List (Nat × Nat)) : List (Nat × Option Nat) → Option (List Nat)
  | [] => some []
  | p :: ps =>
    match (match lookupKw kw p.1 with | some v => some v | none => p.2), fillParams kw ps with
    | some v, some vs => some (v :: vs)
    | _, _ => none

/-- the values of the parameters as the body sees them: positional-or-keyword parameters, 0, extra positional
    (`*args`), 0, keyword-only parameters, 0, extra keywords (`**kwargs`) sorted by name and flattened;
    `none` = TypeError (too many positional, multiple values, unexpected keyword, missing argument) -/
def bind (s : Sig) (a : Args) : Option (List Nat) :=
  let np := s.params.length
  if a.pos.length > np ∧ ¬ s.varargs then none else
  let filled := (s.params.take a.pos.length).map (·.1)
  if a.kw.any (fun p => filled.contains p.1) then none else
  let known := s.params.map (·.1) ++ s.kwonly.map (·.1)
  let extraKw := a.kw.filter (fun p => !known.contains p.1)
  if ¬ extraKw.isEmpty ∧ ¬ s.varkw then none else
  match fillParams a.kw (s.params.drop a.pos.length), fillParams a.kw s.kwonly with
  | some r, some k =>
    some (a.pos.take np ++ r ++ [0] ++ a.pos.drop np ++ [0] ++ k ++ [0] ++ flatKw (sortKw extraKw))
  | _, _ => none

inductive SigKind where
  | fixed     -- (recv?, a, b=DB, *, c=DC)
  | var       -- (recv?, *args, **kwargs)
  | mixed     -- (recv?, a, b=DB, *args, c=DC, **kwargs)
  deriving Repr, DecidableEq, Inhabited

def tokDB : Nat := 20
def tokDC : Nat := 21

def mkSig (k : SigKind) (hasRecv : Bool) : Sig :=
  let recv := if hasRecv then [(0, none)] else []
  match k with
  | .fixed => ⟨recv ++ [(1, none), (2, some tokDB)], false, [(3, some tokDC)], false⟩
  | .var => ⟨recv, true, [], true⟩
  | .mixed => ⟨recv ++ [(1, none), (2, some tokDB)], true, [(3, some tokDC)], true⟩

/-! ## observations -/

inductive ErrCls where
  | noAsynq | typeError | attrError | other
  | skipped     -- the convention was not run (see `Err.skipped`)
  deriving Repr, DecidableEq, Inhabited

inductive Outcome where
  | ok (body : Nat) (wrapped : Bool)   -- the very object body `body` returned (inside the wrapper_fn's wrapping)
  | raisedUser (body : Nat)    -- the very exception body `body` raised
  | raised (c : ErrCls)
  | gotFuture                  -- a future object came back where the value was due
  | gotGenerator               -- a generator object that nobody runs came back (an UNDECORATED generator function)
  deriving Repr, DecidableEq, Inhabited

structure Entry where
  body : Nat
  seen : List Nat
  got : Bool           -- the value sent back into a generator / batch-blocking body was the one it awaited
  deriving Repr, DecidableEq, Inhabited

structure Obs where
  cv : Cv
  log : List Entry
  out : Outcome
  flag : Bool
  deriving Repr, DecidableEq, Inhabited

/-- the user's bodies: own bodies (1, 2) raise when the case says so; the twin's never do -/
def bodyOutcome (raises : Bool) (body : Nat) (wrapped : Bool) : Outcome :=
  if raises ∧ body ≤ 2 then .raisedUser body else .ok body wrapped

def Err.cls : Err → ErrCls
  | .noAsynq => .noAsynq
  | .typeError => .typeError
  | .notFuture => .attrError
  | .skipped => .skipped

/-- the arguments of the call that produced `r` do not bind to the parameters of the body -/
def Res.bindFails (s : Sig) : Res → Bool
  | .val x => (bind s x.args).isNone
  | .gen x => x.bindFails s
  | .futOf x => x.bindFails s
  | .err _ => false

/-- running a reached body: binding may fail (TypeError, body never entered) -/
def execRes (s : Sig) (raises : Bool) : Res → List Entry × Outcome
  | .val x =>
    (match bind s x.args with
     | some seen => ([⟨x.body, seen, true⟩], bodyOutcome raises x.body x.wrapped)
     | none => ([], .raised .typeError))
  | .err e => ([], .raised e.cls)
  | .gen x =>
    -- a generator object where a value was due: the arguments were bound when it was built (a TypeError surfaces
    -- there), the body has NOT been entered and never will be
    if x.bindFails s then ([], .raised .typeError) else ([], .gotGenerator)
  | .futOf x =>
    -- a future object where a value was due: what produced its outcome has happened (bound, entered)
    if x.bindFails s then ([], .raised .typeError) else ((execRes s raises x).1, .gotFuture)

/-- the observation of one convention.  The flag is only reported when no TypeError surfaced (whether a binding
    error surfaces when the future is created or when it first runs is not part of the observation). -/
def obsOf (s : Sig) (raises : Bool) (cv : Cv) (x : CvRes) : Obs :=
  let pre := x.pre.map (execRes s false)
  let own := execRes s raises x.res
  { cv := cv, log := (pre.map (·.1)).flatten ++ own.1, out := own.2,
    flag := x.flag && own.2 != .raised .typeError }

/-- the kind of objects passed as argument values -/
inductive ValKind where
  | tok        -- plain objects: identity `__eq__` / `__hash__`
  | chash      -- objects (and receivers: instances AND classes) whose `__hash__` is one constant: every two collide
  | bigint     -- built-in ints `k` and, in the second call, `k + (2**61 - 1)`: different values, equal hashes
  | tuple      -- built-in tuples `(-1, k)` and, in the second call, `(-2, k)`: `hash(-1) == hash(-2)`
  | falsy      -- objects whose `__bool__` is False and `__len__` is 0
  deriving Repr, DecidableEq, Inhabited

/-- the hash of every value token under a value kind (second-call values are `v + 100`) -/
def ValKind.hashOf : ValKind → Nat → Nat
  | .tok | .falsy => id
  | .chash => fun _ => 0
  | .bigint | .tuple => fun v => v % 100

structure Case where
  cell : Cell
  raises : Bool
  sig : SigKind
  args : Args
  falsy : Bool := false          -- the generated instances and classes are falsy objects        } harness dimensions:
  pre : List Access := []        -- look-ups of the same attribute BEFORE the observed access    } read by NO function here
  rel : Rel := .args             -- how the second call of `sibling` / `siblingCall` / `prior` differs
  vk : ValKind := .tok           -- what kind of objects the argument values (and receivers) are
  deriving Repr, DecidableEq, Inhabited

def Case.theSig (c : Case) : Sig := mkSig c.sig (hasRecvParam c.cell.ft c.cell.acc)

/-- everything observed about one case -/
structure Report where
  obs : List Obs
  cls : Cls
  got : Nat            -- the receiver bound by attribute access (`binder.instance` / `method.__self__`), 0 = none
  deriving Repr, DecidableEq, Inhabited

def report (cvf : Cell → Cv → Args → Rel → CvRes) (clsf : Cell → Cls) (gotf : Cell → Nat) (c : Case) : Report :=
  { obs := Cv.all.map (fun cv => obsOf c.theSig c.raises cv (cvf c.cell cv c.args c.rel)),
    cls := clsf c.cell, got := gotf c.cell }

/-- the environment of a case: nothing in flight, nothing cached, the default key function; the hashes of the
    value kind; whether the bodies raise -/
def Case.env (c : Case) : Env :=
  { keyOf := id, tasks := [], cache := [], hashOf := c.vk.hashOf, raises := c.raises }

def modelReport (c : Case) : Report := report (fun cell cv a rel => modelCv c.env cell cv a rel) modelCls modelRecv c
/-- the report of the repaired tree -/
def modelReportF (c : Case) : Report := report (fun cell cv a rel => modelCvF c.env cell cv a rel) modelCls modelRecv c
def refReport (c : Case) : Report := report (fun cell cv a rel => refCv cell cv a rel) refCls refRecv c

/-! ## the property as a predicate over observations (no model object involved) -/

def obsClause (e o : Obs) : Option String :=
  if e.cv != o.cv then some ("missing@" ++ e.cv.name)
  else if e.log.map (·.body) != o.log.map (·.body) then some ("body@" ++ e.cv.name)
  else if e.log.map (·.seen) != o.log.map (·.seen) then some ("args@" ++ e.cv.name)
  else if e.log.map (·.got) != o.log.map (·.got) then some ("resume@" ++ e.cv.name)
  else if e.out != o.out then some ("outcome@" ++ e.cv.name)
  else if e.flag != o.flag then some ("future@" ++ e.cv.name)
  else none

def obsListClause : List Obs → List Obs → Option String
  | [], [] => none
  | e :: es, o :: os => (obsClause e o).orElse (fun _ => obsListClause es os)
  | e :: _, [] => some ("missing@" ++ e.cv.name)
  | [], _ :: _ => some "extra-observation"

def clsClause (e o : Cls) : Option String :=
  if e.isAsync != o.isAsync then some "classify@is_async_fn"
  else if e.isPure != o.isPure then some "classify@is_pure_async_fn"
  else if e.hasAsync != o.hasAsync then some "classify@has_async_fn"
  else if e.getAsync != o.getAsync then some "classify@get_async_fn"
  else if e.getAsyncOrSync != o.getAsyncOrSync then some "classify@get_async_or_sync_fn"
  else none

def reportClause (e o : Report) : Option String :=
  (obsListClause e.obs o.obs).orElse fun _ =>
  (clsClause e.cls o.cls).orElse fun _ =>
  (if e.got != o.got then some "bound-receiver" else none)

/-- `Spec.C09`: the cell is one the property speaks about (`supported`: the bindings each decorator is written for)
    AND the observations are those of the reference semantics.  Outside the supported bindings NOTHING is accepted:
    the generator never produces such a cell, and a report for one is rejected (`C09_spec_exact`). -/
def spec (c : Case) (r : Report) : Bool :=
  supported c.cell.kind c.cell.ft c.cell.acc && (reportClause (refReport c) r).isNone

/-- the clause of `spec` that fails, for the verdict line -/
def specClause (c : Case) (r : Report) : String :=
  if spec c r then "ok"
  else if !supported c.cell.kind c.cell.ft c.cell.acc then "unsupported-cell"
  else (reportClause (refReport c) r).getD "unknown"

/-! ## vocabulary of the theorems -/

/-- the conventions that ask for the ASYNC side of the callable, and when the callable offers them
    (`C09_available_needed`: where it is false the convention ends in a missing attribute):
    `.asynq` needs the attribute, `get_async_fn` needs something async; `async_call`,
    `get_async_or_sync_fn` and `get_async_fn(wrap_if_none=True)` accept anything callable.  (`sync`, `nestedSync` are the synchronous conventions.) -/
def available (k : Kind) (cv : Cv) : Bool :=
  match cv with
  | .sync | .nestedSync => false
  | .asynqValue | .yieldAsynq | .twin => k.hasAsynq
  | .getAsyncFn => k != .raw
  | .asyncCall | .asyncCallSync | .getAsyncOrSync | .getAsyncFnWrap => true
  | .sibling | .siblingCall | .prior => false     -- two calls: stated separately (`availableSib`, `C09_second_call_partial`)

/-- when a convention with a second call of the same attribute can be run at all -/
def availableSib (k : Kind) (cv : Cv) : Bool :=
  match cv with
  | .sibling | .prior => k.hasAsynq
  | .siblingCall => true
  | _ => false

/-- an environment in which no deduplicated task is in flight -/
def Env.idle (keyOf : Args → Args) : Env := { keyOf := keyOf, tasks := [] }

/-- nothing in flight, nothing cached; ARBITRARY key function, hashes and raising flag -/
def Env.quiet (keyOf : Args → Args) (hashOf : Nat → Nat) (raises : Bool) : Env :=
  { keyOf := keyOf, tasks := [], cache := [], hashOf := hashOf, raises := raises }

/-- every entry of the function under test (identity 1) in an in-flight table / a cache was put there by a call of
    THAT function: it holds the task (the value) of body 1 run with some arguments, under the key of those arguments.
    Entries of other functions are unconstrained. -/
def Table.ownConsistent (keyOf : Args → Args) (t : Table) : Prop :=
  ∀ e ∈ t, e.1.1 = 1 → e.2.body = 1 ∧ e.2.wrapped = false ∧ e.1.2 = keyOf e.2.args

/-- no entry of the function under test that runs with OTHER arguments sits under the key of arguments `x`: true when
    the key function is injective (the library's default: the identity on the bound arguments) and when the table holds
    no entry of the function at all (`separates_of_injective`, `separates_of_foreign`) -/
def Table.separates (keyOf : Args → Args) (x : Args) (t : Table) : Prop :=
  ∀ e ∈ t, e.1.1 = 1 → keyOf e.2.args = keyOf x → e.2.args = x

/-- what Python prepends for a plain `def` / staticmethod / classmethod fetched through ANY instance (`owner = some i`)
    or through the class (`owner = none`) of ANY class `cls` -/
def pyPrefix (ft : FnType) (owner : Option Nat) (cls : Nat) : List Nat :=
  match ft with
  | .static => []
  | .classm => [cls]
  | .plain => owner.toList

/-! ## extension: what happened in the same world BEFORE the observed convention; an overriding subclass

  `XCase` = a `Case` plus (a) the HISTORY of the world the observed convention runs in and (b) whether the subclass of
  the generated hierarchy OVERRIDES the decorated attribute and delegates to the inherited one through `super()`.
  The first part names the two pieces of state the library could leave behind between two uses of a decorated
  attribute - the context variable `_asyncio_mode` and entries in instance `__dict__`s that would shadow the class
  attribute (the decorators are non-data descriptors) - with one step per event.  NO event writes either of them (the code
  stores nothing in an instance, `.asyncio()` resets the mode on every exit), so the steps are the identity on every
  reachable state and `modelReportH` is `modelReport` BY CONSTRUCTION; the caches / the in-flight table are not threaded
  through the history (the `use` events call with THIRD argument objects, whose entries cannot matter by
  `C09_other_keys_irrelevant_partial` - not derived).  That the CODE leaves nothing behind is the differential run's part.  The second part is NOT a model of `super()`: it is a direct expectation on the observations (see
  `ovrLog`). -/

/-- events in the world of the observed convention, before it (harness: `World.event`) -/
inductive Ev where
  | use          -- the attribute is fetched through the observed access path and called (sync, `.asynq().value()`,
                 -- `async_call`) with THIRD argument objects (neither the observed nor the second call's)
  | useThread    -- the same, in another thread
  | helpers      -- the five classification / conversion helpers are applied to the attribute fetched through every path
  | copy         -- every instance is replaced by `copy.copy` of itself (the originals stay alive under other tokens)
  | deepcopy     -- the same with `copy.deepcopy`
  | aioOk        -- `await helper.asyncio()` of a returning @asynq() function, awaited DIRECTLY in the coroutine
                 -- (same asyncio task, same context) in which the observed convention then runs
  | aioFail      -- the same with a helper whose body raises (the exception is caught by the caller)
  | aioSelf      -- `await b.asyncio(...)` of the attribute under test itself (third argument objects; whatever it raises
                 -- - the case's exception, "BatchItem is not supported", a missing attribute - is caught)
  | gc           -- the results of earlier look-ups are dropped and `gc.collect()` runs
  | dbg          -- the debug / profiling options of asynq.debug are switched on from here on
  | scoped       -- from here on everything runs inside an override of an AsyncScopedValue
  | mocked       -- the class attribute was patched with asynq.mock.patch.object and restored
  | bcopy        -- from here on the callable that is used is `copy.copy` of what attribute access returned (a copied
                 -- binder / bound method; a decorator object cannot be copied and is used as it is)
  deriving Repr, DecidableEq, Inhabited

/-- the state a use of a decorated attribute could leave behind for the next one -/
structure HState where
  mode : Bool               -- `_asyncio_mode.get()` in the caller's context (asynq_to_async.py:23-29)
  shadowed : List Nat       -- instances whose `__dict__` holds an entry named like the decorated attribute
  deriving Repr, DecidableEq, Inhabited

def HState.init : HState := ⟨false, []⟩

def HState.clean (s : HState) : Bool := !s.mode && s.shadowed.isEmpty

/-- AsyncioMode.__enter__ (asynq_to_async.py:83-85): `self._token = _asyncio_mode.set(True)`; the token remembers the
    old value -/
def aioEnter (s : HState) : HState × Bool := ({ s with mode := true }, s.mode)

/-- AsyncioMode.__exit__ (asynq_to_async.py:87-90): `_asyncio_mode.reset(self._token)` -/
def aioExit (s : HState) (token : Bool) : HState := { s with mode := token }

/-- `await fn.asyncio(...)` (decorators.py convert_asynq_to_async: `with AsyncioMode(): <run the body>`): a `with`
    statement calls `__exit__` on EVERY way of leaving the block, so whether the body fails does not matter -/
def aioCall (s : HState) (_fails : Bool) : HState :=
  let p := aioEnter s
  aioExit p.1 p.2

/-- what `aioCall` would be if the reset were skipped when the body fails (a generator-based context manager without
    try/finally): only used by the witness `C09_aio_exit_needed` -/
def aioCallLeaky (s : HState) (fails : Bool) : HState :=
  let p := aioEnter s
  if fails then p.1 else aioExit p.1 p.2

/-- after `copy`, the copies carry the tokens of the instances; the originals live on under `origTok` -/
def origTok (i : Nat) : Nat := i + 50

/-- one event (the identity on every state with `shadowed = []`; see the section header).  Attribute access (`DecoratorBase.__get__`, the pair override decorators.py:263-280), the call paths
    and the helpers store nothing in the instance and leave the context variable alone; `copy.copy` / `deepcopy`
    carry an instance's `__dict__` over to the copy; `.asyncio()` sets and resets the mode. -/
def HState.step (raises : Bool) (s : HState) : Ev → HState
  | .use | .useThread | .helpers => s
  | .copy | .deepcopy => { s with shadowed := s.shadowed ++ s.shadowed.map origTok }
  | .aioOk => aioCall s false
  | .aioFail => aioCall s true
  | .aioSelf => aioCall s raises
  | .gc | .dbg | .scoped | .mocked | .bcopy => s      -- no component of the state they could touch

def runHistFrom (raises : Bool) (s : HState) (h : List Ev) : HState := h.foldl (HState.step raises) s

def runHist (raises : Bool) (h : List Ev) : HState := runHistFrom raises HState.init h

structure XCase where
  base : Case
  hist : List Ev := []
  ovr : Bool := false
  deriving Repr, DecidableEq, Inhabited

/-- no observation at all: what the model says when the state is not clean (in asyncio mode the conventions are C15's
    subject; a shadowed attribute is not a decorated attribute any more).  Unreachable BY CONSTRUCTION of `HState.step`
    (`C09_history_clean_by_construction`): no event of `Ev` writes the state. -/
def Report.undefined : Report := ⟨[], ⟨false, false, false, .absent, .absent⟩, 0⟩

/-- MODEL with history: run the events, then the case -/
def modelReportH (x : XCase) : Report :=
  if (runHist x.base.raises x.hist).clean then modelReport x.base else Report.undefined

/-! ### an overriding subclass (direct expectation; no theorem speaks about `super()`)

  Harness: `Sub` defines its OWN attribute of the same name, decorated the same way; its bodies (identities 5 = async
  body, 6 = sync_fn) have the same parameter list, log their bound parameters and delegate to the inherited attribute
  `super(Sub, self).target` (`super(Sub, cls)` for a classmethod) with the same arguments: the async body by
  `yield super().target.asynq(...)` (a pure kind: `yield super().target(...)`; a proxied body returns that future),
  sync_fn by the plain call.  Expectation: wherever the reference table has an entry of an own body (1 or 2), the
  entry of the overriding body (5 or 6) with the SAME bound parameters comes just before it; outcomes, flags, helpers
  and the bound receiver are unchanged.  The conventions with two calls IN FLIGHT at once (`twin`, `sibling`,
  `siblingCall`) are not run (the interleaving of four bodies is scheduling, C01-C08). -/

def ovrLog : List Entry → List Entry
  | [] => []
  | e :: es =>
    if e.body == 1 || e.body == 2 then { e with body := e.body + 4, got := true } :: e :: ovrLog es
    else e :: ovrLog es

def Cv.inFlight : Cv → Bool
  | .twin | .sibling | .siblingCall => true
  | _ => false

def ovrObs (o : Obs) : Obs :=
  if o.cv.inFlight then ⟨o.cv, [], .raised .skipped, false⟩ else { o with log := ovrLog o.log }

def Report.ovr (r : Report) : Report := { r with obs := r.obs.map ovrObs }

/-- where the override family is defined: the attribute is fetched through the subclass or its instance, the function
    has a receiver (instance method; classmethod unless the second call goes through the base class), the body is a
    generator function -/
def XCase.ovrOk (x : XCase) : Bool :=
  !x.ovr ||
    ((x.base.cell.acc == .subInst || x.base.cell.acc == .subCls) &&
     (x.base.cell.ft == .plain || (x.base.cell.ft == .classm && x.base.rel == .args)) &&
     x.base.cell.bk != .plain)

def modelReportX (x : XCase) : Report := if x.ovr then (modelReportH x).ovr else modelReportH x

def refReportX (x : XCase) : Report := if x.ovr then (refReport x.base).ovr else refReport x.base

/-- the observer the check evaluates: `spec` of the underlying case when there is no override (`C09_ext_conservative`),
    whatever the history; the transformed reference report with one -/
def specX (x : XCase) (r : Report) : Bool :=
  supported x.base.cell.kind x.base.cell.ft x.base.cell.acc && x.ovrOk && (reportClause (refReportX x) r).isNone

def specClauseX (x : XCase) (r : Report) : String :=
  if specX x r then "ok"
  else if !supported x.base.cell.kind x.base.cell.ft x.base.cell.acc then "unsupported-cell"
  else if !x.ovrOk then "unsupported-override"
  else (reportClause (refReportX x) r).getD "unknown"

end AsynqModel.Decorators
