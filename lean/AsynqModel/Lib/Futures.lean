/-
  Model of asynq/futures.py (FutureBase, Future, ConstFuture, ErrorFuture) and of AsyncTask seen as a
  future (asynq/async_task.py: _compute/_computed/_queue_exit/_accept_error for a body that does not block).

  One future, a history of operations, and what an observer sees after each operation.
  Values and errors are identity tokens (Nat); value token 0 is Python's None.  Error tokens stand for exception
  objects; Python's None in the place of an error (`set_error(None)`, `ErrorFuture(None)`) has its own constructors
  (`Op.setErrorNone`, `Kind.errorNone`): `_error = None` IS the library's encoding of "no error", so such a call
  completes the future with the VALUE None (futures.py set_error: `_error = error; _value = None`).

  Kinds modelled: Future (three kinds of provider), ConstFuture, ErrorFuture, AsyncTask whose body does not block.
  Batches, batch items and blocking tasks are NOT kinds of this model (their completion paths are C11 / the core machine).

  Debug options switched while the future is in flight (`Op.option`): COLLECT_PERF_STATS makes `AsyncTask._computed` run
  `collect_perf_stats()` between "outcome stored" and "subscribers notified".  Whether that step can run for this task is
  the creation-time fact `Cfg.statsOk`.  On the current tree it always can (`_id` has a class-level default, `to_str()`
  falls back to a description without arguments for every Exception their repr() raises); the harness PROBES this once per
  worker and hands the result to the model, and the property theorem `C10_spec_holds` has `statsOk` as a
  hypothesis.  If the step cannot run (`statsOk = false`: an earlier tree, a mutation) it raises - inside a try/finally
  whose finally notifies the subscribers, so the exception reaches whoever completes the task AFTER everybody was
  notified (`hookExc`); the observer `spec` REJECTS that answer (the completing `value()` does not report the outcome).

  Exceptions of subscribers (`FutureBase._computed`, futures.py:118-140): `on_computed.safe_trigger(self)` calls every
  handler of a snapshot, remembers the FIRST exception a handler raised and re-raises it after the last handler;
  `_computed` catches it (`except Exception as e`) and prints `core_helpers.safe_repr(e)` - INSIDE the handler of the
  except clause.  qcore's `safe_repr(e)` is `try: repr(e) except Exception as x: "<n/a: repr(...) raised %s>" % x`:
  * `repr(e)` returns (`Beh.raising`): printed, nothing escapes;
  * `repr(e)` raises an Exception `x` that can be formatted with `%s` (`Beh.raisingBad`): the fallback text is printed,
    nothing escapes (before fix 591bc3e `repr(e)` was called unguarded and `x` escaped);
  * `repr(e)` raises an Exception `x` whose `str()` raises `y` (`Beh.raisingWorse`): the `%s` formatting sits inside
    safe_repr's OWN except clause, `y` leaves `safe_repr` (`safeReprRaises`).  Before fix 9f49616 `y` left `_computed` too
    and with it `set_value` / `set_error` / the computing read (`Exc.subRepr`; finding `subscriber-repr-error-escapes`).
    Since 9f49616 `_computed` calls safe_repr inside `try: ... except Exception: description = "<unprintable %s>" %
    type(e).__name__`, so nothing escapes (`subEscapes = false`); the observer `spec` still REJECTS such an answer with the
    clause `subscriber-repr-error-escapes` (a regression is a violation), `C10_subscriber_repr_error_repaired` shows the
    history of the former finding accepted, and `C10_spec_holds` has no hypothesis about subscribers.
-/
namespace AsynqModel.Futures

inductive Kind where
  | lazyOk (v : Nat)    -- Future(lambda: v)
  | lazyErr (e : Nat)   -- Future(provider raising e)
  | const (v : Nat)     -- ConstFuture(v)
  | error (e : Nat)     -- ErrorFuture(e), e an exception object
  | errorNone           -- ErrorFuture(None): set_error(None) stores `_error = None, _value = None` = completed with value None
  | taskOk (v : Nat)    -- AsyncTask whose body returns v without yielding
  | taskErr (e : Nat)   -- AsyncTask whose body raises e
  | lazySelfSet (v w : Nat)  -- Future(provider) whose provider completes the future itself with v, then returns w
  deriving Repr, DecidableEq, Inhabited

inductive Outc where
  | val (v : Nat)
  | err (e : Nat)
  deriving Repr, DecidableEq, Inhabited

inductive Exc where
  | user (e : Nat)
  | alreadyComputed     -- FutureIsAlreadyComputed
  | notSubscribed       -- ValueError of `on_computed.unsubscribe(h)` for a handler that is not subscribed (list.remove)
  | notImplemented      -- FutureBase._compute of a future without provider (ConstFuture after reset_unsafe)
  | hook                -- what AsyncTask.collect_perf_stats raised, if it cannot run for the task (`Cfg.statsOk = false`)
  | subRepr             -- what left `safe_repr(e)` inside FutureBase._computed's `except Exception as e` (e = the first exception a subscriber raised)
  | other               -- anything else (never produced by the model; lets the driver parse any observation)
  deriving Repr, DecidableEq, Inhabited

inductive Res where
  | ok (v : Nat)             -- value returned by value() / __call__
  | errIs (e : Option Nat)   -- what error() returned
  | raised (x : Exc)
  | bool (b : Bool)
  | unit
  deriving Repr, DecidableEq, Inhabited

/-- what an on_computed subscriber does WHILE it is being notified (after recording what it sees) -/
inductive Beh where
  | good                 -- returns
  | raising              -- raises an Exception (one that can be printed)
  | raisingBad           -- raises an Exception whose `repr()` raises an Exception that `%s` can format
  | raisingWorse         -- raises an Exception whose `repr()` raises an Exception whose `str()` raises an Exception
  | oneShot              -- `f.on_computed.unsubscribe(itself)`, then returns (the classic one-shot callback)
  | unsub (j : Nat)      -- `f.on_computed.unsubscribe(handler j)` (ValueError -> swallowed, if j is not subscribed)
  | resub (j : Nat)      -- `f.on_computed.subscribe(new well-behaved handler j)`
  | reenter (o : Outc)   -- calls `f.set_value(v)` / `f.set_error(e)` on the future that is notifying it, records the result
  deriving Repr, DecidableEq, Inhabited

abbrev Sub := Nat × Beh

/-- the debug options that sit on the completion path (`_debug.options`) -/
inductive DbgOpt where
  | perfStats      -- COLLECT_PERF_STATS: AsyncTask._computed calls collect_perf_stats() before the subscribers are notified
  | dumpComputed   -- DUMP_COMPUTED: FutureBase._computed writes a line before the subscribers are notified
  deriving Repr, DecidableEq, Inhabited

inductive Op where
  | value | error | call | isComputed
  | setValue (v : Nat) | setError (e : Nat)
  | setErrorNone         -- `set_error(None)`
  | reset
  | subscribe (id : Nat) (beh : Beh)
  | unsubscribe (id : Nat)
  | option (o : DbgOpt) (on : Bool)   -- `asynq.debug.options.<o> = on` while the future exists
  | raiseIfError         -- `raise_if_error()`: raises the stored error, NEVER computes
  | inspect              -- `repr(f)` / `str(f)`: describes the future, never computes
  deriving Repr, DecidableEq, Inhabited

/-- how the future was created / what was switched on at that moment -/
structure Cfg where
  statsOk : Bool := true  -- AsyncTask: collect_perf_stats() can run for this task (probed by the harness on the tree under test)
  perf : Bool := false    -- COLLECT_PERF_STATS at creation
  deriving Repr, DecidableEq, Inhabited

def Op.name : Op → String
  | .value => "value" | .error => "error" | .call => "call" | .isComputed => "isComputed"
  | .setValue _ => "setValue" | .setError _ => "setError" | .setErrorNone => "setErrorNone" | .reset => "reset" | .subscribe _ _ => "subscribe"
  | .unsubscribe _ => "unsubscribe" | .option _ _ => "option" | .raiseIfError => "raiseIfError" | .inspect => "inspect"

/-- one notification: which subscriber, the outcome it could read from the future at that moment, and (re-entrant
    subscribers) what its own attempt to complete the future again resulted in -/
structure Cb where
  sub : Nat
  seen : Option Outc
  inner : Option Res := none
  deriving Repr, DecidableEq, Inhabited

structure Fut where
  kind : Kind
  out : Option Outc            -- `_value is not _none`, with `_error`
  subs : List Sub              -- on_computed.handlers, in subscription order
  runs : Nat                   -- how often the provider / task body ran
  alive : Bool                 -- AsyncTask: `_generator is not None`
  statsOk : Bool := true       -- AsyncTask: `collect_perf_stats()` can run (`Cfg.statsOk`)
  perf : Bool := false         -- `_debug.options.COLLECT_PERF_STATS` right now
  deriving Repr, DecidableEq, Inhabited

/-- what a read-only observer records after every operation -/
structure Obs where
  op : Op
  res : Res
  cbs : List Cb
  after : Option Outc    -- is_computed() and, if so, the outcome
  runs : Nat
  deriving Repr, DecidableEq, Inhabited

def Kind.sinking : Kind → Bool
  | .const _ | .error _ | .errorNone => true
  | _ => false

def Kind.isTask : Kind → Bool
  | .taskOk _ | .taskErr _ => true
  | _ => false

def init (k : Kind) (c : Cfg := {}) : Fut :=
  match k with
  | .const v => { kind := k, out := some (.val v), subs := [], runs := 0, alive := false, statsOk := c.statsOk, perf := c.perf }
  | .error e => { kind := k, out := some (.err e), subs := [], runs := 0, alive := false, statsOk := c.statsOk, perf := c.perf }
  | .errorNone => { kind := k, out := some (.val 0), subs := [], runs := 0, alive := false, statsOk := c.statsOk, perf := c.perf }
  | _ => { kind := k, out := none, subs := [], runs := 0, alive := true, statsOk := c.statsOk, perf := c.perf }

/-- `EventHook.unsubscribe` = `list.remove`: drops the FIRST handler with that identity -/
def eraseSub : List Sub → Nat → List Sub
  | [], _ => []
  | s :: ss, j => if s.1 == j then ss else s :: eraseSub ss j

def hasSub (subs : List Sub) (j : Nat) : Bool := subs.any (·.1 == j)

/-- the effect one notified subscriber has on the LIVE handler list -/
def applyBeh (subs : List Sub) (s : Sub) : List Sub :=
  match s.2 with
  | .oneShot => eraseSub subs s.1
  | .unsub j => eraseSub subs j
  | .resub j => subs ++ [(j, .good)]
  | _ => subs

/-- the handler list after a notification round: `safe_trigger` walks a COPY (`list(self.handlers)`) taken when the
    round starts, every handler of the copy is called in order and edits the live list -/
def afterNotify (subs : List Sub) : List Sub := subs.foldl applyBeh subs

/-- does subscriber `s`, called while the LIVE handler list is `live`, raise an Exception out of the handler?
    `none` = it returns; `some esc` = it raises an exception `e`, `esc` = `qcore.safe_repr(e)` raises (helpers.py:229-234:
    `repr(e)` raises `x` and `"... %s" % x` raises too).  `unsubscribe` of a handler that is not (no longer) in the live
    list is `list.remove` raising ValueError - inside the handler, so it counts. -/
def behRaises (live : List Sub) (s : Sub) : Option Bool :=
  match s.2 with
  | .raising => some false
  | .raisingBad => some false     -- safe_repr catches what repr(e) raised and formats it
  | .raisingWorse => some true    -- ... unless formatting THAT raises: inside safe_repr's except clause, nothing catches it
  | .oneShot => if hasSub live s.1 then none else some false
  | .unsub j => if hasSub live j then none else some false
  | _ => none

/-- `safe_trigger`: walk the snapshot with the live list, return the FIRST exception raised (does safe_repr of it raise?);
    later exceptions are dropped by `safe_trigger`, so only the first one reaches `_computed`'s except clause -/
def firstRaise : List Sub → List Sub → Option Bool
  | _, [] => none
  | live, s :: ss =>
    match behRaises live s with
    | some b => some b
    | none => firstRaise (applyBeh live s) ss

/-- does `core_helpers.safe_repr(e)` raise for the exception `e` that `safe_trigger` re-raises (the FIRST one of the round)?
    A fact about the INPUT; the observer uses it to give a regression of 9f49616 its own clause name. -/
def safeReprRaises (subs : List Sub) : Bool := firstRaise subs subs == some true

/-- `FutureBase._computed` (futures.py:138-146): `except Exception as e: try: description = core_helpers.safe_repr(e)
    except Exception: description = "<unprintable ...>"; print(...); traceback.print_exc()` - does an exception leave
    `_computed`?  Since 9f49616: never (whether or not `safeReprRaises`).  The definition and its uses in `compute` /
    `computedExc` stay as the (now dead) exception channel of the subscribers. -/
def subEscapes (_subs : List Sub) : Bool := false

/-- what the observer EXPECTS of a re-entrant `set_value` / `set_error` made from inside a notification: refused -/
def expInner : Beh → Option Res
  | .reenter _ => some (.raised .alreadyComputed)
  | _ => none

/-- what a re-entrant `set_value` / `set_error` DOES, evaluated against the state of the future at the moment the
    subscriber runs (set_value / set_error: `if self.is_computed(): raise FutureIsAlreadyComputed`) -/
def innerRes (f : Fut) : Beh → Option Res
  | .reenter _ => some (if f.out.isSome then .raised .alreadyComputed else .unit)
  | _ => none

/-- one subscriber is called with the future in state `f`: it records what it can read from `f` at that moment -/
def notifyOne (f : Fut) (s : Sub) : Cb := { sub := s.1, seen := f.out, inner := innerRes f s.2 }

/-- the notification the property asks for: subscriber `s` sees outcome `o` and its re-entrant set is refused -/
def notif (o : Outc) (s : Sub) : Cb := { sub := s.1, seen := some o, inner := expInner s.2 }

/-- `set_value` / `set_error` on an uncomputed future: FIRST store (`_error = ..; _value = ..`), THEN `_computed`
    (AsyncTask closes its generator first), which calls every subscriber of the snapshot with the future as it is
    then, swallowing their `Exception`s. -/
def complete (f : Fut) (o : Outc) : Fut × List Cb :=
  let stored : Fut := { f with out := some o, alive := false }
  ({ stored with subs := afterNotify f.subs }, f.subs.map (notifyOne stored))

/-- AsyncTask._computed: `try: close the generator; if COLLECT_PERF_STATS: self.collect_perf_stats() finally:
    FutureBase._computed(self)` - does the perf-stats step of THIS completion raise?  (to_str() needs `self._id`) -/
def hookFails (f : Fut) : Bool := f.kind.isTask && f.perf && !f.statsOk

/-- the exception that leaves `_computed` (and with it set_value / set_error / the scheduler / value()) AFTER the
    finally clause has notified the subscribers -/
def hookExc (f : Fut) : Option Exc := if hookFails f then some .hook else none

/-- the exception that leaves `_computed` of this completion: the finally clause of AsyncTask._computed runs
    FutureBase._computed, so what escapes from THERE (the subscribers' channel) replaces the exception of the perf-stats step -/
def computedExc (f : Fut) : Option Exc := if subEscapes f.subs then some .subRepr else hookExc f

/-- result of a `set_value` / `set_error` that was accepted -/
def setRes (f : Fut) : Res :=
  match computedExc f with
  | some x => .raised x
  | none => .unit

/-- `_compute()` of an uncomputed future: new state, notifications, and the exception `_compute` lets escape -/
def compute (f : Fut) : Fut × List Cb × Option Exc :=
  match f.kind with
  | .lazyOk v =>
    -- Future._compute: `try: self.set_value(provider()) except Exception as error: self.set_error(error); raise` - what
    -- escapes from set_value's `_computed` is caught there, set_error finds the future computed and raises
    let (f', cbs) := complete { f with runs := f.runs + 1 } (.val v)
    (f', cbs, if subEscapes f.subs then some .alreadyComputed else none)
  | .lazyErr e =>   -- Future._compute: set_error(error); raise - what escapes from set_error's `_computed` replaces the `raise`
    let (f', cbs) := complete { f with runs := f.runs + 1 } (.err e)
    (f', cbs, if subEscapes f.subs then some .subRepr else some (.user e))
  | .const _ | .error _ | .errorNone => (f, [], some .notImplemented)
  | .lazySelfSet v _ =>
    -- the provider calls set_value(v) on the future (subscribers notified with v); `set_value(provider())` then raises
    -- FutureIsAlreadyComputed, the handler's set_error raises it again: the first outcome stays, the call raises
    -- (if a subscriber's exception escapes from the provider's set_value, the provider raises that instead of returning:
    -- `except Exception: self.set_error(..)` raises FutureIsAlreadyComputed all the same)
    let (f', cbs) := complete { f with runs := f.runs + 1 } (.val v)
    (f', cbs, some .alreadyComputed)
  | .taskOk v =>
    -- _continue: `except StopIteration: self._queue_exit(value)` -> set_value -> _computed; what _computed raises leaves
    -- _continue, the scheduler and value()
    if f.alive then
      let (f', cbs) := complete { f with runs := f.runs + 1 } (.val v)
      (f', cbs, computedExc f)
    else  -- generator already closed: _continue_on_generator raises StopIteration, value None
      let (f', cbs) := complete f (.val 0)
      (f', cbs, computedExc f)
  | .taskErr e =>
    if f.alive then
      let (f', cbs) := complete { f with runs := f.runs + 1 } (.err e)
      (f', cbs, computedExc f)
    else
      let (f', cbs) := complete f (.val 0)
      (f', cbs, computedExc f)

def readValue (o : Outc) : Res :=
  match o with
  | .val v => .ok v
  | .err e => .raised (.user e)

def readError (o : Outc) : Res :=
  match o with
  | .val _ => .errIs none
  | .err e => .errIs (some e)

/-- `raise_if_error()` of a computed future -/
def raiseRes : Outc → Res
  | .err e => .raised (.user e)
  | .val _ => .unit

def step (f : Fut) (op : Op) : Fut × Res × List Cb :=
  match op with
  | .value | .call =>
    match f.out with
    | some o => (f, readValue o, [])
    | none =>
      let (f', cbs, x) := compute f
      match x with
      | some x => (f', .raised x, cbs)
      | none =>
        match f'.out with
        | some o => (f', readValue o, cbs)
        | none => (f', .raised .notImplemented, cbs)
  | .error =>
    match f.out with
    | some o => (f, readError o, [])
    | none =>
      let (f', cbs, x) := compute f
      match x with
      | some x => (f', .raised x, cbs)
      | none =>
        match f'.out with
        | some o => (f', readError o, cbs)
        | none => (f', .raised .notImplemented, cbs)
  | .isComputed => (f, .bool f.out.isSome, [])
  | .setValue v =>
    match f.out with
    | some _ => (f, .raised .alreadyComputed, [])
    | none => let (f', cbs) := complete f (.val v); (f', setRes f, cbs)
  | .setError e =>
    match f.out with
    | some _ => (f, .raised .alreadyComputed, [])
    | none => let (f', cbs) := complete f (.err e); (f', setRes f, cbs)
  | .setErrorNone =>   -- set_error(None): `_error = None; _value = None` - completed with the value None
    match f.out with
    | some _ => (f, .raised .alreadyComputed, [])
    | none => let (f', cbs) := complete f (.val 0); (f', setRes f, cbs)
  | .reset => ({ f with out := none }, .unit, [])
  | .subscribe id beh =>
    if f.kind.sinking then (f, .unit, []) else ({ f with subs := f.subs ++ [(id, beh)] }, .unit, [])
  | .unsubscribe id =>   -- SinkingEventHook.unsubscribe does nothing; EventHook.unsubscribe = list.remove
    if f.kind.sinking then (f, .unit, [])
    else if hasSub f.subs id then ({ f with subs := eraseSub f.subs id }, .unit, [])
    else (f, .raised .notSubscribed, [])
  | .option o on =>    -- an assignment to `_debug.options`: nothing happens to the future
    match o with
    | .perfStats => ({ f with perf := on }, .unit, [])
    | .dumpComputed => (f, .unit, [])
  | .raiseIfError =>   -- `if self._error is not None: reraise(self._error)` - no `_compute()`
    match f.out with
    | some o => (f, raiseRes o, [])
    | none => (f, .unit, [])
  | .inspect => (f, .unit, [])   -- __repr__ / __str__ look at is_computed() first and only then at value() / error()

def observe (f : Fut) (op : Op) : Fut × Obs :=
  let (f', r, cbs) := step f op
  (f', { op := op, res := r, cbs := cbs, after := f'.out, runs := f'.runs })

/-- run a history, collecting the observations -/
def run (f : Fut) : List Op → List Obs
  | [] => []
  | op :: ops => let (f', o) := observe f op; o :: run f' ops

def finalState (f : Fut) : List Op → Fut
  | [] => f
  | op :: ops => finalState (observe f op).1 ops

/-! ## The property C10 as an observer over a history of observations (no model state involved) -/

structure Watch where
  known : Option Outc          -- the outcome the observer has seen the future hold (none = not computed)
  subs : List Sub              -- subscribers the observer registered (non-sinking futures), with what they do
  runs : Nat                   -- how often the provider / task body had run after the previous observation
  done : Bool                  -- a completion has been observed (an AsyncTask has then lost its generator for good)
  deriving Repr, DecidableEq, Inhabited

def watchInit (k : Kind) : Watch :=
  match k with
  | .const v => { known := some (.val v), subs := [], runs := 0, done := false }
  | .error e => { known := some (.err e), subs := [], runs := 0, done := false }
  | .errorNone => { known := some (.val 0), subs := [], runs := 0, done := false }
  | _ => { known := none, subs := [], runs := 0, done := false }

/-- the outcome the future's OWN computation (provider / task body) produces; none = the kind has no computation -/
def Kind.natural : Kind → Option Outc
  | .lazyOk v | .taskOk v | .lazySelfSet v _ => some (.val v)
  | .lazyErr e | .taskErr e => some (.err e)
  | .const _ | .error _ | .errorNone => none

/-- the subscribers of a notification round, each marked `must` (= has to be notified) unless a subscriber notified
    EARLIER in the same round unsubscribes it before its turn (for those the statement leaves both answers open; the
    code notifies them, because it walks a snapshot) -/
def marks (removed : List Nat) : List Sub → List (Sub × Bool)
  | [] => []
  | s :: ss =>
    (s, !(removed.contains s.1)) :: marks (match s.2 with | .unsub j => j :: removed | _ => removed) ss

/-- handlers subscribed DURING the round (they may, but need not, be notified in it - at most once, at the end) -/
def lateSubs (subs : List Sub) : List Nat :=
  subs.filterMap fun s => match s.2 with | .resub j => some j | _ => none

/-- walk the marked subscribers and the notifications together: every `must` subscriber is notified exactly once, in
    subscription order, sees outcome `o`, and its re-entrant completion attempt (if it makes one) was refused -/
def matchCbs (o : Outc) (late : List Nat) : List (Sub × Bool) → List Cb → Bool
  | [], cbs => (cbs.map (·.sub)).isSublist late && cbs.all (fun c => c.seen == some o && c.inner == none)
  | (_, must) :: ms, [] => !must && matchCbs o late ms []
  | (s, must) :: ms, c :: cs =>
    if c.sub == s.1 then c.seen == some o && c.inner == expInner s.2 && matchCbs o late ms cs
    else !must && matchCbs o late ms (c :: cs)

/-- every registered subscriber notified exactly once (in subscription order), each seeing outcome `o` -/
def notifiedAll (subs : List Sub) (cbs : List Cb) (o : Outc) : Bool :=
  matchCbs o (lateSubs subs) (marks [] subs) cbs

/-- is the result of a read the report of outcome `o`? -/
def readOk (op : Op) (r : Res) (o : Outc) : Bool :=
  match op with
  | .value | .call => r == readValue o
  | .error => r == readError o
  | _ => false

/-- the result of the read that RAN the computation (outcome `o` stored by it).  Besides the plain report of `o` the
    observer accepts two answers of the code, each for ONE kind of future only (both listed in ASSUMPTIONS of c10.py):
    * a `Future` whose provider raised `e`: the computing `error()` may RAISE `e` instead of returning it
      (Future._compute re-raises; the same outcome through the other channel; every later `error()` returns it);
    * a `Future` whose provider completed the future itself while it was running (outside the quantifier "providers that
      return or raise"): the computing read may raise FutureIsAlreadyComputed (the provider's own result is refused; the
      FIRST outcome stays and every later read reports it). -/
def freshReadOk (k : Kind) (op : Op) (r : Res) (o : Outc) : Bool :=
  readOk op r o ||
  match k with
  | .lazyErr e => op == .error && r == .raised (.user e)
  | .lazySelfSet _ _ => (op == .value || op == .call || op == .error) && r == .raised .alreadyComputed
  | _ => false

/-- a read of an uncomputed future that left it computed with `o`: did the computation run exactly once and is `o` its
    outcome?  (An AsyncTask has one generator: once it has been completed - by its body or from outside - a read after
    `reset_unsafe()` cannot run the body again; it completes the task with None without running anything.  The statement
    is silent about reads after `reset_unsafe()`; this clause pins today's answer - see ASSUMPTIONS.) -/
def computeOk (k : Kind) (w : Watch) (ob : Obs) (o : Outc) : Bool :=
  if k.isTask && w.done then ob.runs == w.runs && o == .val 0
  else ob.runs == w.runs + 1 && k.natural == some o

/-- what the computing read of a future of kind `k` raised when the exception of a subscriber escaped from `_computed`
    (Future._compute turns it into FutureIsAlreadyComputed for a returning provider, see `compute`) -/
def Kind.escRead : Kind → Exc
  | .lazyOk _ | .lazySelfSet _ _ => .alreadyComputed
  | _ => .subRepr

/-- `unsubscribe`: an unsubscribed handler is forgotten (it must not be notified by later completions); unsubscribing
    a handler that is not subscribed raises and changes nothing -/
def unsubStep (k : Kind) (w : Watch) (id : Nat) (r : Res) : Except String Watch :=
  if k.sinking then (if r == .unit then .ok w else .error "unsubscribe")
  else if hasSub w.subs id then (if r == .unit then .ok { w with subs := eraseSub w.subs id } else .error "unsubscribe")
  else (if r == .raised .notSubscribed then .ok w else .error "unsubscribe")

/-- an accepted `set_value` / `set_error` with outcome `o` on a future the observer knows uncomputed: nothing ran, the
    future holds `o`, every subscriber was notified, and the call RETURNED.  The one wrong answer that gets a name of its
    own is the repaired finding `subscriber-repr-error-escapes` (a regression of 9f49616): the tracked subscribers predict
    that `safe_repr` of the first exception raised in the round raises (`safeReprRaises`) AND the call raised exactly that,
    everything else being right. -/
def setStep (w : Watch) (ob : Obs) (o : Outc) : Except String Watch :=
  if ob.runs != w.runs then .error "provider-once"
  else if ob.after != some o then .error "set"
  else if !notifiedAll w.subs ob.cbs o then .error "notify-once"
  else if ob.res == .unit then .ok { w with known := some o, subs := afterNotify w.subs, done := true }
  else if safeReprRaises w.subs && ob.res == .raised .subRepr then .error "subscriber-repr-error-escapes"
  else .error "set"

/-- a read (`value()`, call, `error()`) of a future the observer knows uncomputed -/
def readStep (k : Kind) (w : Watch) (ob : Obs) : Except String Watch :=
  match ob.after with
  | some o =>
    if ob.runs != w.runs && ob.runs != w.runs + 1 then .error "provider-once"
    else if !computeOk k w ob o then .error "compute-outcome"
    else if !notifiedAll w.subs ob.cbs o then .error "notify-once"
    else if freshReadOk k ob.op ob.res o then .ok { w with known := some o, subs := afterNotify w.subs, done := true }
    else if safeReprRaises w.subs && ob.res == .raised k.escRead then .error "subscriber-repr-error-escapes"
    else .error "compute-read"
  | none =>
    -- only a future that has no computation (ConstFuture/ErrorFuture after reset_unsafe) may stay uncomputed
    if ob.runs != w.runs then .error "provider-once"
    else if k.sinking && ob.res == .raised .notImplemented && ob.cbs.isEmpty then .ok w
    else .error "compute-completes"

/-- one observation against the watch state; returns the clause that fails.  EVERY branch fixes the number of runs of
    the computation relative to the previous observation: it grows (by exactly one) only in a read that finds the future
    uncomputed.  (Sinking kinds - ConstFuture / ErrorFuture, whose `on_computed` is qcore's SinkingEventHook - never get a
    subscriber registered: after `reset_unsafe()` a `set_value` on them has to notify NOBODY.  That pins today's code; the
    statement does not speak about subscribing to a sinking hook - see ASSUMPTIONS.) -/
def watchStep (k : Kind) (w : Watch) (ob : Obs) : Except String Watch :=
  match w.known with
  | some o =>
    -- computed: nothing but reset_unsafe may change anything
    if ob.runs != w.runs then .error "provider-once" else
    match ob.op with
    | .reset =>
      if ob.after == none && ob.cbs.isEmpty && ob.res == .unit then .ok { w with known := none } else .error "reset"
    | .subscribe id b =>
      if ob.after == some o && ob.cbs.isEmpty && ob.res == .unit then
        .ok { w with subs := if k.sinking then w.subs else w.subs ++ [(id, b)] } else .error "single-assignment"
    | .unsubscribe id =>
      if ob.after == some o && ob.cbs.isEmpty then unsubStep k w id ob.res
      else .error "single-assignment"
    | .setValue _ | .setError _ | .setErrorNone =>
      if ob.res != .raised .alreadyComputed then .error "failed-set-raises"
      else if ob.after != some o || !ob.cbs.isEmpty then .error "failed-set-noop"
      else .ok w
    | .isComputed =>
      if ob.res == .bool true && ob.after == some o && ob.cbs.isEmpty then .ok w
      else .error "reads-stable"
    | .value | .call | .error =>
      if readOk ob.op ob.res o && ob.after == some o && ob.cbs.isEmpty then .ok w
      else .error "reads-stable"
    | .raiseIfError =>
      if ob.res == raiseRes o && ob.after == some o && ob.cbs.isEmpty
      then .ok w else .error "reads-stable"
    | .inspect =>
      if ob.res == .unit && ob.after == some o && ob.cbs.isEmpty then .ok w else .error "reads-stable"
    | .option _ _ =>
      if ob.res == .unit && ob.after == some o && ob.cbs.isEmpty then .ok w else .error "option-changes-future"
  | none =>
    match ob.op with
    | .reset =>
      if ob.runs != w.runs then .error "provider-once"
      else if ob.after == none && ob.cbs.isEmpty && ob.res == .unit then .ok w
      else .error "reset"
    | .subscribe id b =>
      if ob.runs != w.runs then .error "provider-once"
      else if ob.after == none && ob.cbs.isEmpty && ob.res == .unit then
        .ok { w with subs := if k.sinking then w.subs else w.subs ++ [(id, b)] } else .error "subscribe"
    | .unsubscribe id =>
      if ob.runs != w.runs then .error "provider-once"
      else if ob.after == none && ob.cbs.isEmpty then unsubStep k w id ob.res
      else .error "subscribe"
    | .isComputed =>
      if ob.runs != w.runs then .error "provider-once"
      else if ob.res == .bool false && ob.after == none && ob.cbs.isEmpty then .ok w
      else .error "reads-stable"
    | .raiseIfError | .inspect =>
      -- neither computes: the future stays uncomputed, nothing runs, nobody is notified
      if ob.runs != w.runs then .error "provider-once"
      else if ob.res == .unit && ob.after == none && ob.cbs.isEmpty then .ok w
      else .error "reads-stable"
    | .option _ _ =>
      if ob.runs != w.runs then .error "provider-once"
      else if ob.res == .unit && ob.after == none && ob.cbs.isEmpty then .ok w else .error "option-changes-future"
    | .setValue v => setStep w ob (.val v)
    | .setError e => setStep w ob (.err e)
    | .setErrorNone =>
      -- `set_error(None)`: None is the library's "no error", the future is completed with the VALUE None - one
      -- consistent outcome all the same (error() = None, value() = None)
      setStep w ob (.val 0)
    | .value | .call | .error => readStep k w ob

def watchRun (k : Kind) (w : Watch) : List Obs → Except String Watch
  | [] => .ok w
  | ob :: obs =>
    match watchStep k w ob with
    | .ok w' => watchRun k { w' with runs := ob.runs } obs
    | .error e => .error (e ++ "@" ++ ob.op.name)

/-- `Spec.C10`: the whole history is accepted.  (The observer does not depend on how the future was created: no debug
    option and no creation-time fact changes what it accepts.) -/
def spec (k : Kind) (obs : List Obs) : Bool :=
  match watchRun k (watchInit k) obs with
  | .ok _ => true
  | .error _ => false

def specClause (k : Kind) (obs : List Obs) : String :=
  match watchRun k (watchInit k) obs with
  | .ok _ => "ok"
  | .error e => e

end AsynqModel.Futures
