/-
  Model of asynq/futures.py (FutureBase, Future, ConstFuture, ErrorFuture) and of AsyncTask seen as a
  future (asynq/async_task.py: _compute/_computed/_queue_exit/_accept_error for a body that does not block).

  One future, a history of operations, and what an observer sees after each operation.
  Values and errors are identity tokens (Nat); value token 0 is Python's None.
-/
namespace AsynqModel.Futures

inductive Kind where
  | lazyOk (v : Nat)    -- Future(lambda: v)
  | lazyErr (e : Nat)   -- Future(provider raising e)
  | const (v : Nat)     -- ConstFuture(v)
  | error (e : Nat)     -- ErrorFuture(e)
  | taskOk (v : Nat)    -- AsyncTask whose body returns v without yielding
  | taskErr (e : Nat)   -- AsyncTask whose body raises e
  | lazySelfSet (v w : Nat)  -- Future(provider) whose provider completes the future itself with v, then returns w
  deriving Repr, DecidableEq, Inhabited

inductive Outc where
  | val (v : Nat)
  | err (e : Nat)
  deriving Repr, DecidableEq, Inhabited

inductive Exc where
  | user (e : Nat)
  | alreadyComputed     -- FutureIsAlreadyComputed
  | notImplemented      -- FutureBase._compute of a future without provider (ConstFuture after reset_unsafe)
  | other               -- anything else (never produced by the model; lets the driver parse any observation)
  deriving Repr, DecidableEq, Inhabited

inductive Res where
  | ok (v : Nat)             -- value returned by value() / __call__
  | errIs (e : Option Nat)   -- what error() returned
  | raised (x : Exc)
  | bool (b : Bool)
  | unit
  deriving Repr, DecidableEq, Inhabited

inductive Op where
  | value | error | call | isComputed
  | setValue (v : Nat) | setError (e : Nat)
  | reset
  | subscribe (id : Nat) (raising : Bool)
  deriving Repr, DecidableEq, Inhabited

def Op.name : Op → String
  | .value => "value" | .error => "error" | .call => "call" | .isComputed => "isComputed"
  | .setValue _ => "setValue" | .setError _ => "setError" | .reset => "reset" | .subscribe _ _ => "subscribe"

/-- one notification: which subscriber, and the outcome it could read from the future at that moment -/
structure Cb where
  sub : Nat
  seen : Option Outc
  deriving Repr, DecidableEq, Inhabited

structure Fut where
  kind : Kind
  out : Option Outc            -- `_value is not _none`, with `_error`
  subs : List (Nat × Bool)     -- on_computed handlers, in subscription order
  runs : Nat                   -- how often the provider / task body ran
  alive : Bool                 -- AsyncTask: `_generator is not None`
  deriving Repr, DecidableEq, Inhabited

/-- what a read-only observer records after every operation -/
structure Obs where
  op : Op
  res : Res
  cbs : List Cb
  after : Option Outc    -- is_computed() and, if so, the outcome
  runs : Nat
  deriving Repr, DecidableEq, Inhabited

def Kind.sinking : Kind → Bool
  | .const _ | .error _ => true
  | _ => false

def Kind.isTask : Kind → Bool
  | .taskOk _ | .taskErr _ => true
  | _ => false

def init (k : Kind) : Fut :=
  match k with
  | .const v => { kind := k, out := some (.val v), subs := [], runs := 0, alive := false }
  | .error e => { kind := k, out := some (.err e), subs := [], runs := 0, alive := false }
  | _ => { kind := k, out := none, subs := [], runs := 0, alive := true }

/-- `set_value` / `set_error` on an uncomputed future: store, then `_computed` (AsyncTask closes its
    generator first), then notify every subscriber, swallowing their `Exception`s. -/
def complete (f : Fut) (o : Outc) : Fut × List Cb :=
  ({ f with out := some o, alive := false }, f.subs.map fun s => { sub := s.1, seen := some o })

/-- `_compute()` of an uncomputed future: new state, notifications, and the exception `_compute` lets escape -/
def compute (f : Fut) : Fut × List Cb × Option Exc :=
  match f.kind with
  | .lazyOk v =>
    let (f', cbs) := complete { f with runs := f.runs + 1 } (.val v)
    (f', cbs, none)
  | .lazyErr e =>   -- Future._compute: set_error(error); raise
    let (f', cbs) := complete { f with runs := f.runs + 1 } (.err e)
    (f', cbs, some (.user e))
  | .const _ | .error _ => (f, [], some .notImplemented)
  | .lazySelfSet v _ =>
    -- the provider calls set_value(v) on the future (subscribers notified with v); `set_value(provider())` then raises
    -- FutureIsAlreadyComputed, the handler's set_error raises it again: the first outcome stays, the call raises
    let (f', cbs) := complete { f with runs := f.runs + 1 } (.val v)
    (f', cbs, some .alreadyComputed)
  | .taskOk v =>
    if f.alive then
      let (f', cbs) := complete { f with runs := f.runs + 1 } (.val v)
      (f', cbs, none)
    else  -- generator already closed: _continue_on_generator raises StopIteration, value None
      let (f', cbs) := complete f (.val 0)
      (f', cbs, none)
  | .taskErr e =>
    if f.alive then
      let (f', cbs) := complete { f with runs := f.runs + 1 } (.err e)
      (f', cbs, none)
    else
      let (f', cbs) := complete f (.val 0)
      (f', cbs, none)

def readValue (o : Outc) : Res :=
  match o with
  | .val v => .ok v
  | .err e => .raised (.user e)

def readError (o : Outc) : Res :=
  match o with
  | .val _ => .errIs none
  | .err e => .errIs (some e)

def step (f : Fut) (op : Op) : Fut × Res × List Cb :=
  match op with
  | .value | .call =>
    match f.out with
    | some o => (f, readValue o, [])
    | none =>
      let (f', cbs, x) := compute f
      match x with
      | some x => (f', .raised x, cbs)
      | none =>
        match f'.out with
        | some o => (f', readValue o, cbs)
        | none => (f', .raised .notImplemented, cbs)
  | .error =>
    match f.out with
    | some o => (f, readError o, [])
    | none =>
      let (f', cbs, x) := compute f
      match x with
      | some x => (f', .raised x, cbs)
      | none =>
        match f'.out with
        | some o => (f', readError o, cbs)
        | none => (f', .raised .notImplemented, cbs)
  | .isComputed => (f, .bool f.out.isSome, [])
  | .setValue v =>
    match f.out with
    | some _ => (f, .raised .alreadyComputed, [])
    | none => let (f', cbs) := complete f (.val v); (f', .unit, cbs)
  | .setError e =>
    match f.out with
    | some _ => (f, .raised .alreadyComputed, [])
    | none => let (f', cbs) := complete f (.err e); (f', .unit, cbs)
  | .reset => ({ f with out := none }, .unit, [])
  | .subscribe id raising =>
    if f.kind.sinking then (f, .unit, []) else ({ f with subs := f.subs ++ [(id, raising)] }, .unit, [])

def observe (f : Fut) (op : Op) : Fut × Obs :=
  let (f', r, cbs) := step f op
  (f', { op := op, res := r, cbs := cbs, after := f'.out, runs := f'.runs })

/-- run a history, collecting the observations -/
def run (f : Fut) : List Op → List Obs
  | [] => []
  | op :: ops => let (f', o) := observe f op; o :: run f' ops

def finalState (f : Fut) : List Op → Fut
  | [] => f
  | op :: ops => finalState (observe f op).1 ops

/-! ## The property C10 as an observer over a history of observations (no model state involved) -/

structure Watch where
  known : Option Outc          -- the outcome the observer has seen the future hold (none = not computed)
  subs : List Nat              -- subscribers the observer registered (non-sinking futures)
  resets : Nat
  runs : Nat
  deriving Repr, DecidableEq, Inhabited

def watchInit (k : Kind) : Watch :=
  match k with
  | .const v => { known := some (.val v), subs := [], resets := 0, runs := 0 }
  | .error e => { known := some (.err e), subs := [], resets := 0, runs := 0 }
  | _ => { known := none, subs := [], resets := 0, runs := 0 }

/-- every registered subscriber notified exactly once (in subscription order), each seeing outcome `o` -/
def notifiedAll (subs : List Nat) (cbs : List Cb) (o : Outc) : Bool :=
  cbs.map (·.sub) == subs && cbs.all (fun c => c.seen == some o)

/-- is the result of a read consistent with outcome `o`? (`error()` may also raise the error it reports
    when this very call ran the computation - Future._compute re-raises; and the call that ran a computation during
    which somebody else completed the future raises FutureIsAlreadyComputed while the FIRST outcome stays) -/
def readOk (op : Op) (r : Res) (o : Outc) (fresh : Bool) : Bool :=
  match op with
  | .value | .call => r == readValue o || (fresh && r == .raised .alreadyComputed)
  | .error => r == readError o || (fresh && (match o with | .err e => r == .raised (.user e) | _ => false))
               || (fresh && r == .raised .alreadyComputed)
  | _ => false

/-- one observation against the watch state; returns the clause that fails -/
def watchStep (k : Kind) (w : Watch) (ob : Obs) : Except String Watch :=
  let runsOk := ob.runs ≤ 1 + w.resets && w.runs ≤ ob.runs
  if !runsOk then .error "provider-once" else
  match w.known with
  | some o =>
    -- computed: nothing but reset_unsafe may change anything
    match ob.op with
    | .reset =>
      if ob.after == none && ob.cbs.isEmpty && ob.runs == w.runs then
        .ok { w with known := none, resets := w.resets + 1 } else .error "reset"
    | .subscribe id _ =>
      if ob.after == some o && ob.cbs.isEmpty && ob.runs == w.runs then
        .ok { w with subs := if k.sinking then w.subs else w.subs ++ [id] } else .error "single-assignment"
    | .setValue _ | .setError _ =>
      if ob.res != .raised .alreadyComputed then .error "failed-set-raises"
      else if ob.after != some o || !ob.cbs.isEmpty || ob.runs != w.runs then .error "failed-set-noop"
      else .ok w
    | .isComputed =>
      if ob.res == .bool true && ob.after == some o && ob.cbs.isEmpty && ob.runs == w.runs then .ok w
      else .error "reads-stable"
    | .value | .call | .error =>
      if readOk ob.op ob.res o false && ob.after == some o && ob.cbs.isEmpty && ob.runs == w.runs then .ok w
      else .error "reads-stable"
  | none =>
    match ob.op with
    | .reset =>
      if ob.after == none && ob.cbs.isEmpty && ob.runs == w.runs then .ok { w with resets := w.resets + 1 }
      else .error "reset"
    | .subscribe id _ =>
      if ob.after == none && ob.cbs.isEmpty && ob.runs == w.runs then
        .ok { w with subs := if k.sinking then w.subs else w.subs ++ [id] } else .error "subscribe"
    | .isComputed =>
      if ob.res == .bool false && ob.after == none && ob.cbs.isEmpty && ob.runs == w.runs then .ok w
      else .error "reads-stable"
    | .setValue v =>
      if ob.res == .unit && ob.after == some (.val v) && ob.runs == w.runs then
        if notifiedAll w.subs ob.cbs (.val v) then .ok { w with known := some (.val v) } else .error "notify-once"
      else .error "set"
    | .setError e =>
      if ob.res == .unit && ob.after == some (.err e) && ob.runs == w.runs then
        if notifiedAll w.subs ob.cbs (.err e) then .ok { w with known := some (.err e) } else .error "notify-once"
      else .error "set"
    | .value | .call | .error =>
      match ob.after with
      | some o =>
        if !readOk ob.op ob.res o true then .error "compute-read"
        else if !notifiedAll w.subs ob.cbs o then .error "notify-once"
        else .ok { w with known := some o, runs := ob.runs }
      | none =>
        -- only a future that has no computation (ConstFuture/ErrorFuture after reset_unsafe) may stay uncomputed
        if k.sinking && ob.res == .raised .notImplemented && ob.cbs.isEmpty && ob.runs == w.runs then .ok w
        else .error "compute-completes"

def watchRun (k : Kind) (w : Watch) : List Obs → Except String Watch
  | [] => .ok w
  | ob :: obs =>
    match watchStep k w ob with
    | .ok w' => watchRun k { w' with runs := ob.runs } obs
    | .error e => .error (e ++ "@" ++ ob.op.name)

/-- `Spec.C10`: the whole history is accepted -/
def spec (k : Kind) (obs : List Obs) : Bool :=
  match watchRun k (watchInit k) obs with
  | .ok _ => true
  | .error _ => false

def specClause (k : Kind) (obs : List Obs) : String :=
  match watchRun k (watchInit k) obs with
  | .ok _ => "ok"
  | .error e => e

end AsynqModel.Futures
